---------------------------- MODULE MCLspDocSim ----------------------------
(* Simulation instance of LspDoc for long random edit sequences on larger documents (C17 quantifier:
   "randomly for long documents and long edit sequences"). Coordinates and texts are drawn with
   RandomElement so one step costs one evaluation; the behaviour is carried in hist and printed
   when it reaches HistLen steps, then replayed on one live proxy.Document.                      *)
EXTENDS LspDoc
CONSTANT HistLen
VARIABLE hist
TextsDef == { <<>>, <<"a">>, <<"n">>, <<"a","n">>, <<"n","a">>, <<"a","n","a">>, <<"n","n">>,
              <<"a","a","a">>, <<"a","n","n","a">>, <<"a","a","n","a","a","n">> }
SimInit == Init /\ hist = <<>>
SimStep ==
    \* \E over a singleton binds each random draw once (a LET body would be re-evaluated per use)
    \E a \in {RandomElement(Coord)}, b \in {RandomElement(Coord)},
       c \in {RandomElement(Coord)}, d \in {RandomElement(Coord)},
       t \in {RandomElement(Texts)}, k \in {RandomElement(1..12)} :
        IF k = 1 THEN ReplaceAll(t)
        ELSE IF PosLE(a, b, c, d) THEN Edit(a, b, c, d, t) ELSE Edit(c, d, a, b, t)
SimNext == /\ Len(hist) < HistLen
           /\ SimStep
           /\ hist' = Append(hist, [lbl |-> lbl', doc |-> doc'])
PrintHist == Len(hist) = HistLen => PrintT(<<"HIST", ToJson([hist |-> hist])>>)
=============================================================================
