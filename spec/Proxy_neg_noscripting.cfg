\* C20 negative config: the response is parsed with scripting disabled (noscript content becomes markup): TLC must reject DocumentOnlyAppendedTo.
CONSTANTS
  UnsupportedRule = "pass"
  HeadRule = "pass"
  StatusRule = "pass"
  CtRule = "caseinsensitive"
  ParseRule = "noscripting"
  CspRule = "policylist"
  LengthRule = "set"
  EmitCases = FALSE
INIT Init
NEXT Next
INVARIANTS TypeOK PassThroughIsIdentity HtmlGetsExactlyOneScript DocumentOnlyAppendedTo LengthMatchesBody EncodingHeaderDescribesBody HeadIsUntouched
CHECK_DEADLOCK FALSE
