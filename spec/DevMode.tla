------------------------------- MODULE DevMode -------------------------------
(* C16 -- watch-mode rendering equals a fresh build.

   A template is a flat sequence of items. An item is a piece of static text, Lit(t), or a Go
   expression e placed in a position (sink) k -- Dyn(e, k).  Generate(T) follows generator/generator.go
   and generator/rangewriter.go: every item contributes literal fragments and operations (Go code);
   ADJACENT literal fragments are merged into one literal (RangeWriter.closeLiteral), literal i is
   written by the operation W(i) = templruntime.WriteString(buf, i, "..."), every expression that the
   generator registers in the source map is appended to the expression list.

   The watch session (cmd/templ/generatecmd/eventhandler.go: generate, devMode branch):
     src       the template as last saved by the user
     prev      the GeneratorOutput of the last generation (fileNameToOutput)
     txt       the literals last written to the development text file
     lastTextHash  the hash of the literals the handler remembers for the text file (FSEventHandler.hashes):
               the file is only rewritten when the hash of the new literals differs (UpsertHash)
     compiled  the operations of the program that is running (last build)
     pending   a rebuild has been requested (GoUpdated) and not happened yet
   Edit(T') saves a new template, Regenerate runs the generator, decides TextUpdated := UpsertHash(txt file,
   hash(literals)) and rewrites txt iff TextUpdated, decides GoUpdated := HasChanged(prev, out); Rebuild is
   enabled iff a rebuild was requested.
   TextHashRule selects what is hashed: "joined" = sha256(strings.Join(literals, "\n")) as coded -- the escaped
   literals contain no raw newline, so this is injective on literal LISTS and modelled as the list itself;
   "concat" = a hash over the literals fed one after the other without separator (plausible "optimisation"):
   only the concatenation counts, not where one literal ends and the next begins.

   RenderDev  = the compiled operations, literal i read from txt (runtime/watchmode.go WriteString)
   RenderFresh= the operations and literals of Generate(src).
   Property: whenever no rebuild is outstanding, RenderDev = RenderFresh.

   ChangeRule selects generator.HasChanged:
     "coded"    as written at the pinned commit: options, number of literals, expression strings
     "codehash" the proposed repair (fixes/C16-haschanged-codehash.diff): additionally a hash of all
                generated code outside the literals' contents (= the operation list here)
     "noexprs"  a plausible regression: the expression list is not compared
   Deliberate deviations: generator options are constant within a session (their comparison is kept
   but can never fire); source positions baked into error handlers are not part of the rendered bytes
   and are not modelled; the contents of a literal are abstract tokens (their escaping is DevModeText.tla). *)
EXTENDS Integers, Sequences, FiniteSets, TLC, Json

CONSTANTS MaxItems,     \* templates have at most this many items
          Choices,      \* the items a template is built from: records [k, e]
          ChangeRule,   \* "coded" | "codehash" | "noexprs"
          TextHashRule, \* "joined" (as coded) | "concat"
          MaxEdits,     \* edits without an intervening rebuild
          EmitEdges     \* TRUE: print every Regenerate transition for replay against the real code

VARIABLES src, prev, txt, lastTextHash, compiled, pending, dirty, nedits,
          csrc, psrc,   \* history: the templates behind `compiled` and `prev` (for replay)
          lbl
vars == <<src, prev, txt, lastTextHash, compiled, pending, dirty, nedits, csrc, psrc>>

-----------------------------------------------------------------------------
(* fragments of one item. n = number of Go variables the generator has created so far
   (createVariableName; variable 1 is the children variable of the template).            *)
L(t)      == [f |-> "L", k |-> "-", e |-> t, i |-> 0]
O(k, e)   == [f |-> "O", k |-> k, e |-> e, i |-> 0]
Cls(n)    == "cls" \o ToString(n)     \* templ.CSSClasses(templ_7745c5c3_Var<n>).String()

Frags(it, n) ==
    CASE it.k = "lit"      -> << L(it.e) >>
      [] it.k = "comment"  -> << L("<!--"), L(it.e), L("-->") >>            \* { e } inside a comment is text
      [] it.k = "text"     -> << O("str", it.e) >>
      [] it.k = "attr"     -> << L("<attr"), O("str", it.e), L("attr>") >>
      [] it.k = "style"    -> << L("<style"), O("style", it.e), L("style>") >>
      [] it.k = "url"      -> << L("<url"), O("url", it.e), L("url>") >>
      [] it.k = "class"    -> << O("hoistcss", it.e), L("<class"), O("str", Cls(n + 1)), L("class>") >>
      [] it.k = "cssconst" -> << O("const", it.e), O("hoistcss", "cc()"), L("<class"), O("str", Cls(n + 1)), L("class>") >>
      [] it.k = "onattr"   -> << O("hoistjs", it.e), L("<on"), O("script", it.e), L("on>") >>
      [] it.k = "sbare"    -> << L("<script"), O("jsbare", it.e), L("script>") >>
      [] it.k = "slit"     -> << L("<scriptq"), O("jslit", it.e), L("qscript>") >>
      [] it.k = "spread"   -> << L("<sp"), O("spread", it.e), L("sp>") >>
      [] it.k = "bool"     -> << L("<bool"), O("ifopen", it.e), L("disabled"), O("ifclose", "-"), L("bool>") >>
      [] it.k = "if"       -> << O("ifopen", it.e), L("then"), O("ifclose", "-") >>
      [] it.k = "for"      -> << O("foropen", it.e), L("body"), O("forclose", "-") >>
      [] it.k = "call"     -> << O("call", it.e) >>
      [] it.k = "children" -> << O("children", "-") >>

\* Go variables created by an item
NVars(it) == CASE it.k \in {"text", "attr", "style", "url", "onattr", "sbare", "slit"} -> 1
               [] it.k \in {"class", "cssconst"} -> 2
               [] OTHER -> 0

\* expressions registered in the source map by an item, in order
Exprs(it, n) ==
    CASE it.k \in {"lit", "comment", "children"} -> << >>
      [] it.k = "class"    -> << it.e, Cls(n + 1) >>
      [] it.k = "cssconst" -> << "cc()", Cls(n + 1) >>
      [] OTHER             -> << it.e >>

RECURSIVE AllFrags(_, _, _)
AllFrags(T, i, n) == IF i > Len(T) THEN << >>
                     ELSE Frags(T[i], n) \o AllFrags(T, i + 1, n + NVars(T[i]))
RECURSIVE AllExprs(_, _, _)
AllExprs(T, i, n) == IF i > Len(T) THEN << >>
                     ELSE Exprs(T[i], n) \o AllExprs(T, i + 1, n + NVars(T[i]))

W(i) == [f |-> "W", k |-> "-", e |-> "-", i |-> i]      \* templruntime.WriteString(buf, i, "...")

\* RangeWriter: literal fragments accumulate in the builder until Go code is written (closeLiteral).
RECURSIVE Close(_, _, _, _, _, _)
Close(frs, i, ops, lits, cur, open) ==
    IF i > Len(frs)
    THEN IF open THEN [ops |-> Append(ops, W(Len(lits) + 1)), lits |-> Append(lits, cur)]
                 ELSE [ops |-> ops, lits |-> lits]
    ELSE IF frs[i].f = "L"
         THEN Close(frs, i + 1, ops, lits, cur \o <<frs[i].e>>, TRUE)
         ELSE IF open
              THEN Close(frs, i + 1, Append(Append(ops, W(Len(lits) + 1)), frs[i]), Append(lits, cur), << >>, FALSE)
              ELSE Close(frs, i + 1, Append(ops, frs[i]), lits, << >>, FALSE)

\* generator.Generate: the GeneratorOutput (literals, expressions) and the code
Generate(T) == LET c == Close(AllFrags(T, 1, 1), 1, << >>, << >>, << >>, FALSE)
               IN  [ops |-> c.ops, lits |-> c.lits, exprs |-> AllExprs(T, 1, 1), opts |-> "opts"]

-----------------------------------------------------------------------------
(* the hash that decides whether the text file is rewritten (eventhandler.generate, devMode branch) *)
RECURSIVE Flat(_)
Flat(ls) == IF ls = << >> THEN << >> ELSE Head(ls) \o Flat(Tail(ls))
TextHash(lits) == IF TextHashRule = "joined" THEN <<"joined", lits>> ELSE <<"concat", Flat(lits)>>
\* an edit that moves static text across Go code: same concatenated text, different literal boundaries
BoundaryMove(p, u) == Flat(p.lits) = Flat(u.lits) /\ p.lits # u.lits

(* generator.HasChanged(previous, updated) *)
HasChangedCoded(p, u) == \/ p.opts # u.opts
                         \/ Len(p.lits) # Len(u.lits)
                         \/ p.exprs # u.exprs
HasChangedHash(p, u)  == HasChangedCoded(p, u) \/ p.ops # u.ops
HasChangedNoExprs(p, u) == p.opts # u.opts \/ Len(p.lits) # Len(u.lits)
HasChanged(p, u) == CASE ChangeRule = "coded"    -> HasChangedCoded(p, u)
                      [] ChangeRule = "codehash" -> HasChangedHash(p, u)
                      [] ChangeRule = "noexprs"  -> HasChangedNoExprs(p, u)

-----------------------------------------------------------------------------
(* rendering: the sequence of output pieces; literal text is flattened so that only the bytes count *)
RECURSIVE Render(_, _, _)
Render(ops, lits, i) ==
    IF i > Len(ops) THEN << >>
    ELSE LET o == ops[i] IN
         IF o.f = "W"
         THEN IF o.i > Len(lits) THEN << [f |-> "ERR", k |-> "-", e |-> "no such line", i |-> o.i] >>   \* rendering fails here
              ELSE [j \in 1..Len(lits[o.i]) |-> L(lits[o.i][j])] \o Render(ops, lits, i + 1)
         ELSE << o >> \o Render(ops, lits, i + 1)

RenderDev   == Render(compiled, txt, 1)
RenderFresh == LET g == Generate(src) IN Render(g.ops, g.lits, 1)

-----------------------------------------------------------------------------
(* templates and edits *)
RECURSIVE SeqsUpTo(_, _)
SeqsUpTo(S, n) == IF n = 0 THEN { << >> }
                  ELSE LET r == SeqsUpTo(S, n - 1) IN r \cup { Append(s, x) : s \in {t \in r : Len(t) = n - 1}, x \in S }
\* a template declares at most one css component whose constant property is edited
WellFormed(T) == Cardinality({i \in 1..Len(T) : T[i].k = "cssconst"}) <= 1
Templates == {T \in SeqsUpTo(Choices, MaxItems) : WellFormed(T)}

Replace(T, i, x) == [T EXCEPT ![i] = x]
Insert(T, i, x)  == SubSeq(T, 1, i - 1) \o <<x>> \o SubSeq(T, i, Len(T))      \* x becomes item i
Delete(T, i)     == SubSeq(T, 1, i - 1) \o SubSeq(T, i + 1, Len(T))
Move(T, i, j)    == Insert(Delete(T, i), j, T[i])                               \* reordering

Neighbours(T) ==
    ({ Replace(T, i, x) : i \in 1..Len(T), x \in Choices }
     \cup (IF Len(T) < MaxItems THEN { Insert(T, i, x) : i \in 1..(Len(T) + 1), x \in Choices } ELSE {})
     \cup { Delete(T, i) : i \in 1..Len(T) }
     \cup { Move(T, i, j) : i \in 1..Len(T), j \in 1..Len(T) }) \ {T}
Edits(T) == {U \in Neighbours(T) : WellFormed(U)}

\* the kind of a single edit, for the evidence (first matching description)
EditKind(T, U) ==
    IF Len(U) = Len(T) + 1 THEN "insert"
    ELSE IF Len(U) = Len(T) - 1 THEN "delete"
    ELSE IF \E i \in 1..Len(T) : \E x \in Choices : U = Replace(T, i, x) /\ T[i].k = "lit" /\ x.k = "lit" THEN "text-edit"
    ELSE IF \E i \in 1..Len(T) : \E x \in Choices : U = Replace(T, i, x) /\ T[i].k # "lit" /\ x.k # "lit" /\ T[i].e = x.e THEN "move-expression-to-other-sink"
    ELSE IF \E i \in 1..Len(T) : \E x \in Choices : U = Replace(T, i, x) THEN "replace-item"
    ELSE IF Flat(Generate(T).lits) = Flat(Generate(U).lits) THEN "move-text-across-go-code"
    ELSE "reorder"

-----------------------------------------------------------------------------
Init == /\ src \in Templates
        /\ LET g == Generate(src) IN
           /\ prev = g /\ txt = g.lits /\ compiled = g.ops /\ lastTextHash = TextHash(g.lits)
        /\ pending = FALSE /\ dirty = FALSE /\ nedits = 0
        /\ csrc = src /\ psrc = src
        /\ lbl = [op |-> "init"]

\* the user saves an edited template
Edit(U) == /\ ~dirty /\ ~pending /\ nedits < MaxEdits
           /\ src' = U /\ dirty' = TRUE /\ nedits' = nedits + 1
           /\ UNCHANGED <<prev, txt, lastTextHash, compiled, pending, csrc, psrc>>
           /\ lbl' = [op |-> "edit", kind |-> EditKind(src, U)]

\* attribution of a regeneration that requests no rebuild although the running code no longer fits
Signature(cops, g) ==
    IF cops = g.ops THEN "faithful"
    ELSE IF Len(cops) = Len(g.ops)
            /\ \A i \in 1..Len(cops) : cops[i] = g.ops[i] \/ (cops[i].f = "O" /\ g.ops[i].f = "O" /\ cops[i].k = "const" /\ g.ops[i].k = "const")
         THEN "HasChanged.NonLiteralConstantIgnored"
    ELSE IF Len(cops) = Len(g.ops)
            /\ \A i \in 1..Len(cops) : cops[i] = g.ops[i] \/ (cops[i].f = "O" /\ g.ops[i].f = "O" /\ cops[i].e = g.ops[i].e)
         THEN "HasChanged.SinkKindIgnored"
    ELSE "HasChanged.OpStructureIgnored"

\* eventhandler.generate in dev mode: write the text file, compare with the previous output, remember the output
Regenerate == /\ dirty
              /\ LET g  == Generate(src)
                     go == HasChanged(prev, g)
                     h  == TextHash(g.lits)
                 IN /\ txt' = (IF h # lastTextHash THEN g.lits ELSE txt)      \* TextUpdated: os.WriteFile only if UpsertHash says so
                    /\ lastTextHash' = h
                    /\ pending' = (pending \/ go)
                    /\ prev' = g
                    /\ lbl' = [op |-> "regen", c |-> csrc, p |-> psrc, s |-> src, go |-> go, txtupd |-> (h # lastTextHash),
                               coded |-> HasChangedCoded(prev, g), hash |-> HasChangedHash(prev, g),
                               nlits |-> Len(g.lits), exprs |-> g.exprs, boundary |-> BoundaryMove(prev, g),
                               sig |-> Signature(compiled, g)]
              /\ psrc' = src /\ dirty' = FALSE
              /\ UNCHANGED <<src, compiled, nedits, csrc>>

\* the -cmd is re-run: the generated code on disk is compiled and started
Rebuild == /\ pending /\ ~dirty
           /\ compiled' = prev.ops /\ csrc' = psrc
           /\ pending' = FALSE /\ nedits' = 0
           /\ UNCHANGED <<src, prev, txt, lastTextHash, dirty, psrc>>
           /\ lbl' = [op |-> "rebuild"]

Next == \/ \E U \in Edits(src) : Edit(U)
        \/ Regenerate
        \/ Rebuild

Spec == Init /\ [][Next]_vars

-----------------------------------------------------------------------------
(* properties *)
Quiescent == ~dirty /\ ~pending

\* C16, second clause: an edit classified as needing no recompilation leaves the running program faithful
NoRebuildMeansFaithful == Quiescent => RenderDev = RenderFresh
\* C16, first clause (structure; the bytes of the literals are DevModeText.tla): same template, its own text file
DevEqualsNormal == (Quiescent /\ csrc = src) => RenderDev = RenderFresh
\* bookkeeping of the session
TypeOK == /\ Len(src) <= MaxItems
          /\ compiled = Generate(csrc).ops
          /\ prev = Generate(psrc)
          /\ (~dirty => psrc = src)
\* after every generation the text file holds the literals of that generation
TextFileCurrent == ~dirty => txt = prev.lits
RenderNeverFails == Quiescent => \A i \in 1..Len(RenderDev) : RenderDev[i].f # "ERR"

View == vars
\* emission: the edit counter only bounds the exploration; without it each (compiled, previous, saved) triple is one state
ViewGen == <<src, prev, txt, lastTextHash, compiled, pending, dirty, csrc, psrc>>
Emit == IF EmitEdges /\ lbl'.op = "regen"
        THEN PrintT(<<"EDGE", ToJson(lbl')>>)
        ELSE TRUE
=============================================================================
