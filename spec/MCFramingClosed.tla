--------------------------- MODULE MCFramingClosed ---------------------------
(* The reader automaton alone, fed ANY byte symbol at every step and EOF at any time.  Its state does
   not contain the input, so TLC explores it completely: the invariants below hold for byte streams of
   every length, hence for every chunking of every message sequence and every malformed header.   *)
EXTENDS Framing
SmallMsgs == << [kind |-> "call", idk |-> "num", id |-> [t |-> "num", v |-> "1", n |-> 1], pay |-> "object", blen |-> 1, rlen |-> 1] >>
VariantsDef == {"none"}

ClosedInit == InitWith(<<>>, [kind |-> "none", at |-> 0, cut |-> 0])
Rest == <<sent, var, wire, regions, pos, read, chunks, bstart>>
Byte(b) == ~eof /\ r' = Step(r, b) /\ UNCHANGED eof /\ UNCHANGED Rest
\* a body longer than Cap is tracked as "more than Cap": at some byte it becomes exactly Cap
BigShrinks == ~eof /\ r.st = "body" /\ r.rem = Big /\ r' = [r EXCEPT !.rem = Cap] /\ UNCHANGED eof /\ UNCHANGED Rest
EndOfInput == ~eof /\ eof' = TRUE /\ r' = AtEOF(r) /\ UNCHANGED Rest
ClosedNext == (\E b \in Sym : Byte(b)) \/ BigShrinks \/ EndOfInput
ClosedView == <<r, eof>>

ClosedInv == ReaderInv(r)
\* the body is entered only with the positive length announced by a Content-Length header of this frame
BodyOnlyWithLength == [][(r.st = "hdr" /\ r'.st = "body") => (r.len >= 1 /\ r'.rem = r.len)]_<<r, eof>>
ErrorIsFinal == [][r.st = "err" => r'.st = "err"]_<<r, eof>>
\* the countdown never skips: a body byte lowers rem by one or completes the message
CountdownExact == [][(r.st = "body" /\ r'.st = "body") => (r'.rem = r.rem \/ r'.rem = r.rem - 1)]_<<r, eof>>
=============================================================================
