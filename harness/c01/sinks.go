package main

import (
	"context"
	"strings"

	"github.com/a-h/templ"

	. "verifharness/c01/sinklib"
)

// A Sink is one dynamic HTML sink of the generated gallery together with the token pattern the
// template author wrote around it (gallery.templ).
type Sink struct {
	ID  string
	Ctx string // context of spec/SinksHtml.tla: TextInData TextInRcdata TextInRawtext AttrDQ AttrDQTwice
	// Kind groups sinks for signatures: text, attr, spread, class, style, url, jsonscript, nonce
	Kind   string
	Render func(s string) (templ.Component, context.Context)
	// Eff is the string that is actually interpolated (identity unless the sink transforms its argument)
	Eff func(s string) string
	// Pat is the author's pattern for effective value v
	Pat func(v string) []PTok
	// Rep: representative of its context -- every generated string is also validated by TLC
	Rep bool
	// Thin: one of many similar sinks (spread key classes): every string is rendered and checked by the second key,
	// only every fourth core string is also validated by TLC (and every rejected case)
	Thin bool
	// Fixed: the component takes no input (a constant or literal expression form): rendered once
	Fixed bool
}

// helpers used by the expression forms of gallery.templ
func identity(s string) string         { return s }
func withErr(s string) (string, error) { return s, nil }

type stringer struct{ v string }

func (s stringer) String() string { return s.v }

const constMeta = "<b a=\"1\" c='2'>&amp;</b> \"'<>&"

// A FormCase is one literal-valued expression form generated at check time (forms_gen.templ / forms_gen.go,
// build tag c01forms): the component takes no argument, S is the value its literal / constant expression has.
type FormCase struct {
	Form string // text-literal text-rawliteral text-const text-litconcat attr-literal attr-rawliteral attr-const
	Attr bool
	S    string
	C    templ.Component
}

var bg = context.Background()

func plain(c templ.Component) (templ.Component, context.Context) { return c, bg }
func id(s string) string                                         { return s }

func elemText(name string) func(string) []PTok {
	return func(string) []PTok { return []PTok{Start(name), Text("$V"), End(name)} }
}
func pAttr(name string) func(string) []PTok {
	return func(string) []PTok { return []PTok{Start("p", name, "$V"), Text("x"), End("p")} }
}
func pAttrAny(name string) func(string) []PTok {
	return func(string) []PTok { return []PTok{Start("p", name, "$A"), Text("x"), End("p")} }
}

// class list semantics of cssProcessor for the two-entry sink: "k" then s
func twoClasses(s string) string {
	if s == "k" {
		return "k"
	}
	return "k " + s
}

type cssClassFn func() templ.CSSClass

func sinks() []Sink {
	ptr := func(s string) *string { return &s }
	classSink := func(idn string, mk func(s string) any) Sink {
		return Sink{ID: "class-" + idn, Ctx: "AttrDQ", Kind: "class", Eff: id, Pat: pAttr("class"),
			Render: func(s string) (templ.Component, context.Context) { return plain(classExpr(mk(s))) }}
	}
	styleSink := func(idn string, mk func(s string) any) Sink {
		return Sink{ID: "style-" + idn, Ctx: "AttrDQTwice", Kind: "style", Eff: id, Pat: pAttrAny("style"),
			Render: func(s string) (templ.Component, context.Context) { return plain(styleExpr(mk(s))) }}
	}
	spreadSink := func(idn string, mk func(s string) any) Sink {
		return Sink{ID: "spread-" + idn, Ctx: "AttrDQ", Kind: "spread", Eff: id, Pat: pAttr("data-k"),
			Render: func(s string) (templ.Component, context.Context) {
				return plain(attrSpread(templ.Attributes{"data-k": mk(s)}))
			}}
	}
	scriptPat := func(attrs func(v string) []string) func(v string) []PTok {
		return func(v string) []PTok {
			return []PTok{Start("script", attrs(v)...), Text("$A"), End("script")}
		}
	}
	nonceAttrs := func(v string) []string {
		if v == "" {
			return nil
		}
		return []string{"nonce", "$V"}
	}
	ss := []Sink{
		// text expressions
		{ID: "text-data", Ctx: "TextInData", Kind: "text", Rep: true, Eff: id, Pat: elemText("p"),
			Render: func(s string) (templ.Component, context.Context) { return plain(textData(s)) }},
		{ID: "text-data-neighbours", Ctx: "TextInData", Kind: "text", Eff: func(s string) string { return "a" + s + "b" }, Pat: elemText("p"),
			Render: func(s string) (templ.Component, context.Context) { return plain(textDataNeighbours(s)) }},
		{ID: "text-nested", Ctx: "TextInData", Kind: "text", Eff: id,
			Pat:    func(string) []PTok { return []PTok{Start("ul"), Start("li"), Text("$V"), End("li"), End("ul")} },
			Render: func(s string) (templ.Component, context.Context) { return plain(textNested(s)) }},
		{ID: "text-textarea", Ctx: "TextInRcdata", Kind: "text", Rep: true, Eff: id, Pat: elemText("textarea"),
			Render: func(s string) (templ.Component, context.Context) { return plain(textRcdataTextarea(s)) }},
		{ID: "text-title", Ctx: "TextInRcdata", Kind: "text", Eff: id, Pat: elemText("title"),
			Render: func(s string) (templ.Component, context.Context) { return plain(textRcdataTitle(s)) }},
		{ID: "text-xmp", Ctx: "TextInRawtext", Kind: "text", Rep: true, Eff: id,
			Pat:    func(string) []PTok { return []PTok{Start("xmp"), Text("$A"), End("xmp")} },
			Render: func(s string) (templ.Component, context.Context) { return plain(textRawtextXmp(s)) }},
		{ID: "text-noscript", Ctx: "TextInRawtext", Kind: "text", Eff: id,
			Pat:    func(string) []PTok { return []PTok{Start("noscript"), Text("$A"), End("noscript")} },
			Render: func(s string) (templ.Component, context.Context) { return plain(textRawtextNoscript(s)) }},
		{ID: "text-in-if", Ctx: "TextInData", Kind: "text", Eff: id, Pat: elemText("p"),
			Render: func(s string) (templ.Component, context.Context) { return plain(textInIf(s, true)) }},
		{ID: "text-in-for", Ctx: "TextInData", Kind: "text", Eff: func(s string) string { return s + s }, Pat: elemText("p"),
			Render: func(s string) (templ.Component, context.Context) { return plain(textInFor([]string{s, s})) }},
		// string attributes
		{ID: "attr-title", Ctx: "AttrDQ", Kind: "attr", Rep: true, Eff: id, Pat: pAttr("title"),
			Render: func(s string) (templ.Component, context.Context) { return plain(attrTitle(s)) }},
		{ID: "attr-void", Ctx: "AttrDQ", Kind: "attr", Eff: id,
			Pat:    func(string) []PTok { return []PTok{Start("input", "value", "$V")} },
			Render: func(s string) (templ.Component, context.Context) { return plain(attrVoid(s)) }},
		{ID: "attr-data", Ctx: "AttrDQ", Kind: "attr", Eff: id,
			Pat:    func(string) []PTok { return []PTok{Start("div", "data-x", "$V", "id", "k"), Text("x"), End("div")} },
			Render: func(s string) (templ.Component, context.Context) { return plain(attrData(s)) }},
		{ID: "attr-conditional", Ctx: "AttrDQ", Kind: "attr", Eff: id, Pat: pAttr("title"),
			Render: func(s string) (templ.Component, context.Context) { return plain(attrConditional(s, true)) }},
		{ID: "attr-custom-element", Ctx: "AttrDQ", Kind: "attr", Eff: id,
			Pat: func(string) []PTok {
				return []PTok{Start("my-element", "some-attr", "$V"), Text("x"), End("my-element")}
			},
			Render: func(s string) (templ.Component, context.Context) { return plain(attrOnCustomElement(s)) }},
		{ID: "attr-on-style-element", Ctx: "AttrDQ", Kind: "attr", Eff: id,
			Pat:    func(string) []PTok { return []PTok{Start("style", "media", "$V"), Text("p{}"), End("style")} },
			Render: func(s string) (templ.Component, context.Context) { return plain(attrOnRawElement(s)) }},
		{ID: "attr-on-script-element", Ctx: "AttrDQ", Kind: "attr", Eff: id,
			Pat:    func(string) []PTok { return []PTok{Start("script", "data-k", "$V"), Text("var a;"), End("script")} },
			Render: func(s string) (templ.Component, context.Context) { return plain(attrOnScriptElement(s)) }},
		{ID: "attr-link-href", Ctx: "AttrDQ", Kind: "attr", Eff: id,
			Pat:    func(string) []PTok { return []PTok{Start("link", "href", "$V")} },
			Render: func(s string) (templ.Component, context.Context) { return plain(hrefLink(s)) }},
		// spread attribute values
		spreadSink("string", func(s string) any { return s }),
		spreadSink("pstring", func(s string) any { return ptr(s) }),
		spreadSink("kv-string-bool", func(s string) any { return templ.KV(s, true) }),
		{ID: "spread-conditional", Ctx: "AttrDQ", Kind: "spread", Eff: id, Pat: pAttr("data-k"),
			Render: func(s string) (templ.Component, context.Context) {
				return plain(attrSpreadConditional(templ.Attributes{"data-k": s}, true))
			}},
		{ID: "spread-among-others", Ctx: "AttrDQ", Kind: "spread", Eff: id,
			Pat: func(string) []PTok {
				return []PTok{Start("p", "a", "1", "b", "", "data-k", "$V", "z", "2"), Text("x"), End("p")}
			},
			Render: func(s string) (templ.Component, context.Context) {
				return plain(attrSpread(templ.Attributes{"a": "1", "b": true, "c": false, "data-k": ptr(s), "z": "2", "n": (*string)(nil)}))
			}},
		// class expression entries, every container form of cssProcessor.Add
		classSink("string", func(s string) any { return s }),
		classSink("strings", func(s string) any { return []string{s} }),
		classSink("map", func(s string) any { return map[string]bool{s: true} }),
		classSink("kv", func(s string) any { return templ.KV(s, true) }),
		classSink("kvs", func(s string) any { return []templ.KeyValue[string, bool]{templ.KV(s, true)} }),
		classSink("classes", func(s string) any { return templ.Classes(s) }),
		classSink("classes-nested", func(s string) any { return templ.Classes(templ.Classes(map[string]bool{s: true})) }),
		classSink("constant", func(s string) any { return templ.ConstantCSSClass(s) }),
		classSink("safeclass", func(s string) any { return templ.SafeClass(s) }),
		classSink("cssclass-slice", func(s string) any { return []templ.CSSClass{templ.ConstantCSSClass(s)} }),
		classSink("func", func(s string) any { return func() templ.CSSClass { return templ.ConstantCSSClass(s) } }),
		classSink("kv-cssclass", func(s string) any { return templ.KV[templ.CSSClass, bool](templ.ConstantCSSClass(s), true) }),
		classSink("kvs-cssclass", func(s string) any {
			return []templ.KeyValue[templ.CSSClass, bool]{templ.KV[templ.CSSClass, bool](templ.ConstantCSSClass(s), true)}
		}),
		{ID: "class-two-entries", Ctx: "AttrDQ", Kind: "class", Eff: twoClasses, Pat: pAttr("class"),
			Render: func(s string) (templ.Component, context.Context) { return plain(classExprTwo("k", s)) }},
		{ID: "class-disabled", Ctx: "AttrDQ", Kind: "class", Eff: func(string) string { return "" }, Pat: pAttr("class"),
			Render: func(s string) (templ.Component, context.Context) { return plain(classExpr(templ.KV(s, false))) }},
		// style attribute result
		styleSink("string", func(s string) any { return s }),
		func() Sink {
			k := styleSink("map-value", func(s string) any { return map[string]string{"color": s} })
			k.Rep = true
			return k
		}(),
		styleSink("map-name", func(s string) any { return map[string]string{s: "red"} }),
		styleSink("kv-value", func(s string) any { return templ.KV("color", s) }),
		styleSink("kv-bool", func(s string) any { return templ.KV(s, true) }),
		styleSink("safecss", func(s string) any { return templ.SafeCSS(s) }),
		styleSink("safecssproperty-map", func(s string) any { return map[string]templ.SafeCSSProperty{"color": templ.SafeCSSProperty(s)} }),
		styleSink("func", func(s string) any { return func() string { return s } }),
		styleSink("slice", func(s string) any { return []any{"color:red", map[string]string{"margin": s}} }),
		// href / action after URL typing
		{ID: "href-url", Ctx: "AttrDQ", Kind: "url", Eff: func(s string) string { return string(templ.URL(s)) },
			Pat:    func(string) []PTok { return []PTok{Start("a", "href", "$V"), Text("x"), End("a")} },
			Render: func(s string) (templ.Component, context.Context) { return plain(hrefURL(s)) }},
		{ID: "href-safeurl", Ctx: "AttrDQ", Kind: "url", Eff: id,
			Pat:    func(string) []PTok { return []PTok{Start("a", "href", "$V"), Text("x"), End("a")} },
			Render: func(s string) (templ.Component, context.Context) { return plain(hrefSafeURL(s)) }},
		{ID: "action-url", Ctx: "AttrDQ", Kind: "url", Eff: func(s string) string { return string(templ.URL(s)) },
			Pat:    func(string) []PTok { return []PTok{Start("form", "action", "$V"), Text("x"), End("form")} },
			Render: func(s string) (templ.Component, context.Context) { return plain(actionURL(s)) }},
		{ID: "action-safeurl", Ctx: "AttrDQ", Kind: "url", Eff: id,
			Pat:    func(string) []PTok { return []PTok{Start("form", "action", "$V"), Text("x"), End("form")} },
			Render: func(s string) (templ.Component, context.Context) { return plain(actionSafeURL(s)) }},
		// JSON script element
		{ID: "jsonscript-id", Ctx: "AttrDQ", Kind: "jsonscript", Eff: id,
			Pat: scriptPat(func(v string) []string {
				if v == "" {
					return []string{"type", "application/json"}
				}
				return []string{"id", "$V", "type", "application/json"}
			}),
			Render: func(s string) (templ.Component, context.Context) { return plain(jsonScriptID(s)) }},
		{ID: "jsonscript-type", Ctx: "AttrDQ", Kind: "jsonscript", Eff: id,
			Pat: scriptPat(func(v string) []string {
				if v == "" {
					return []string{"id", "i"}
				}
				return []string{"id", "i", "type", "$V"}
			}),
			Render: func(s string) (templ.Component, context.Context) { return plain(jsonScriptType(s)) }},
		{ID: "jsonscript-nonce-string", Ctx: "AttrDQ", Kind: "nonce", Eff: id,
			Pat: scriptPat(func(v string) []string {
				return append([]string{"id", "i", "type", "application/json"}, nonceAttrs(v)...)
			}),
			Render: func(s string) (templ.Component, context.Context) { return plain(jsonScriptNonceFromString(s)) }},
		{ID: "jsonscript-nonce-context", Ctx: "AttrDQ", Kind: "nonce", Eff: id,
			Pat: scriptPat(func(v string) []string {
				return append([]string{"id", "i", "type", "application/json"}, nonceAttrs(v)...)
			}),
			Render: func(s string) (templ.Component, context.Context) {
				return jsonScriptNonceFromContext(), templ.WithNonce(context.Background(), s)
			}},
		// script templates: nonce on the emitted script elements
		{ID: "script-component-nonce", Ctx: "AttrDQ", Kind: "nonce", Eff: id,
			Pat: func(v string) []PTok {
				return []PTok{Start("script", nonceAttrs(v)...), Text("$A"), End("script"),
					Start("script", nonceAttrs(v)...), Text("$A"), End("script")}
			},
			Render: func(s string) (templ.Component, context.Context) {
				return scriptAsComponent(), templ.WithNonce(context.Background(), s)
			}},
		{ID: "script-handler-nonce", Ctx: "AttrDQ", Kind: "nonce", Eff: id,
			Pat: func(v string) []PTok {
				return []PTok{Start("script", nonceAttrs(v)...), Text("$A"), End("script"),
					Start("button", "onclick", "$A"), Text("x"), End("button")}
			},
			Render: func(s string) (templ.Component, context.Context) {
				return scriptInHandler(), templ.WithNonce(context.Background(), s)
			}},
		// expression forms in element text
		{ID: "text-form-call", Ctx: "TextInData", Kind: "text", Eff: id, Pat: elemText("p"),
			Render: func(s string) (templ.Component, context.Context) { return plain(textCall(s)) }},
		{ID: "text-form-call-with-error", Ctx: "TextInData", Kind: "text", Eff: id, Pat: elemText("p"),
			Render: func(s string) (templ.Component, context.Context) { return plain(textCallWithError(s)) }},
		{ID: "text-form-concat", Ctx: "TextInData", Kind: "text", Eff: func(s string) string { return "<" + s + ">" }, Pat: elemText("p"),
			Render: func(s string) (templ.Component, context.Context) { return plain(textConcat(s)) }},
		{ID: "text-form-method", Ctx: "TextInData", Kind: "text", Eff: id, Pat: elemText("p"),
			Render: func(s string) (templ.Component, context.Context) { return plain(textMethod(stringer{s})) }},
		{ID: "text-form-sprintf", Ctx: "TextInData", Kind: "text", Eff: id, Pat: elemText("p"),
			Render: func(s string) (templ.Component, context.Context) { return plain(textSprintf(s)) }},
		{ID: "text-form-constant", Fixed: true, Ctx: "TextInData", Kind: "text", Eff: func(string) string { return constMeta }, Pat: elemText("p"),
			Render: func(s string) (templ.Component, context.Context) { return plain(textConstant()) }},
		{ID: "text-form-literal", Fixed: true, Ctx: "TextInData", Kind: "text", Eff: func(string) string { return "a < b && b > c </p><script>alert(1)</script>" }, Pat: elemText("p"),
			Render: func(s string) (templ.Component, context.Context) { return plain(textLiteral()) }},
		{ID: "text-form-rawliteral", Fixed: true, Ctx: "TextInData", Kind: "text", Eff: func(string) string { return `Tom & Jerry <img src=x onerror=alert(1)> "q" 'a'` }, Pat: elemText("p"),
			Render: func(s string) (templ.Component, context.Context) { return plain(textRawLiteral()) }},
		// expression forms in attribute values
		{ID: "attr-form-call", Ctx: "AttrDQ", Kind: "attr", Eff: id, Pat: pAttr("title"),
			Render: func(s string) (templ.Component, context.Context) { return plain(attrCall(s)) }},
		{ID: "attr-form-call-with-error", Ctx: "AttrDQ", Kind: "attr", Eff: id, Pat: pAttr("title"),
			Render: func(s string) (templ.Component, context.Context) { return plain(attrCallWithError(s)) }},
		{ID: "attr-form-concat", Ctx: "AttrDQ", Kind: "attr", Eff: func(s string) string { return "\"" + s + "'" }, Pat: pAttr("title"),
			Render: func(s string) (templ.Component, context.Context) { return plain(attrConcat(s)) }},
		{ID: "attr-form-constant", Fixed: true, Ctx: "AttrDQ", Kind: "attr", Eff: func(string) string { return constMeta }, Pat: pAttr("title"),
			Render: func(s string) (templ.Component, context.Context) { return plain(attrConstant()) }},
		{ID: "attr-form-literal", Fixed: true, Ctx: "AttrDQ", Kind: "attr", Eff: func(string) string { return "\" onmouseover=\"alert(1)\" x='<&>" }, Pat: pAttr("title"),
			Render: func(s string) (templ.Component, context.Context) { return plain(attrLiteral()) }},
		{ID: "attr-form-rawliteral", Fixed: true, Ctx: "AttrDQ", Kind: "attr", Eff: func(string) string { return `" onmouseover="alert(1)" x='<&>` }, Pat: pAttr("title"),
			Render: func(s string) (templ.Component, context.Context) { return plain(attrRawLiteral()) }},
	}
	// spread attributes: KEY classes the runtime could special-case x value kinds. Whatever RenderAttributes does with a
	// key (URL sanitising, script or style handling), the value must stay ONE double-quoted attribute value.
	urlKey := func(k string) bool {
		k = strings.ToLower(k)
		return k == "href" || k == "action" || k == "formaction"
	}
	for _, key := range []string{"href", "HREF", "Href", "action", "Action", "formaction", "FormAction", "src", "SRC", "style", "Style", "class",
		"onclick", "ONCLICK", "onMouseOver", "hx-on:click", "data-x", "DATA-X", "title", "value", "srcdoc", "xlink:href"} {
		key := key
		kinds := []struct {
			name string
			mk   func(s string) any
		}{
			{"string", func(s string) any { return s }},
			{"pstring", func(s string) any { return ptr(s) }},
			{"kv", func(s string) any { return templ.KV(s, true) }},
		}
		for _, kd := range kinds {
			kd := kd
			val := "$V"
			if urlKey(key) {
				val = "$A" // a runtime that sanitises URL keys may replace the value: structure only
			}
			ss = append(ss, Sink{ID: "spreadkey-" + key + "-" + kd.name, Ctx: "AttrDQ", Kind: "spread", Thin: true, Eff: id,
				Pat: func(string) []PTok { return []PTok{Start("p", key, val), Text("x"), End("p")} },
				Render: func(s string) (templ.Component, context.Context) {
					return plain(attrSpread(templ.Attributes{key: kd.mk(s)}))
				}})
		}
		if urlKey(key) {
			// a SafeURL value: whether the runtime renders this kind at all is probed once; if it does, one attribute
			probe, _ := render(&Sink{Render: func(s string) (templ.Component, context.Context) {
				return plain(attrSpread(templ.Attributes{key: templ.SafeURL(s)}))
			}}, "Q7Q")
			rendered := strings.Contains(probe, "Q7Q")
			ss = append(ss, Sink{ID: "spreadkey-" + key + "-safeurl", Ctx: "AttrDQ", Kind: "spread", Thin: true, Eff: id,
				Pat: func(string) []PTok {
					if rendered {
						return []PTok{Start("p", key, "$V"), Text("x"), End("p")}
					}
					return []PTok{Start("p"), Text("x"), End("p")}
				},
				Render: func(s string) (templ.Component, context.Context) {
					return plain(attrSpread(templ.Attributes{key: templ.SafeURL(s)}))
				}})
		}
	}
	return ss
}
