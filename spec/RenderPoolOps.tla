---------------------------- MODULE RenderPoolOps ----------------------------
(* Pool protocol shared by the process-level model (RenderPool.tla, C14) and the trace spec that
   validates the `verif` pool-hook events of the real code (TraceRenderPool.tla, C10 + C14).

   h  : [buffer object -> set of renders that currently hold (= may still touch) it]
   p  : set of buffer objects inside sync.Pool
   A render holds a buffer from Get until its last use; Put makes the object available to others.  *)
EXTENDS Integers, FiniteSets

\* sync.Pool.Get hands r the object b (a pooled one, or a new one that nobody has seen yet)
HGet(h, r, b)  == [h EXCEPT ![b] = @ \cup {r}]
PGet(p, b)     == p \ {b}
\* r will not touch b any more
HDrop(h, r, b) == [h EXCEPT ![b] = @ \ {r}]
\* sync.Pool.Put
PPut(p, b)     == p \cup {b}

GetLegal(h, r, b) == h[b] = {}            \* nobody holds what the pool hands out
UseLegal(h, r, b) == h[b] = {r}           \* only its single holder touches a buffer

\* C14 ExclusiveBuffer: no buffer object is held by two renders at once
Exclusive(h) == \A b \in DOMAIN h : Cardinality(h[b]) <= 1
\* a pooled object is not held by anybody (Put happens after the last use)
PooledUnheld(h, p) == \A b \in p : h[b] = {}
=============================================================================
