package main

// Replay of spec/LspSession.tla behaviours (start with or without workspace preload, open, change as a full
// replacement or as an incremental edit, close, re-open) on a real proxy.Server with a stub gopls and a stub client.
// After every step the server's copy of the document (TemplSource) is compared with the editor's text.

import (
	"context"
	"encoding/json"
	"fmt"
	"os"
	"path/filepath"
	"strings"

	"github.com/a-h/templ/cmd/templ/lspcmd/proxy"
	lsp "github.com/a-h/templ/lsp/protocol"

	"verifharness/vhlib"
)

// stubTarget stands in for gopls: it accepts the notifications the proxy forwards.
type stubTarget struct{ lsp.Server }

func (stubTarget) Initialize(context.Context, *lsp.InitializeParams) (*lsp.InitializeResult, error) {
	return &lsp.InitializeResult{ServerInfo: &lsp.ServerInfo{}}, nil
}
func (stubTarget) Initialized(context.Context, *lsp.InitializedParams) error         { return nil }
func (stubTarget) DidOpen(context.Context, *lsp.DidOpenTextDocumentParams) error     { return nil }
func (stubTarget) DidChange(context.Context, *lsp.DidChangeTextDocumentParams) error { return nil }
func (stubTarget) DidClose(context.Context, *lsp.DidCloseTextDocumentParams) error   { return nil }

// stubClient stands in for the editor side of the connection.
type stubClient struct{ lsp.Client }

func (stubClient) PublishDiagnostics(context.Context, *lsp.PublishDiagnosticsParams) error { return nil }

// The three texts of the specification: two templates that parse (of different length and line count) and one
// that does not (the copy must be tracked whether or not the text is a valid template).
var sessionTexts = map[string]string{
	"t1": "package main\n\ntempl Hello() {\n\t<div>saved</div>\n}\n",
	"t2": "package main\n\ntempl Hello() {\n\t<p>first</p>\n\t<div>unsaved text</div>\n}\n\ntempl Other() {\n\t<i>x</i>\n}\n",
	"t3": "package main\n\ntempl Hello( {\n\t<div>\n",
}

type sessionStep struct {
	Op      string `json:"op"`
	Preload bool   `json:"preload"`
	Doc     string `json:"doc"`
	Text    string `json:"text"`
	Full    bool   `json:"full"`
}

type sessionHist struct {
	Disk  map[string]string `json:"disk"` // document -> text on disk at start ("none": no file)
	Steps []sessionStep     `json:"steps"`
}

func position(doc string, off int) lsp.Position {
	line, col := 0, 0
	for i := 0; i < off; i++ {
		if doc[i] == '\n' {
			line++
			col = 0
		} else {
			col++
		}
	}
	return lsp.Position{Line: uint32(line), Character: uint32(col)}
}

// incremental returns the edit (range in the old text, replacement) that turns old into new.
func incremental(old, new string) (lsp.Range, string) {
	p := 0
	for p < len(old) && p < len(new) && old[p] == new[p] {
		p++
	}
	s := 0
	for s < len(old)-p && s < len(new)-p && old[len(old)-1-s] == new[len(new)-1-s] {
		s++
	}
	return lsp.Range{Start: position(old, p), End: position(old, len(old)-s)}, new[p : len(new)-s]
}

func session(path string) {
	root, err := os.MkdirTemp("", "verif-c17-session-")
	if err != nil {
		vhlib.Fatal("%v", err)
	}
	defer os.RemoveAll(root)
	seen := map[string]bool{}
	n, steps, fails := 0, 0, 0
	err = vhlib.Each(path, func(line []byte) error {
		if seen[string(line)] {
			return nil
		}
		seen[string(line)] = true
		var h sessionHist
		if err := json.Unmarshal(line, &h); err != nil {
			return err
		}
		n++
		if sig, what, at := replaySession(h, filepath.Join(root, fmt.Sprintf("w%05d", n))); sig != "" {
			fails++
			vhlib.Fail(sig, what, map[string]any{"behaviour": h, "step": at})
		} else if n%200 == 1 {
			vhlib.Sample(map[string]any{"behaviour": h})
		}
		steps += len(h.Steps)
		return nil
	})
	if err != nil {
		vhlib.Fatal("%v", err)
	}
	vhlib.Summary(map[string]any{"behaviours": n, "steps": steps, "fails": fails})
}

func replaySession(h sessionHist, dir string) (sig, what string, at int) {
	if err := os.MkdirAll(dir, 0o755); err != nil {
		vhlib.Fatal("%v", err)
	}
	defer os.RemoveAll(dir)
	uri := map[string]lsp.DocumentURI{}
	for d, t := range h.Disk {
		file := filepath.Join(dir, d+".templ")
		uri[d] = lsp.DocumentURI("file://" + file)
		if t != "none" {
			if err := os.WriteFile(file, []byte(sessionTexts[t]), 0o644); err != nil {
				vhlib.Fatal("%v", err)
			}
		}
	}
	ctx := lsp.WithClient(context.Background(), stubClient{})
	var srv *proxy.Server
	editor := map[string]string{} // open documents
	version := map[string]int32{}
	// every open document's copy equals the editor's text
	compare := func(op string) (string, string) {
		for d, want := range editor {
			doc, ok := srv.TemplSource.Get(string(uri[d]))
			if !ok {
				return "Session.ServerTracksEditor." + op, "the server holds no copy of the open document " + d
			}
			if got := doc.String(); got != want {
				return "Session.ServerTracksEditor." + op, fmt.Sprintf("document %s: server copy %q, editor %q", d, clip(got), clip(want))
			}
		}
		return "", ""
	}
	for i, s := range h.Steps {
		switch s.Op {
		case "start":
			srv = proxy.NewServer(logger, stubTarget{}, proxy.NewSourceMapCache(), proxy.NewDiagnosticCache(), !s.Preload)
			if _, err := srv.Initialize(ctx, &lsp.InitializeParams{WorkspaceFolders: []lsp.WorkspaceFolder{{URI: "file://" + dir, Name: "w"}}}); err != nil {
				return "", "", 0 // cannot drive the server: not a verdict
			}
			if err := srv.Initialized(ctx, &lsp.InitializedParams{}); err != nil {
				return "", "", 0
			}
			continue
		case "open":
			editor[s.Doc] = sessionTexts[s.Text]
			version[s.Doc] = 1
			if err := srv.DidOpen(ctx, &lsp.DidOpenTextDocumentParams{TextDocument: lsp.TextDocumentItem{URI: uri[s.Doc], LanguageID: "templ", Version: 1, Text: editor[s.Doc]}}); err != nil {
				return "Session.Open", "DidOpen failed: " + err.Error(), i
			}
		case "change":
			next := sessionTexts[s.Text]
			ev := lsp.TextDocumentContentChangeEvent{Text: next}
			if !s.Full {
				r, text := incremental(editor[s.Doc], next)
				ev = lsp.TextDocumentContentChangeEvent{Range: &r, Text: text}
			}
			editor[s.Doc] = next
			version[s.Doc]++
			params := &lsp.DidChangeTextDocumentParams{ContentChanges: []lsp.TextDocumentContentChangeEvent{ev}}
			params.TextDocument.URI = uri[s.Doc]
			params.TextDocument.Version = version[s.Doc]
			if err := srv.DidChange(ctx, params); err != nil {
				return "Session.Change", "DidChange failed: " + err.Error(), i
			}
		case "close":
			delete(editor, s.Doc)
			if err := srv.DidClose(ctx, &lsp.DidCloseTextDocumentParams{TextDocument: lsp.TextDocumentIdentifier{URI: uri[s.Doc]}}); err != nil {
				return "Session.Close", "DidClose failed: " + err.Error(), i
			}
			if doc, ok := srv.TemplSource.Get(string(uri[s.Doc])); ok {
				return "Session.NoCopyWhenClosed", fmt.Sprintf("the server still holds a copy of %s after close: %q", s.Doc, clip(doc.String())), i
			}
		}
		if sig, what := compare(s.Op); sig != "" {
			return sig, what, i
		}
	}
	return "", "", 0
}

func clip(s string) string {
	if len(s) > 120 {
		return s[:120] + "…"
	}
	return strings.ToValidUTF8(s, "?")
}
