#!/usr/bin/env python3
"""C07 -- the source map relates every Go expression byte to the same byte in generated code.

MC   : spec/SourceMap.tla transcribes RangeWriter.write and SourceMap.Add rune by rune; TLC checks
       SameByte / Consecutive / RoundTrip / EndOfLineMapped / SymbolRangeEncloses for every expression
       shape within the bounds x texts in front x target offsets.  Two negative configs (columns
       advanced by runes; no end-of-line entry) must be rejected.
GEN  : spec/SourceMapGen.tla enumerates (syntactic slot, text in front, expression shape); harness/c07
       prints each as a .templ file with real multi-byte identifiers; parse + generate with the code
       under test (a rejected template is a concretiser bug: exit 2).
VAL  : for each generated template and each .templ file of the repository, for every Go expression of
       the tree, every rune-boundary position and the position past the end of each expression line
       is looked up with the real TargetPositionFromSource / SourcePositionFromTarget; the observed
       tuples with the runes found at both ends are validated by TLC against spec/TraceSourceMap.tla
       (same invariants + comparison with the tables the model's Add builds).  Symbol ranges of
       top-level declarations are validated against the declarations found in the generated Go text.
"""
import concurrent.futures
import json
import os
import sys
sys.path.insert(0, os.path.join(os.path.dirname(os.path.abspath(__file__)), "..", "lib"))
import vlib

CHUNK = 20000


def cfg(name, **subst):
    text = open(os.path.join(vlib.SPEC, name)).read()
    for k, v in subst.items():
        import re
        text, n = re.subn(r"(?m)^(\s*%s\s*(=|<-)\s*).*$" % k, lambda m: m.group(1) + v, text)
        if n != 1:
            raise vlib.InfraError("cfg %s: cannot set %s" % (name, k))
    return text


def validate_chunk(path):
    with open(path, "rb") as fh:
        data = fh.read()
    res = vlib.tlc("TraceSourceMap", "TraceSourceMap.cfg", files={"trace.ndjson": data}, workers=1, timeout=900,
                   xss="512m")
    return path, res


def main():
    ck = vlib.Check("C07", "translation_validation")
    thorough = ck.tier == "thorough"
    sc = vlib.scratch()

    # --- MC: the algorithm itself ---------------------------------------------------------------
    if thorough:
        mcs = [("2 lines x 3 runes", dict(MaxLines="2", MaxRunes="3", Pres="PresSome", Offsets="{0, 1, 2, 3}")),
               ("3 lines x 2 runes", dict(MaxLines="3", MaxRunes="2", Pres="PresSome", Offsets="{0, 3}")),
               ("1 line x 4 runes", dict(MaxLines="1", MaxRunes="4", Pres="PresAll", Offsets="{0, 1, 2, 3}"))]
    else:
        mcs = [("2 lines x 2 runes, 3 texts in front", dict(Pres="PresSome"))]
    for name, sub in mcs:
        mc = vlib.tlc("MCSourceMap", "mc.cfg", files={"mc.cfg": cfg("SourceMap_mc.cfg", **sub)}, workers=12,
                      timeout=1500, xmx="8g")
        if not mc.ok:
            raise vlib.InfraError("SourceMap model violates %s: spec and code model disagree" % mc.violated)
        ck.add_tlc(mc, "SourceMap_mc " + name)
    for negcfg, inv in (("SourceMap_neg.cfg", "SameByte"), ("SourceMap_negeol.cfg", "EndOfLineMapped"),
                        ("SourceMap_negsym.cfg", "SymbolsFound")):
        neg = vlib.tlc("MCSourceMap", negcfg, workers=1, timeout=300)
        if neg.violated != inv:
            raise vlib.InfraError("negative config %s not rejected by %s (got %s)" % (negcfg, inv, neg.violated))
    ck.set("negative_configs_rejected", 3)

    # --- GEN: TLC enumerates the cases ----------------------------------------------------------
    cases = []
    if thorough:
        gen = vlib.tlc("MCSourceMapGen", "gen.cfg", workers=1, timeout=900,
                       files={"gen.cfg": cfg("SourceMapGen_gen.cfg", MaxRunes="3", Pres="PresTwo")})
    else:
        gen = vlib.tlc("MCSourceMapGen", "gen.cfg", workers=1, timeout=600,
                       files={"gen.cfg": cfg("SourceMapGen_gen.cfg", Pres="PresTwo")})
    if not gen.ok:
        raise vlib.InfraError("case generator failed: %s" % gen.violated)
    ck.add_tlc(gen, "SourceMapGen (exhaustive shapes)")
    cases += gen.tagged("CASE")
    n_bfs = len(cases)
    # random shapes from the full grid (3 lines x 4 runes x widths 1..4, texts of 0..2 multi-byte runes)
    num = 100000 if thorough else 8000
    sim = vlib.tlc("MCSourceMapGen", "SourceMapGen_sim.cfg", workers=1, simulate="num=%d" % num, depth=24,
                   tlc_seed=ck.seed, timeout=900)
    if sim.violated:
        raise vlib.InfraError("case generator (simulation) failed: %s" % sim.violated)
    simcases = sim.tagged("CASE")
    if len(simcases) < num // 20:
        raise vlib.InfraError("simulation produced only %d cases" % len(simcases))
    cases += simcases
    uniq = {}
    for c in cases:
        uniq[json.dumps(c, sort_keys=True)] = c
    cpath = os.path.join(sc, "cases.ndjson")
    with open(cpath, "w") as fh:
        for k in uniq:
            fh.write(k + "\n")
    vlib.log("cases: %d exhaustive + %d simulated -> %d distinct" % (n_bfs, len(simcases), len(uniq)))

    # --- harness: concretise, parse, generate, record lookups ----------------------------------
    binp = vlib.go_build("./c07", "c07")
    outdir = os.path.join(sc, "c07out")
    os.makedirs(outdir)
    p = vlib.run([binp, "run", cpath, vlib.REPO, outdir, str(CHUNK)], check=False, timeout=1500)
    s = vlib.harness_results(ck, p)
    if s["cases"] != len(uniq):
        raise vlib.InfraError("harness concretised %d of %d cases" % (s["cases"], len(uniq)))
    if s["corpus_files"] < 50:
        raise vlib.InfraError("only %d .templ files found under %s" % (s["corpus_files"], vlib.REPO))
    slots = set(json.loads(k)["slot"] for k in uniq)
    if len(slots) < 26 or any(s["per_slot"].get(x, 0) == 0 for x in slots):
        raise vlib.InfraError("a syntactic slot was not exercised: %s" % s["per_slot"])
    if s["unfaithful_ranges"]:
        ck.notes.append("%d expressions whose parser range does not hold their text were skipped (C06's subject)" % s["unfaithful_ranges"])

    # --- binding self-test: one corrupted tuple must be rejected by the trace spec ---------------
    first = s["trace_files"][0]
    with open(first) as fh:
        head = [json.loads(next(fh)) for _ in range(40)]
    victim = next(e for e in head if e["k"] == "e" and e.get("syn") == 0 and len(e["p"]) > 2 and e["p"][1][6] == 1)
    victim["p"][1][8] += 1       # target column one byte off
    st = vlib.tlc("TraceSourceMap", "TraceSourceMap.cfg", workers=1, timeout=300, xss="512m",
                  files={"trace.ndjson": "".join(json.dumps(e) + "\n" for e in head)})
    hit = [b for b in st.tagged("BAD") if b["id"] == victim["id"]]
    if not hit or st.postcondition_failed:
        raise vlib.InfraError("binding self-test: corrupted tuple of event %d was not rejected" % victim["id"])
    ck.set("binding_selftest", "corrupted target column rejected: %s" % sorted(hit[0]["sigs"]))

    # --- VAL: TLC validates the recorded lookups ------------------------------------------------
    bad = {}
    drift = set()
    events = 0
    with concurrent.futures.ThreadPoolExecutor(max_workers=6 if thorough else 5) as ex:
        for path, res in ex.map(validate_chunk, s["trace_files"]):
            done = res.tagged("DONE")
            if not res.ok or res.postcondition_failed or len(done) != 1:
                raise vlib.InfraError("trace validation of %s did not complete:\n%s" % (path, res.out[-2000:]))
            events += done[0]["events"]
            for b in res.tagged("BAD"):
                bad[b["id"]] = sorted(b["sigs"])
            for d in res.tagged("DRIFT"):
                drift.add(d["id"])
            ck.add_tlc(res, "TraceSourceMap " + os.path.basename(path))
    if events != sum(s["trace_counts"]) or events != s["expressions"] + s["symbols"]:
        raise vlib.InfraError("TLC validated %d events, the harness recorded %d" % (events, sum(s["trace_counts"])))

    # --- verdict ---------------------------------------------------------------------------------
    if bad or drift:
        index = {}
        with open(os.path.join(outdir, "index.ndjson")) as fh:
            for line in fh:
                r = json.loads(line)
                index[r["id"]] = r
        want = set(bad) | drift
        for tf in s["trace_files"]:
            with open(tf) as fh:
                for line in fh:
                    # cheap pre-filter on the id before decoding
                    e = json.loads(line)
                    if e["id"] not in want:
                        continue
                    fi = index.get(e["f"], {})
                    case = {"file": fi.get("name"), "templ_source": fi.get("src"), "generator_case": fi.get("case"),
                            "event": {k: v for k, v in e.items() if k != "p"},
                            "rows(kind,li,sl,sc,si,srcRune,ok,tl,tc,ti,tgtRune,tgtOffsetOf(tl,tc),bok,bl,bc,bi,shared)":
                                [r for r in e.get("p", []) if r[6] == 0 or r[5] != r[10] or r[9] != r[11]][:6],
                            "reproduce": "parser.ParseString + generator.Generate on the file, then SourceMap lookups at the rows' (sl, sc)"}
                    if e["id"] in bad:
                        for sig in bad[e["id"]]:
                            full = sig if sig.startswith("Add") else "%s:%s" % (sig, e.get("h") or e.get("what"))
                            ck.violation(full, "source map lookup breaks %s for %s in %s" % (
                                sig, e.get("path") or e.get("what"), fi.get("name")), case)
                    else:
                        ck.add("model_drift_cases")
                        if len(ck.notes) < 5:
                            ck.notes.append("model drift (tables differ from SourceMap.tla's Add, property holds): %s" % json.dumps(case)[:400])

    ck.set("programs", s["files"])
    ck.set("disagreements_checked", s["positions"] + s["symbols"])
    ck.set("generated_programs", s["cases"])
    ck.set("repo_templ_files", s["corpus_files"])
    ck.set("expressions", s["expressions"])
    ck.set("lookup_positions", s["positions"])
    ck.set("symbol_ranges", s["symbols"])
    ck.set("multiline_expressions", s["multiline_expressions"])
    ck.set("multibyte_expressions", s["multibyte_expressions"])
    ck.set("per_slot", s["per_slot"])
    ck.set("per_expression_holder", s["per_holder"])
    ck.set("failing_events", len(bad))
    ck.set("bounds", {"mc": [m[0] for m in mcs], "gen_exhaustive": "2 lines x %d runes, widths 1..4, %d texts in front" % ((3, 2) if thorough else (2, 2)),
                      "gen_simulated": "3 lines x 4 runes, widths 1..4, 13 texts in front (0-2 multi-byte runes)"})
    ck.assume("target text = generator.Generate's unformatted output (what the LSP proxy sends to gopls with this map)")
    ck.assume("positions are byte columns (parse.Input / RangeWriter); UTF-16 column conversion of LSP clients is outside the property")
    ck.assume("for all templates is explored by TLC-generated (slot, shape) programs plus the repository's .templ files; nothing is proved about generator.go")
    ck.assume("expressions consisting of whitespace only are not written by the generator and are skipped; a position that also belongs to another expression (shared boundary) is exempt from Consecutive")
    ck.finish()


vlib.main(main)
