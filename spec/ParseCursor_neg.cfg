\* C06 negative config: a sub-parser that reports a match without consuming breaks the bound.
CONSTANTS
  N = 3
  Loops <- LoopsDef
  MaxDepth = 2
  MaxTries = 2
  Faulty = TRUE
  Extra = 0
  Reparse = FALSE
INIT Init
NEXT Next
CONSTRAINT Bounded
INVARIANTS CursorInBounds TopBound
CHECK_DEADLOCK FALSE
