package lib

import (
	"context"
	"io"
	"sort"

	"github.com/a-h/templ"
)

// HA is a once handle without a fixed component, HF one with the fixed component Cf("94").
var (
	HA = templ.NewOnceHandle()
	HF = templ.NewOnceHandle(templ.WithComponent(Cf("94")))
)

// Fn is a hand-written component that follows the documented protocol for children:
// GetChildren, then ClearChildren, then render them where it wants.
func Fn(id string) templ.Component {
	return templ.ComponentFunc(func(ctx context.Context, w io.Writer) error {
		children := templ.GetChildren(ctx)
		ctx = templ.ClearChildren(ctx)
		if _, err := io.WriteString(w, `<x-fn id="`+id+`">`); err != nil {
			return err
		}
		if err := children.Render(ctx, w); err != nil {
			return err
		}
		_, err := io.WriteString(w, `</x-fn>`)
		return err
	})
}

var registry = map[string]func() templ.Component{}

// Register is called by the generated tree packages.
func Register(id string, f func() templ.Component) { registry[id] = f }

func Lookup(id string) (func() templ.Component, bool) { f, ok := registry[id]; return f, ok }

func IDs() []string {
	ids := make([]string, 0, len(registry))
	for k := range registry {
		ids = append(ids, k)
	}
	sort.Strings(ids)
	return ids
}
