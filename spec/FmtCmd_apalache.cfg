\* Unbounded argument for FmtCmd.tla with Apalache: inductive invariant (see the comment above IndInv).
\* The operators to check are given on the command line (--init / --inv / --length); no bound on the number of runs.
CONSTANTS
  Files = {"a", "b", "c", "d", "e", "f"}
  MaxRuns = 1000
  RunRewrites = TRUE
INIT Init
NEXT NextUnbounded
