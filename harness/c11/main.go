// c11 replays every terminal state of spec/Handler.tla (one per line: configuration, component,
// the response the specification predicts) on the real templ.Handler of the repository under
// test, through httptest.ResponseRecorder and through a real net/http server and client.
//
//	c11 replay <finish-edges.ndjson> <seed> <rounds>
package main

import (
	"context"
	"encoding/json"
	"errors"
	"fmt"
	"io"
	"log"
	"math/rand"
	"net/http"
	"net/http/httptest"
	"os"
	"strconv"
	"strings"
	"sync"
	"sync/atomic"

	"github.com/a-h/templ"

	"verifharness/vhlib"
)

type config struct {
	Status int    `json:"status"`
	CType  string `json:"ctype"`
	EH     string `json:"eh"`
	Stream bool   `json:"stream"`
	K      int    `json:"k"`
	Fail   bool   `json:"fail"`
	// class of the render error: none | plain | canceled (wraps context.Canceled, request alive) |
	// deadline (wraps context.DeadlineExceeded, request alive) | reqcancelled (the request context is cancelled)
	ECls string `json:"ecls"`
}

type final struct {
	Status int               `json:"status"`
	CT     string            `json:"ct"`
	XErr   string            `json:"xerr"`
	Body   []json.RawMessage `json:"body"`
	// the specification's terminal outcome "the handler panicked": nothing beyond what was already committed
	Aborted bool `json:"aborted"`
	// the configured error handler was consulted with the render error
	EH bool `json:"eh"`
}

type edge struct {
	N       int    `json:"n"`
	Cfg     config `json:"cfg"`
	Final   final  `json:"final"`
	Outcome string `json:"outcome"`
	Pooled  int    `json:"pooled"`
}

const (
	ctDefault = "text/html; charset=utf-8"
	ctJSON    = "application/json"
	ctSSE     = "text/event-stream; charset=utf-8"
	errMsg    = "templ: failed to render template\n"
	ehBody    = "custom error body"
)

// chunk sizes around and above bytes.Buffer's growth points (64-byte small buffer, doubling) and
// net/http's 2 KiB / 4 KiB write buffers
var profiles = [][]int{
	{5, 5, 5, 5, 5, 5},
	{63, 1, 1, 1, 64, 1},
	{64, 65, 129, 1, 512, 7},
	{4095, 4097, 70000, 3, 2048, 1},
}

func concreteCT(v string) string {
	switch v {
	case "default":
		return ctDefault
	case "htmlcharset":
		return ctDefault
	case "json":
		return ctJSON
	case "eventstream":
		return ctSSE
	case "empty":
		return ""
	case "text/plain":
		return "text/plain; charset=utf-8"
	case "absent":
		return ""
	}
	return v
}

func chunk(caseID, prof, i int) string {
	size := profiles[prof][(i-1)%len(profiles[prof])]
	unit := fmt.Sprintf("[%d.%d]", caseID, i)
	return strings.Repeat(unit, size/len(unit)+1)[:size]
}

// body concretises the specification's token list.
func body(tokens []json.RawMessage, caseID, prof int) (string, error) {
	var sb strings.Builder
	for _, raw := range tokens {
		var t []any
		if err := json.Unmarshal(raw, &t); err != nil {
			return "", err
		}
		switch t[0].(string) {
		case "c":
			sb.WriteString(chunk(caseID, prof, int(t[1].(float64))))
		case "E":
			sb.WriteString(errMsg)
		case "H":
			sb.WriteString(ehBody)
		default:
			return "", fmt.Errorf("unknown body token %v", t)
		}
	}
	return sb.String(), nil
}

var errRender = errors.New("verif: injected render failure")

// reqInfo travels in the request context: ONE handler instance per handler configuration serves every request
// of the run (as a long-lived server does), and the component reads what to render for this request from the context.
// That way request sequences -- a failed render followed by a successful one -- go through the same
// ComponentHandler and whatever state it or the runtime keeps between requests.
type reqKey struct{}

type reqInfo struct {
	K, CaseID, Prof int
	Fail            bool
	ECls            string
}

// renderError builds the component's error for an error class of the specification.
func renderError(ctx context.Context, cls string) error {
	switch cls {
	case "plain":
		return errRender
	case "canceled":
		// a sub-operation of the component (a lookup on a derived context that a sibling task cancelled) failed;
		// the request itself is alive
		return fmt.Errorf("verif: loading the page data: %w", context.Canceled)
	case "deadline":
		return fmt.Errorf("verif: upstream call: %w", context.DeadlineExceeded)
	case "reqcancelled":
		if ctx.Err() == nil {
			vhlib.Fatal("error class reqcancelled: the request context is not cancelled")
		}
		return ctx.Err()
	}
	vhlib.Fatal("unknown error class %q", cls)
	return nil
}

func component() templ.Component {
	return templ.ComponentFunc(func(ctx context.Context, w io.Writer) error {
		ri, ok := ctx.Value(reqKey{}).(reqInfo)
		if !ok {
			return errors.New("verif: request info missing from the context")
		}
		for i := 1; i <= ri.K; i++ {
			if _, err := io.WriteString(w, chunk(ri.CaseID, ri.Prof, i)); err != nil {
				return err
			}
		}
		if ri.Fail {
			return renderError(ctx, ri.ECls)
		}
		if ctx.Err() != nil {
			vhlib.Fatal("a successful render was given a cancelled context")
		}
		return nil
	})
}

func withInfo(r *http.Request, c config, caseID, prof int) *http.Request {
	ctx := context.WithValue(r.Context(), reqKey{}, reqInfo{K: c.K, CaseID: caseID, Prof: prof, Fail: c.Fail, ECls: c.ECls})
	if c.ECls == "reqcancelled" {
		// the request context is cancelled before the handler renders (a timeout middleware gave up, the client left)
		var cancel context.CancelFunc
		ctx, cancel = context.WithCancel(ctx)
		cancel()
	}
	return r.WithContext(ctx)
}

// ehCalls counts the invocations of the configured error handlers (requests are served one at a time).
var ehCalls atomic.Int64

func errorHandler(kind string, sawErr *error) func(r *http.Request, err error) http.Handler {
	return func(r *http.Request, err error) http.Handler {
		*sawErr = err
		ehCalls.Add(1)
		if ri, ok := r.Context().Value(reqKey{}).(reqInfo); !ok || !ri.Fail || err == nil {
			vhlib.Fatal("the error handler was called for a request whose render did not fail (err=%v)", err)
		}
		if kind == "nilhandler" {
			// an error handler that has no page for this error and returns a nil http.Handler
			return nil
		}
		return http.HandlerFunc(func(w http.ResponseWriter, r *http.Request) {
			switch kind {
			case "statusbody":
				w.WriteHeader(http.StatusBadRequest)
				io.WriteString(w, ehBody)
			case "bodyonly":
				io.WriteString(w, ehBody)
			case "nothing":
			case "headers":
				w.Header().Set("Content-Type", "text/x-error")
				w.Header().Set("X-Err", "1")
				w.WriteHeader(http.StatusServiceUnavailable)
				io.WriteString(w, ehBody)
			}
		})
	}
}

type instanceKey struct {
	Status    int
	CType, EH string
	Stream    bool
	Generated bool
}

var (
	instMu    sync.Mutex
	instances = map[instanceKey]http.Handler{}
)

// handler returns the long-lived handler instance for a configuration (created on first use).
func handler(c config, generated bool) http.Handler {
	k := instanceKey{c.Status, c.CType, c.EH, c.Stream, generated}
	instMu.Lock()
	defer instMu.Unlock()
	if h, ok := instances[k]; ok {
		return h
	}
	comp := component()
	if generated {
		comp = wrap(comp)
	}
	var opts []func(*templ.ComponentHandler)
	if c.Status != 0 {
		opts = append(opts, templ.WithStatus(c.Status))
	}
	if c.CType != "default" {
		// htmlcharset: the default value given explicitly; json; text/event-stream (without WithStreaming: still buffered); ""
		opts = append(opts, templ.WithContentType(concreteCT(c.CType)))
	}
	var saw error
	if c.EH != "unset" {
		opts = append(opts, templ.WithErrorHandler(errorHandler(c.EH, &saw)))
	}
	if c.Stream {
		opts = append(opts, templ.WithStreaming())
	}
	h := templ.Handler(comp, opts...)
	instances[k] = h
	return h
}

type response struct {
	Status int    `json:"status"`
	CT     string `json:"content_type"`
	XErr   string `json:"x_err"`
	Body   string `json:"body"`
	// the handler did not return (panic seen by the recorder transport / connection aborted by net/http);
	// Status 0 then means that no status line was committed
	Aborted bool `json:"aborted"`
	// the configured error handler was consulted
	EH bool `json:"error_handler_called"`
}

// tracked is a ResponseWriter over a ResponseRecorder that knows whether the header has been committed
// (a recorder reports 200 for a handler that never wrote anything, which an aborted request must not be given).
type tracked struct {
	rec   *httptest.ResponseRecorder
	wrote bool
}

func (t *tracked) Header() http.Header { return t.rec.Header() }
func (t *tracked) WriteHeader(code int) {
	t.wrote = true
	t.rec.WriteHeader(code)
}
func (t *tracked) Write(b []byte) (int, error) {
	t.wrote = true
	return t.rec.Write(b)
}

// serveRecorded runs the handler on a recorder; a panic of the handler is the terminal outcome "aborted".
func serveRecorded(h http.Handler, r *http.Request) (got response, panicked any) {
	t := &tracked{rec: httptest.NewRecorder()}
	func() {
		defer func() { panicked = recover() }()
		h.ServeHTTP(t, r)
	}()
	if panicked != nil && !t.wrote {
		// nothing was committed before the panic: the client gets no status line, no header, no body
		return response{Aborted: true}, panicked
	}
	res := t.rec.Result()
	bb, _ := io.ReadAll(res.Body)
	return response{Status: res.StatusCode, CT: res.Header.Get("Content-Type"), XErr: res.Header.Get("X-Err"), Body: string(bb),
		Aborted: panicked != nil}, panicked
}

// panicLog counts the panics net/http recovers while serving (it logs "http: panic serving ...").
type panicLog struct{ n atomic.Int64 }

func (p *panicLog) Write(b []byte) (int, error) {
	if strings.Contains(string(b), "http: panic serving") {
		p.n.Add(1)
	}
	return len(b), nil
}

func short(s string) string {
	if len(s) > 160 {
		return s[:70] + fmt.Sprintf("...(%d bytes)...", len(s)) + s[len(s)-60:]
	}
	return s
}

func (r response) short() response { r.Body = short(r.Body); return r }

type report struct {
	N         int      `json:"request_index"`
	Cfg       config   `json:"config"`
	Profile   []int    `json:"chunk_sizes"`
	Transport string   `json:"transport"`
	Component string   `json:"component"`
	Want      response `json:"spec"`
	Got       response `json:"real"`
	Outcome   string   `json:"spec_outcome"`
	Panic     string   `json:"panic,omitempty"`
}

// carriesDocument reports whether a response body carries bytes of the document the failed component had written
// (the chunks 1..k, inside the opening tag of the generated wrapper if there is one).
func carriesDocument(got string, c config, caseID, prof int, generated bool) bool {
	var doc strings.Builder
	if generated {
		doc.WriteString("<main>")
	}
	for i := 1; i <= c.K; i++ {
		doc.WriteString(chunk(caseID, prof, i))
	}
	d := doc.String()
	return d != "" && got != "" && (strings.HasPrefix(d, got) || strings.Contains(got, d))
}

func signature(c config) string {
	mode := "Buffered"
	if c.Stream {
		mode = "Streamed"
	}
	cls := ""
	if c.ECls != "plain" {
		// the error path taken for an error of a special class (wraps context.Canceled / DeadlineExceeded, request cancelled)
		cls = "." + c.ECls
	}
	switch {
	case !c.Fail:
		return mode + ".Success"
	case c.EH == "unset":
		return mode + ".DefaultError" + cls
	default:
		return mode + ".ErrorHandler." + c.EH + cls
	}
}

func main() {
	if len(os.Args) < 5 || os.Args[1] != "replay" {
		vhlib.Fatal("usage: c11 replay <edges> <seed> <rounds>")
	}
	seed, _ := strconv.ParseInt(os.Args[3], 10, 64)
	rounds, _ := strconv.Atoi(os.Args[4])
	var cases []edge
	if err := vhlib.Each(os.Args[2], func(line []byte) error {
		var e edge
		if err := json.Unmarshal(line, &e); err != nil {
			return err
		}
		cases = append(cases, e)
		return nil
	}); err != nil {
		vhlib.Fatal("%v", err)
	}

	// one real server for the whole run: /<case>/<profile>/<generated>
	srv := httptest.NewUnstartedServer(http.HandlerFunc(func(w http.ResponseWriter, r *http.Request) {
		var id, prof, gen int
		if _, err := fmt.Sscanf(r.URL.Path, "/%d/%d/%d", &id, &prof, &gen); err != nil || id >= len(cases) {
			http.Error(w, "bad case", 599)
			return
		}
		handler(cases[id].Cfg, gen == 1).ServeHTTP(w, withInfo(r, cases[id].Cfg, id, prof))
	}))
	plog := &panicLog{}
	srv.Config.ErrorLog = log.New(plog, "", 0)
	srv.Start()
	defer srv.Close()
	client := srv.Client()

	var runs, fails, drift, samples, genRuns, abortedRuns, serverAborts int
	outcomes := map[string]int{}
	transports := map[string]int{}
	sigs := map[string]int{}
	rng := rand.New(rand.NewSource(seed))

	check := func(id int, e edge, prof int, generated bool, transport string) {
		want := response{Status: e.Final.Status, CT: concreteCT(e.Final.CT), XErr: concreteCT(e.Final.XErr)}
		b, err := body(e.Final.Body, id, prof)
		if err != nil {
			vhlib.Fatal("case %d: %v", id, err)
		}
		want.Body = b
		compName := "func"
		if generated {
			compName = "generated wrapper"
			if !e.Cfg.Fail {
				want.Body = "<main>" + want.Body + "</main>"
			}
		}
		want.Aborted = e.Final.Aborted
		want.EH = e.Final.EH
		ehBefore := ehCalls.Load()
		// an error handler that returns a nil http.Handler: the only configuration for which a request may be aborted
		// (handler.go calls ServeHTTP on the nil result). A transport error anywhere else is a machinery problem.
		mayAbort := e.Cfg.Fail && e.Cfg.EH == "nilhandler"
		var got response
		panicText := ""
		switch transport {
		case "recorder":
			var pv any
			got, pv = serveRecorded(handler(e.Cfg, generated), withInfo(httptest.NewRequest("GET", "/", nil), e.Cfg, id, prof))
			if pv != nil {
				panicText = fmt.Sprint(pv)
				if !mayAbort {
					vhlib.Fatal("case %d (%+v): the handler panicked: %v", id, e.Cfg, pv)
				}
			}
		case "server":
			g := 0
			if generated {
				g = 1
			}
			before := plog.n.Load()
			res, err := client.Get(fmt.Sprintf("%s/%d/%d/%d", srv.URL, id, prof, g))
			if err != nil {
				if !mayAbort {
					vhlib.Fatal("client: %v", err)
				}
				// net/http recovered a panic of the handler and closed the connection: empty reply
				got = response{Aborted: true}
				panicText = "client: " + err.Error()
			} else {
				bb, err := io.ReadAll(res.Body)
				res.Body.Close()
				if err != nil && !mayAbort {
					vhlib.Fatal("client read: %v", err)
				}
				got = response{Status: res.StatusCode, CT: res.Header.Get("Content-Type"), XErr: res.Header.Get("X-Err"), Body: string(bb),
					Aborted: err != nil}
				if err != nil {
					panicText = "client read: " + err.Error()
				}
			}
			if got.Aborted {
				serverAborts++
				// (the client transparently retries a GET whose reused connection was closed without a reply: 1 or 2 panics)
				if plog.n.Load() == before {
					vhlib.Fatal("case %d (%+v): the connection was aborted but net/http logged no panic of the handler", id, e.Cfg)
				}
			}
			if want.Aborted && e.Cfg.Stream && got.Aborted {
				// streamed + aborted: net/http closes the connection without flushing the response's own buffer; how much
				// of what the handler had written reaches the client is up to net/http (nothing, or the status line, the
				// headers and a prefix of the body). Not part of C11; normalise what the model cannot know.
				if got.Status == 0 && got.Body == "" {
					got = want
				} else if got.Status == want.Status && got.CT == want.CT && got.XErr == want.XErr && strings.HasPrefix(want.Body, got.Body) {
					got = want
				}
			}
		}
		// (the client transparently retries an aborted GET, so the handler may have been consulted more than once)
		got.EH = ehCalls.Load() > ehBefore
		if want.Aborted && e.Cfg.Stream && got.Aborted && transport == "server" {
			got.EH = want.EH
		}
		runs++
		transports[transport]++
		if generated {
			genRuns++
		}
		if got.Aborted {
			abortedRuns++
		}
		rep := report{N: e.N, Cfg: e.Cfg, Profile: profiles[prof][:e.Cfg.K], Transport: transport, Component: compName,
			Want: want.short(), Got: got.short(), Outcome: e.Outcome, Panic: panicText}
		if got != want {
			if e.Cfg.Stream {
				// the property is about the buffered handler; streaming is only specified as documented
				drift++
				vhlib.Drift("streamed response differs from the documented behaviour in the model", rep)
			} else if e.Cfg.ECls == "reqcancelled" && !carriesDocument(got.Body, e.Cfg, id, prof, generated) {
				// the request context itself is cancelled: the client has gone away and nobody observes the response. Code that
				// stops answering such requests (without sending document bytes) leaves the property as stated intact.
				drift++
				vhlib.Drift("a request whose own context is cancelled is no longer answered with the error response; no document bytes are sent", rep)
			} else if want.Aborted && !carriesDocument(got.Body, e.Cfg, id, prof, generated) {
				// handler.go panics on a nil error handler result. Code that answers such a request in another way WITHOUT
				// sending any byte of the failed document (e.g. falls back to the default 500 message, or sends an empty
				// reply) still responds all-or-nothing: the model is out of date, the property is not affected.
				drift++
				vhlib.Drift("a nil error handler result is no longer answered by aborting the request; no document bytes are sent", rep)
			} else {
				fails++
				what := "buffered handler sent neither the whole document (configured status, content type) nor exactly the error response"
				if e.Cfg.Fail && !e.Cfg.Stream && want.EH && !got.EH {
					what = "the render failed with an error of class " + e.Cfg.ECls + " while the request is alive, but the configured error handler was " +
						"not consulted and the client got neither the document nor the error response"
				}
				if want.Aborted {
					what = "the render failed and the error handler returned a nil http.Handler (the request is aborted, nothing is committed), " +
						"but the buffered handler sent bytes of the partial document"
				}
				vhlib.Fail(signature(e.Cfg), what, rep)
			}
		} else if samples < 5 && e.Cfg.Fail && e.Cfg.K >= 2 && prof == 3 && (runs%53 == 0) {
			samples++
			vhlib.Sample(rep)
		}
	}

	order := make([]int, len(cases))
	for i := range order {
		order[i] = i
	}
	for round := 0; round < rounds; round++ {
		if round > 0 {
			// other request sequences over the same buffer pool
			rng.Shuffle(len(order), func(a, b int) { order[a], order[b] = order[b], order[a] })
		}
		for _, id := range order {
			e := cases[id]
			if round == 0 {
				outcomes[e.Outcome]++
				sigs[signature(e.Cfg)]++
			}
			for prof := range profiles {
				if round > 0 && prof != rng.Intn(len(profiles)) {
					continue
				}
				if round == 0 && e.Cfg.Fail && e.Cfg.ECls != "plain" && prof != 0 && prof != 3 {
					continue // the special error classes: smallest and largest chunk profile only
				}
				lightCT := e.Cfg.CType == "htmlcharset" || e.Cfg.CType == "json" || e.Cfg.CType == "empty"
				if round == 0 && lightCT && prof != 1 {
					continue // content types that only differ in the header value: one chunk profile
				}
				if round > 0 && lightCT {
					continue
				}
				check(id, e, prof, false, "recorder")
				check(id, e, prof, false, "server")
				if !e.Cfg.Stream {
					// real generated code around the failing component (prediction is exact in buffered mode only)
					check(id, e, prof, true, "recorder")
					if prof == 0 || prof == 3 {
						check(id, e, prof, true, "server")
					}
				}
			}
		}
	}
	vhlib.Summary(map[string]any{"cases": len(cases), "runs": runs, "fails": fails, "drift": drift,
		"outcomes": outcomes, "transports": transports, "branches": sigs, "generated_component_runs": genRuns,
		"aborted_runs": abortedRuns, "server_aborts": serverAborts, "server_panics_logged": plog.n.Load()})
}
