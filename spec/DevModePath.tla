----------------------------- MODULE DevModePath -----------------------------
(* C16 -- path identity of the development text file.

   The generator (eventhandler.generate, devMode) WRITES the literals to  GetDevModeTextFileName(<name>.templ) ;
   the running program (runtime.WriteString) READS  GetDevModeTextFileName(<path of the _templ.go file the
   compiler recorded>).  Both must be the same file for every way a template file can be reached:
   a plain path, a .templ file that is itself a symbolic link (a shared component linked into a package), a
   project reached through a symbolic link to its directory, a relative name, a name with "..".

   runtime/watchmode.go as coded:
     GetDevModeTextFileName(n): if n ends in _templ.go: n := <n without it>.templ ;
                                a := Abs(n) (lexical: Clean) ; a := EvalSymlinks(a) (if it fails: n itself) ; hash(a)
     WriteString:               path := runtime.Caller ; path := EvalSymlinks(path) ; GetDevModeTextFileName(path)
   So the name is a function of the CANONICAL path of the .templ file on both sides.

   Paths are sequences of names below a common root; Links maps a path that is a symbolic link to its target.
   A shape fixes the links, the name the generator is given (g, possibly with ".."), and the path of the generated
   Go file as the compiler saw it (b).  The hash is injective: the name is modelled as the path itself.
   ReaderRule: "coded" | "skipsecond" (the reader does not resolve the .templ name again -- plausible "optimisation").
   WriterRule: "coded" | "noresolve" (the writer hashes the name it was given).                                   *)
EXTENDS Integers, Sequences, FiniteSets, TLC, Json

CONSTANTS Shapes, ReaderRule, WriterRule, EmitCases
VARIABLES shape, lbl
vars == <<shape>>

\* filepath.Clean on an absolute path: ".." removes the component before it (lexically)
RECURSIVE Clean(_, _)
Clean(p, acc) == IF p = << >> THEN acc
                 ELSE IF Head(p) = ".." THEN Clean(Tail(p), IF acc = << >> THEN acc ELSE SubSeq(acc, 1, Len(acc) - 1))
                 ELSE Clean(Tail(p), Append(acc, Head(p)))

IsLink(links, p) == \E l \in links : l[1] = p
TargetOf(links, p) == (CHOOSE l \in links : l[1] = p)[2]
\* filepath.EvalSymlinks: resolve every prefix that is a link (bounded: the shapes have no link cycles)
RECURSIVE Eval(_, _, _, _)
Eval(links, done, rest, fuel) ==
    IF rest = << >> \/ fuel = 0 THEN done \o rest
    ELSE LET p == Append(done, Head(rest)) IN
         IF IsLink(links, p) THEN Eval(links, << >>, TargetOf(links, p) \o Tail(rest), fuel - 1)
         ELSE Eval(links, p, Tail(rest), fuel)
Resolve(links, p) == Eval(links, << >>, p, 8)

RECURSIVE SetToSeqOf(_)
SetToSeqOf(S) == IF S = {} THEN << >> ELSE LET x == CHOOSE y \in S : TRUE IN <<[from |-> x[1], to |-> x[2]]>> \o SetToSeqOf(S \ {x})

TemplNameOf(gofile) == [gofile EXCEPT ![Len(gofile)] = "card.templ"]            \* x_templ.go -> x.templ

\* the file the generator writes
Writer(s) == IF WriterRule = "noresolve" THEN Clean(s.g, << >>) ELSE Resolve(s.links, Clean(s.g, << >>))
\* the file the running program reads
Reader(s) == LET b1 == Resolve(s.links, s.b)                                     \* WriteString: EvalSymlinks(path of the Go file)
                 t  == TemplNameOf(b1)
             IN  IF ReaderRule = "skipsecond" THEN t ELSE Resolve(s.links, t)     \* GetDevModeTextFileName: Abs + EvalSymlinks

Init == shape \in Shapes /\ lbl = [op |-> "init"]
Next == UNCHANGED shape /\ lbl' = [op |-> "case", name |-> shape.name, links |-> SetToSeqOf(shape.links), g |-> shape.g, b |-> shape.b,
                                   rel |-> shape.rel, file |-> Writer(shape)]
Spec == Init /\ [][Next]_vars

\* C16: the program in development mode finds the text file the generator wrote for it
WriterReaderAgree == Writer(shape) = Reader(shape)
\* and it is the file of the template the program was compiled from (not of some other template)
NameIsCanonical == Writer(shape) = Resolve(shape.links, Clean(shape.g, << >>))

View == vars
Emit == IF EmitCases THEN PrintT(<<"PATH", ToJson(lbl')>>) ELSE TRUE
=============================================================================
