------------------------------- MODULE JsonRpc -------------------------------
(* C18, second half -- calls on a jsonrpc2 conn are matched to their responses.

   The model follows lsp/jsonrpc2/conn.go, one action per critical section / blocking point:

     Call:    alloc   id = NewNumberID(atomic.AddInt32(&c.seq, 1))  -- ONE atomic step
              reg     pendingMu { pending[id] = rchan }                         (hook "reg")
              acq     writeMu.Lock                                              (hook "wbeg")
              refuse  stream.Write sees ctx.Done() and writes nothing
              whdr    stream.Write: header bytes reach the wire    \  two steps, so that the
              wbody   stream.Write: body bytes reach the wire      /  mutex matters
              rel     writeMu.Unlock                                            (hook "wend")
              recv    select: <-rchan            cancelled  select: <-ctx.Done()
              del     deferred: pendingMu { delete(pending, id) }               (hook "del")
     Notify:  acq, whdr, wbody, rel
     run:     take    stream.Read returned the next message of the peer; its id went through ID.UnmarshalJSON
              lookup  pendingMu { rchan, ok = pending[msg.id] }                 (hook "disp")
              send    rchan <- msg
              a call of the peer is answered synchronously by the handler with the id it carried:
              acq, whdr, wbody, rel as writer 0
     environment: cancel(c) at any time; the peer answers a call it has received completely at any later
              time, in any order, or never (reply), sends notifications (pnotify), calls with ids of its own
              choice (pcall) and responses nobody asked for (stray).

   IDS ARE TYPED VALUES.  A JSON-RPC id is a number or a string; the string "7" and the number 7 are
   different ids.  An id is [t |-> "num" | "str", v |-> its text, n |-> the integer that text denotes as a
   decimal int32 literal, or NoNum].  The conn draws its own ids from a counter (alloc); `pending` maps a
   typed id to the caller whose reply channel is registered under it.  The peer's vocabulary contains the
   confusable ids: strings whose text is the decimal text of a pending numeric id ("1", "01"), a number that
   equals one of the conn's own ids used as the id of a call of the PEER (the two id spaces are independent).
   DecId is ID.UnmarshalJSON: as coded a JSON string token stays a string id whatever its text.

   Every call carries its own marker in its payload (caller c: marker c) and the peer echoes the marker of
   the request it answers; result[c] is the marker of the response that Call returned, so a response that
   reached the wrong caller is visible as result[c] # c.

   Constants flip the model into plausible bugs: UseWriteMu = FALSE, ChanCap = 0, RegisterFirst = FALSE,
   AtomicAlloc = FALSE (AddInt32 and LoadInt32 as two steps), IdDecode = "unquote" (quoted numerals decode
   as numbers). *)
EXTENDS Integers, Sequences, FiniteSets, TLC, Json

CONSTANTS NC,            \* callers 1..NC
          NN,            \* notifiers 11..10+NN
          MaxPN, MaxPC,  \* notifications / calls the peer may send
          MaxStray,      \* responses nobody asked for
          UseWriteMu,    \* TRUE as coded
          ChanCap,       \* 1 as coded (buffered reply channel); 0 = unbuffered
          RegisterFirst, \* TRUE as coded: pending insert before the call is sent
          AtomicAlloc,   \* TRUE as coded: the id is the value returned by ONE atomic add
          IdDecode,      \* "strict" as coded | "unquote": a JSON string that looks like a number decodes as that number
          IdVocab,       \* "full" | "small": how many confusable ids the peer may choose from (bounds the state space only)
          KindShift,     \* which kind of result each response carries: the answer to marker m has kind KindAt(KindShift, m)
          NullResult     \* "ok" as coded: "result":null is a successful response | "rejected": DecodeMessage demands
                         \* "exactly one of result / error" and takes the null for an absent member -- stream.Read fails

Callers   == 1..NC
Notifiers == 11..(10 + NN)
Rd        == 0                      \* run's goroutine, as a writer of replies to the peer's calls
Writers   == Callers \cup Notifiers \cup {Rd}
None      == -1
CANCEL    == -1                     \* result values: a caller's marker = "the response to that caller's request"
WERR      == -2
NORES     == 0
STRAY     == 99                     \* marker of a response the peer sent without a request

-----------------------------------------------------------------------------
(* result kinds: a successful response carries a JSON value of any kind -- null is the answer to every void
   request (reply(ctx, nil, nil), LSP shutdown) --, an error response an error object with or without data.
   Which kind the answer to a request has is fixed per request (by its marker), so it adds no state. *)
ResKindSeq == <<"null", "object", "errdata", "array", "number", "true", "false", "string", "error">>
KindAt(s, m) == IF m = STRAY \/ m < 1 THEN "string" ELSE ResKindSeq[((m - 1 + s) % Len(ResKindSeq)) + 1]
ResKind(m) == KindAt(KindShift, m)
\* DecodeMessage on the response to marker m
Decodable(m) == ~(NullResult = "rejected" /\ ResKind(m) = "null")

-----------------------------------------------------------------------------
(* typed ids *)
NoNum == -1000
NumId(k)    == [t |-> "num", v |-> ToString(k), n |-> k]
StrId(s, k) == [t |-> "str", v |-> s, n |-> k]      \* k: what the text denotes as a decimal integer, or NoNum
NoId        == [t |-> "none", v |-> "", n |-> NoNum]

\* ID.UnmarshalJSON applied to the JSON token the sender wrote (number token for "num", string token for "str")
DecId(id) == IF id.t = "str" /\ IdDecode = "unquote" /\ id.n # NoNum THEN NumId(id.n) ELSE id

\* ids the peer may put on a response nobody asked for: the decimal text of every id the conn can have
\* pending, as a STRING; the same zero-padded; a number the conn never used; an ordinary string
StrayIdSeq == IF IdVocab = "small" THEN <<StrId("1", 1), NumId(1000)>>
              ELSE [k \in 1..NC |-> StrId(ToString(k), k)]
                   \o <<StrId("0" \o ToString(1), 1), NumId(1000), StrId("life", NoNum)>>
\* ids the peer may give its own calls: a number equal to the conn's first call id, numeric-looking
\* strings (also negative and zero-padded), an ordinary string
PeerCallIdSeq == IF IdVocab = "small" THEN <<NumId(1), StrId("1", 1)>>
                 ELSE <<NumId(1), StrId("1", 1), StrId("42", 42), StrId("007", 7), StrId("-1", 0 - 1), StrId("p1", NoNum)>>

VARIABLES pc,         \* [Writers -> control state]
          cancelled,  \* [Callers -> BOOLEAN]  the call's context has been cancelled
          werr,       \* [Callers -> BOOLEAN]  stream.Write refused (context already done)
          result,     \* [Callers -> NORES | CANCEL | WERR | marker of the response returned]
          seq,        \* conn.seq
          idOf,       \* [Callers -> number of the id the call drew, 0 = none yet]
          pending,    \* conn.pending: set of [id |-> typed id, c |-> caller whose channel is registered], one entry per id
          chan,       \* [Callers -> Seq(markers)] buffered content of the call's reply channel
          mu,         \* holder of writeMu or None
          open,       \* writer whose header is on the wire without its body, or None
          wireBad,    \* some frame was interleaved with another
          got,        \* calls the peer has received completely
          replied,    \* calls the peer has answered
          inq,        \* byte stream from the peer, as a queue of whole messages [t, id (as written), tok]
          rd,         \* run loop: [pc, wid (id as written), id (as decoded), tok, to]
          pn,         \* notifications sent by the peer so far
          strays,     \* stray responses sent by the peer so far
          pcallIds,   \* ids of the calls the peer has sent, in order
          pongs       \* ids carried by the responses the peer has received to its calls, in order

vars == <<pc, cancelled, werr, result, seq, idOf, pending, chan, mu, open, wireBad, got, replied, inq, rd, pn, strays, pcallIds, pongs>>

MyId(c) == NumId(idOf[c])
Msg(t, id, tok) == [t |-> t, id |-> id, tok |-> tok]
RdFailed == [pc |-> "failed", wid |-> NoId, id |-> NoId, tok |-> 0, to |-> 0]   \* stream.Read returned an error: run has called fail and returned
RdIdle == [pc |-> "read", wid |-> NoId, id |-> NoId, tok |-> 0, to |-> 0]
PendIds == {p.id : p \in pending}
Owner(id) == (CHOOSE p \in pending : p.id = id).c
\* a Go map assignment: an entry under the same key is replaced
Put(m, id, c) == {p \in m : p.id # id} \cup {[id |-> id, c |-> c]}

Init == /\ pc = [w \in Writers |-> "idle"]
        /\ cancelled = [c \in Callers |-> FALSE]
        /\ werr = [c \in Callers |-> FALSE]
        /\ result = [c \in Callers |-> NORES]
        /\ seq = 0 /\ idOf = [c \in Callers |-> 0]
        /\ pending = {}
        /\ chan = [c \in Callers |-> <<>>]
        /\ mu = None /\ open = None /\ wireBad = FALSE
        /\ got = {} /\ replied = {}
        /\ inq = <<>>
        /\ rd = RdIdle
        /\ pn = 0 /\ strays = 0 /\ pcallIds = <<>> /\ pongs = <<>>

-----------------------------------------------------------------------------
(* Call / Notify *)
\* as coded: the id is the value the atomic add returns -- increment and read are one step
Alloc(c) == /\ AtomicAlloc /\ c \in Callers /\ pc[c] = "idle"
            /\ seq' = seq + 1
            /\ idOf' = [idOf EXCEPT ![c] = seq + 1]
            /\ pc' = [pc EXCEPT ![c] = "new"]
            /\ UNCHANGED <<cancelled, werr, result, pending, chan, mu, open, wireBad, got, replied, inq, rd, pn, strays, pcallIds, pongs>>

\* only in the AtomicAlloc = FALSE bug model: atomic.AddInt32, then atomic.LoadInt32 of whatever the counter is by then
Incr(c) == /\ ~AtomicAlloc /\ c \in Callers /\ pc[c] = "idle"
           /\ seq' = seq + 1
           /\ pc' = [pc EXCEPT ![c] = "inc"]
           /\ UNCHANGED <<cancelled, werr, result, idOf, pending, chan, mu, open, wireBad, got, replied, inq, rd, pn, strays, pcallIds, pongs>>
Load(c) == /\ ~AtomicAlloc /\ c \in Callers /\ pc[c] = "inc"
           /\ idOf' = [idOf EXCEPT ![c] = seq]
           /\ pc' = [pc EXCEPT ![c] = "new"]
           /\ UNCHANGED <<cancelled, werr, result, seq, pending, chan, mu, open, wireBad, got, replied, inq, rd, pn, strays, pcallIds, pongs>>

Register(c) == /\ c \in Callers /\ pc[c] = "new"
               /\ pc' = [pc EXCEPT ![c] = "reg"]
               /\ pending' = IF RegisterFirst THEN Put(pending, MyId(c), c) ELSE pending
               /\ UNCHANGED <<cancelled, werr, result, seq, idOf, chan, mu, open, wireBad, got, replied, inq, rd, pn, strays, pcallIds, pongs>>

WantsToWrite(w) == \/ w \in Callers /\ pc[w] = "reg"
                   \/ w \in Notifiers /\ pc[w] = "idle"
                   \/ w = Rd /\ pc[w] = "want"

Acquire(w) == /\ WantsToWrite(w)
              /\ UseWriteMu => mu = None
              /\ mu' = IF UseWriteMu THEN w ELSE mu
              /\ pc' = [pc EXCEPT ![w] = "hdr"]
              /\ UNCHANGED <<cancelled, werr, result, seq, idOf, pending, chan, open, wireBad, got, replied, inq, rd, pn, strays, pcallIds, pongs>>

\* stream.Write checks the context once, before the first byte
Refuse(c) == /\ c \in Callers /\ pc[c] = "hdr" /\ cancelled[c]
             /\ pc' = [pc EXCEPT ![c] = "rel"]
             /\ werr' = [werr EXCEPT ![c] = TRUE]
             /\ UNCHANGED <<cancelled, result, seq, idOf, pending, chan, mu, open, wireBad, got, replied, inq, rd, pn, strays, pcallIds, pongs>>

WriteHdr(w) == /\ pc[w] = "hdr"
               /\ pc' = [pc EXCEPT ![w] = "body"]
               /\ wireBad' = (wireBad \/ open # None)
               /\ open' = w
               /\ UNCHANGED <<cancelled, werr, result, seq, idOf, pending, chan, mu, got, replied, inq, rd, pn, strays, pcallIds, pongs>>

\* the body of a call carries MyId(w) and the marker w; the body of the run loop's response carries the id
\* of the peer's call as the conn decoded it
WriteBody(w) == /\ pc[w] = "body"
                /\ pc' = [pc EXCEPT ![w] = "rel"]
                /\ wireBad' = (wireBad \/ open # w)
                /\ open' = IF open = w THEN None ELSE open
                /\ got' = IF w \in Callers THEN got \cup {w} ELSE got
                /\ pongs' = IF w = Rd THEN Append(pongs, rd.id) ELSE pongs
                /\ UNCHANGED <<cancelled, werr, result, seq, idOf, pending, chan, mu, replied, inq, rd, pn, strays, pcallIds>>

Release(w) == /\ pc[w] = "rel"
              /\ mu' = IF UseWriteMu THEN None ELSE mu
              /\ IF w \in Callers
                 THEN /\ pc' = [pc EXCEPT ![w] = IF werr[w] THEN "del" ELSE IF RegisterFirst THEN "wait" ELSE "late"]
                      /\ result' = IF werr[w] THEN [result EXCEPT ![w] = WERR] ELSE result
                      /\ rd' = rd
                 ELSE IF w \in Notifiers
                 THEN pc' = [pc EXCEPT ![w] = "done"] /\ UNCHANGED <<result, rd>>
                 ELSE pc' = [pc EXCEPT ![w] = "idle"] /\ rd' = RdIdle /\ UNCHANGED result
              /\ UNCHANGED <<cancelled, werr, seq, idOf, pending, chan, open, wireBad, got, replied, inq, pn, strays, pcallIds, pongs>>

\* only in the RegisterFirst = FALSE bug model: the pending insert happens after the call was sent
LateRegister(c) == /\ c \in Callers /\ pc[c] = "late"
                   /\ pc' = [pc EXCEPT ![c] = "wait"]
                   /\ pending' = Put(pending, MyId(c), c)
                   /\ UNCHANGED <<cancelled, werr, result, seq, idOf, chan, mu, open, wireBad, got, replied, inq, rd, pn, strays, pcallIds, pongs>>

RecvResp(c) == /\ c \in Callers /\ pc[c] = "wait" /\ chan[c] # <<>>
               /\ result' = [result EXCEPT ![c] = Head(chan[c])]
               /\ chan' = [chan EXCEPT ![c] = Tail(@)]
               /\ pc' = [pc EXCEPT ![c] = "del"]
               /\ UNCHANGED <<cancelled, werr, seq, idOf, pending, mu, open, wireBad, got, replied, inq, rd, pn, strays, pcallIds, pongs>>

Cancelled(c) == /\ c \in Callers /\ pc[c] = "wait" /\ cancelled[c]
                /\ result' = [result EXCEPT ![c] = CANCEL]
                /\ pc' = [pc EXCEPT ![c] = "del"]
                /\ UNCHANGED <<cancelled, werr, seq, idOf, pending, chan, mu, open, wireBad, got, replied, inq, rd, pn, strays, pcallIds, pongs>>

\* delete(c.pending, id): removes whatever is registered under the call's id
DeletePending(c) == /\ c \in Callers /\ pc[c] = "del"
                    /\ pending' = {p \in pending : p.id # MyId(c)}
                    /\ pc' = [pc EXCEPT ![c] = "done"]
                    /\ UNCHANGED <<cancelled, werr, result, seq, idOf, chan, mu, open, wireBad, got, replied, inq, rd, pn, strays, pcallIds, pongs>>

-----------------------------------------------------------------------------
(* run loop *)
\* ReaderTake/Lookup/Send are labelled with the marker of the message they concern
\* (a caller, 0: a notification or call of the peer, STRAY)
ReaderTake == /\ rd.pc = "read" /\ inq # <<>>
              /\ inq' = Tail(inq)
              /\ LET m == Head(inq) IN
                 CASE m.t = "resp" /\ ~Decodable(m.tok) -> rd' = RdFailed /\ pc' = pc    \* the connection is dead from here on
                   [] m.t = "resp"  -> rd' = [pc |-> "lookup", wid |-> m.id, id |-> DecId(m.id), tok |-> m.tok, to |-> 0] /\ pc' = pc
                   [] m.t = "notif" -> rd' = rd /\ pc' = pc
                   [] OTHER         -> rd' = [pc |-> "handle", wid |-> m.id, id |-> DecId(m.id), tok |-> 0, to |-> 0] /\ pc' = [pc EXCEPT ![Rd] = "want"]
              /\ UNCHANGED <<cancelled, werr, result, seq, idOf, pending, chan, mu, open, wireBad, got, replied, pn, strays, pcallIds, pongs>>

\* rchan, ok := c.pending[msg.id]: map lookup by the typed id
ReaderLookup == /\ rd.pc = "lookup"
                /\ rd' = IF rd.id \in PendIds THEN [rd EXCEPT !.pc = "send", !.to = Owner(rd.id)] ELSE RdIdle
                /\ UNCHANGED <<pc, cancelled, werr, result, seq, idOf, pending, chan, mu, open, wireBad, got, replied, inq, pn, strays, pcallIds, pongs>>

\* can the send on the reply channel complete now?
CanSend(c) == IF ChanCap >= 1 THEN Len(chan[c]) < ChanCap ELSE pc[c] = "wait"
ReaderSend == /\ rd.pc = "send" /\ CanSend(rd.to)
              /\ IF ChanCap >= 1
                 THEN /\ chan' = [chan EXCEPT ![rd.to] = Append(@, rd.tok)]
                      /\ UNCHANGED <<pc, result>>
                 ELSE /\ result' = [result EXCEPT ![rd.to] = rd.tok]          \* rendezvous with the waiting caller
                      /\ pc' = [pc EXCEPT ![rd.to] = "del"]
                      /\ chan' = chan
              /\ rd' = RdIdle
              /\ UNCHANGED <<cancelled, werr, seq, idOf, pending, mu, open, wireBad, got, replied, inq, pn, strays, pcallIds, pongs>>

-----------------------------------------------------------------------------
(* environment *)
Cancel(c) == /\ c \in Callers /\ ~cancelled[c] /\ pc[c] # "done"
             /\ cancelled' = [cancelled EXCEPT ![c] = TRUE]
             /\ UNCHANGED <<pc, werr, result, seq, idOf, pending, chan, mu, open, wireBad, got, replied, inq, rd, pn, strays, pcallIds, pongs>>

\* the response carries the id of the request as it was on the wire and echoes the request's marker
PeerReply(c) == /\ c \in got \ replied
                /\ replied' = replied \cup {c}
                /\ inq' = Append(inq, Msg("resp", MyId(c), c))
                /\ UNCHANGED <<pc, cancelled, werr, result, seq, idOf, pending, chan, mu, open, wireBad, got, rd, pn, strays, pcallIds, pongs>>

PeerNotify == /\ pn < MaxPN /\ pn' = pn + 1 /\ inq' = Append(inq, Msg("notif", NoId, 0))
              /\ UNCHANGED <<pc, cancelled, werr, result, seq, idOf, pending, chan, mu, open, wireBad, got, replied, rd, strays, pcallIds, pongs>>

PeerCall(k) == /\ Len(pcallIds) < MaxPC /\ k \in 1..Len(PeerCallIdSeq)
               /\ pcallIds' = Append(pcallIds, PeerCallIdSeq[k])
               /\ inq' = Append(inq, Msg("call", PeerCallIdSeq[k], 0))
               /\ UNCHANGED <<pc, cancelled, werr, result, seq, idOf, pending, chan, mu, open, wireBad, got, replied, rd, pn, strays, pongs>>

\* a response that answers no request of this conn
PeerStray(k) == /\ strays < MaxStray /\ k \in 1..Len(StrayIdSeq)
                /\ strays' = strays + 1
                /\ inq' = Append(inq, Msg("resp", StrayIdSeq[k], STRAY))
                /\ UNCHANGED <<pc, cancelled, werr, result, seq, idOf, pending, chan, mu, open, wireBad, got, replied, rd, pn, pcallIds, pongs>>

-----------------------------------------------------------------------------
(* labelled transition relation: Next, the simulation and the trace spec all go through Do *)
Lab(a, w) == [a |-> a, w |-> w]
Do(l) == CASE l.a = "alloc"     -> Alloc(l.w)
           [] l.a = "incr"      -> Incr(l.w)
           [] l.a = "load"      -> Load(l.w)
           [] l.a = "reg"       -> Register(l.w)
           [] l.a = "acq"       -> Acquire(l.w)
           [] l.a = "refuse"    -> Refuse(l.w)
           [] l.a = "whdr"      -> WriteHdr(l.w)
           [] l.a = "wbody"     -> WriteBody(l.w)
           [] l.a = "rel"       -> Release(l.w)
           [] l.a = "late"      -> LateRegister(l.w)
           [] l.a = "recv"      -> RecvResp(l.w)
           [] l.a = "cancelled" -> Cancelled(l.w)
           [] l.a = "del"       -> DeletePending(l.w)
           [] l.a = "take"      -> ReaderTake /\ l.w = Head(inq).tok
           [] l.a = "lookup"    -> ReaderLookup /\ l.w = rd.tok
           [] l.a = "send"      -> ReaderSend /\ l.w = rd.tok
           [] l.a = "cancel"    -> Cancel(l.w)
           [] l.a = "reply"     -> PeerReply(l.w)
           [] l.a = "pnotify"   -> PeerNotify
           [] l.a = "pcall"     -> PeerCall(l.w)
           [] l.a = "stray"     -> PeerStray(l.w)

CallerActs == {"alloc", "incr", "load", "reg", "refuse", "late", "recv", "cancelled", "del", "cancel", "reply"}
WriterActs == {"acq", "whdr", "wbody", "rel"}
Labels == {Lab(a, c) : a \in CallerActs, c \in Callers}
          \cup {Lab(a, w) : a \in WriterActs, w \in Writers}
          \cup {Lab(a, c) : a \in {"take", "lookup", "send"}, c \in Callers \cup {0, STRAY}}
          \cup {Lab("pnotify", 0)}
          \cup {Lab("pcall", k) : k \in 1..Len(PeerCallIdSeq)}
          \cup {Lab("stray", k) : k \in 1..Len(StrayIdSeq)}
EnvActs == {"cancel", "reply", "pnotify", "pcall", "stray"}

Next == \E l \in Labels : Do(l)

\* the conn's own steps are fair (Go's mutex does not starve a waiter: strong fairness for Acquire);
\* nothing is assumed about the environment; starting a call (alloc / incr) is the caller's choice
ConnLabels == {l \in Labels : l.a \notin EnvActs /\ l.a \notin {"alloc", "incr"}}
Fairness == /\ \A l \in {x \in ConnLabels : x.a # "acq"} : WF_vars(Do(l))
            /\ \A w \in Writers : SF_vars(Acquire(w))
Spec == Init /\ [][Next]_vars /\ Fairness

-----------------------------------------------------------------------------
(* properties *)
InFlight == {"reg", "hdr", "body", "rel", "late", "wait", "del"}
IsPrefix(a, b) == Len(a) <= Len(b) /\ SubSeq(b, 1, Len(a)) = a

TypeOK == /\ {p.c : p \in pending} \subseteq Callers /\ got \subseteq Callers /\ replied \subseteq got
          /\ mu \in Writers \cup {None} /\ open \in Writers \cup {None}
          /\ \A c \in Callers : result[c] \in Callers \cup {NORES, CANCEL, WERR, STRAY}
          /\ seq \in 0..(2 * NC) /\ \A c \in Callers : idOf[c] \in 0..seq

\* a call returns only the response to its own request (the one carrying its id), or its own cancellation
Matched == \A c \in Callers : pc[c] \in {"del", "done"} =>
               \/ result[c] = c
               \/ result[c] \in {CANCEL, WERR} /\ cancelled[c]

\* ... and it only returns a response the peer actually sent
NoInventedResponse == \A c \in Callers : result[c] = c => c \in replied

\* the ids drawn by the calls of one conn are pairwise distinct (in particular those pending together)
UniqueIds == \A c1, c2 \in Callers : (c1 # c2 /\ idOf[c1] # 0 /\ idOf[c2] # 0) => idOf[c1] # idOf[c2]
\* pending is a map: one entry per id, and the entry of an id belongs to the call that drew it
PendingIsMap == \A p, q \in pending : p.id = q.id => p = q
PendingOwned == \A p \in pending : p.id = MyId(p.c)

\* the id the run loop works with is the id the peer wrote, including its type
IdTypePreserved == rd.pc # "read" => rd.id = rd.wid
\* a response is handed only to the call whose id has the same type and value
DispatchedToOwner == rd.pc = "send" => (rd.tok = rd.to /\ rd.wid = MyId(rd.to))
\* the peer's calls are answered, in order, with exactly the ids they carried
PeerCallsEchoed == IsPrefix(pongs, pcallIds)

FramesNeverInterleave == ~wireBad

MutexOK == UseWriteMu => Cardinality({w \in Writers : pc[w] \in {"hdr", "body", "rel"}}) <= 1

\* the run loop is never stuck on a reply channel: whenever it is about to send, either the send can
\* complete at once or (unbuffered model) the caller is still on its way to the select
ReaderNeverBlocks == rd.pc = "send" =>
    \/ CanSend(rd.to)
    \/ ChanCap = 0 /\ pc[rd.to] \in {"reg", "hdr", "body", "rel", "late"}

\* the run loop survives every response the peer may send (each result kind, each error shape)
ReaderAlive == rd.pc # "failed"

\* pending holds exactly the calls in flight (as coded: registered before sending, removed on return)
PendingExact == RegisterFirst => {p.c : p \in pending} = {c \in Callers : pc[c] \in InFlight}
\* "registered before sending": no byte of a call is on the wire while its id is not in pending
RegisteredBeforeSending == \A c \in Callers : pc[c] \in {"body", "rel", "late"} => MyId(c) \in PendIds
PendingEmptyAtQuiescence == (\A c \in Callers : pc[c] \in {"idle", "done"}) => pending = {}

\* every call whose response arrives or whose context is cancelled returns
CallsReturn == \A c \in Callers : ((c \in replied \/ cancelled[c]) /\ pc[c] # "idle") ~> (pc[c] = "done")
=============================================================================
