package main

// Go port of the specification's consumer and acceptors for C05 (spec/CssTok.tla: CssStep, CssRawStep, CssHtmlEsc;
// spec/SinksCss.tla: the sanitiser acceptors with their labelled branches, Attribute; SinksCssCases.tla:
// ConsumerEvent). The consumer is ported operator by operator; the acceptors are written in direct form over
// the stored value (split / trim / prefix / suffix, as safehtml/style.go reads) instead of the spec's streaming
// NFA. Both are pinned to the spec by TLC: a seeded sample of (value, real output, port verdict) lines is
// re-judged by TraceSinksCss.tla and every disagreement is a machinery error.

import "strings"

const (
	cDQ  = "\""
	cBSL = "\\"
)

func inSet(c string, set ...string) bool {
	for _, s := range set {
		if c == s {
			return true
		}
	}
	return false
}

var cssLower = map[string]bool{}
var cssUpper = map[string]bool{"U": true, "R": true, "L": true, "S": true, "Z": true}

func init() {
	for _, c := range []string{"a", "e", "h", "i", "l", "m", "n", "o", "p", "r", "s", "t", "u", "y", "f", "z"} {
		cssLower[c] = true
	}
}

func cLower(c string) string {
	switch c {
	case "U", "R", "L", "S", "Z":
		return strings.ToLower(c)
	}
	return c
}
func cIsLetter(c string) bool { return cssLower[c] || cssUpper[c] }
func cIsHex(c string) bool    { return inSet(c, "0", "a", "e", "f") }
func cIsIdent(c string) bool  { return cIsLetter(c) || inSet(c, "0", "-", "_", "NA", "UWS") }
func cIsWs(c string) bool     { return inSet(c, "SP", "TAB", "LF", "CR", "FF") }
func cIsNl(c string) bool     { return inSet(c, "LF", "CR", "FF") }

// ---- URL scheme as the browser sees it (SchStep) ---------------------------------------------------------------

var schemeNames = []string{"http", "https", "mailto"}

func schIsPrefix(p string) bool {
	for _, n := range schemeNames {
		if strings.HasPrefix(n, p) {
			return true
		}
	}
	return false
}
func schIsName(p string) bool { return p == "http" || p == "https" || p == "mailto" }

// scheme states: "#off" "#lead" "#other" "#done" "#BAD" or a prefix of an allowed name
func schStep(s, c0 string) string {
	c := cLower(c0)
	if s == "#off" || s == "#done" || s == "#BAD" {
		return s
	}
	if inSet(c, "TAB", "LF", "CR") {
		return s
	}
	if s == "#lead" {
		if inSet(c, "SP", "CTL", "VT", "FF") {
			return "#lead"
		}
		if cIsLetter(c) {
			if schIsPrefix(c) {
				return c
			}
			return "#other"
		}
		return "#done"
	}
	if c == ":" {
		if schIsName(s) {
			return "#done"
		}
		return "#BAD"
	}
	if cIsLetter(c) || inSet(c, "0", "+", "-", ".") {
		if s != "#other" && schIsPrefix(s+c) {
			return s + c
		}
		return "#other"
	}
	return "#done"
}

// ---- CssStep --------------------------------------------------------------------------------------------------------

const maxDepth = 3

type cssState struct {
	m, q string
	e    int
	st   []string
	id   string
	sl   bool
	sc   string
	ev   string
}

func cssInit() cssState { return cssState{m: "val", q: "-", sc: "#off"} }

func (s *cssState) event(name string) {
	if s.ev == "" {
		s.ev = name
	}
}
func (s *cssState) push(b string) {
	if len(s.st) >= maxDepth {
		s.event("TooDeep")
		return
	}
	s.st = append(append([]string{}, s.st...), b)
}
func (s *cssState) pop() { s.st = append([]string{}, s.st[:len(s.st)-1]...) }
func (s *cssState) top() string {
	if len(s.st) == 0 {
		return "-"
	}
	return s.st[len(s.st)-1]
}
func (s *cssState) inURL() bool { return s.top() == "u(" }
func (s *cssState) schFeed(c string) {
	n := schStep(s.sc, c)
	if n == "#BAD" {
		s.sc = "#done"
		s.event("ForeignScheme")
		return
	}
	s.sc = n
}

func idStep(id, c string) string {
	l := cLower(c)
	switch {
	case id == "" && l == "u":
		return "u"
	case id == "u" && l == "r":
		return "ur"
	case id == "ur" && l == "l":
		return "url"
	}
	return "x"
}

func cssStep(s cssState, c string) cssState {
	if s.e == -1 {
		if cIsNl(c) {
			switch s.m {
			case "str":
				s.e = 0
				return s
			case "url":
				s.e = 0
				s.m = "badurl"
				s.event("BadUrl")
				return s
			}
			s.e = 0
			return cssStep(s, c)
		}
		if cIsHex(c) {
			s.e = 1
		} else {
			s.e = 0
		}
		return s
	}
	if s.e >= 1 {
		if cIsHex(c) && s.e < 6 {
			s.e++
			return s
		}
		s.e = 0
		if cIsWs(c) {
			return s
		}
		return cssStep(s, c)
	}
	switch s.m {
	case "cmt":
		if c == "*" {
			s.m = "cmtstar"
		}
		return s
	case "cmtstar":
		if c == "/" {
			s.m = "val"
		} else if c != "*" {
			s.m = "cmt"
		}
		return s
	case "str":
		switch {
		case c == s.q:
			s.m, s.q, s.sc = "val", "-", "#off"
		case cIsNl(c):
			s.m, s.q, s.sc = "val", "-", "#off"
			s.event("BadString")
		case c == cBSL:
			if s.inURL() {
				s.schFeed("z")
			}
			s.e = -1
		default:
			if s.inURL() {
				s.schFeed(c)
			}
		}
		return s
	case "urlstart":
		switch {
		case cIsWs(c):
		case c == cDQ || c == "'":
			s.m, s.q, s.sc = "str", c, "#lead"
		case c == ")":
			s.pop()
			s.m, s.sc = "val", "#off"
		default:
			s.m, s.sc = "url", "#lead"
			return cssStep(s, c)
		}
		return s
	case "url":
		switch {
		case c == ")":
			s.pop()
			s.m, s.sc = "val", "#off"
		case cIsWs(c):
			s.m = "urlws"
		case inSet(c, cDQ, "'", "(", "CTL", "VT"):
			s.m = "badurl"
			s.event("BadUrl")
		case c == cBSL:
			s.schFeed("z")
			s.e = -1
		default:
			s.schFeed(c)
		}
		return s
	case "urlws":
		switch {
		case cIsWs(c):
		case c == ")":
			s.pop()
			s.m, s.sc = "val", "#off"
		default:
			s.m = "badurl"
			s.event("BadUrl")
		}
		return s
	case "badurl":
		if c == ")" {
			s.pop()
			s.m, s.sc = "val", "#off"
		} else if c == cBSL {
			s.e = -1
		}
		return s
	}
	// "val"
	if s.sl && c == "*" {
		s.m, s.sl, s.id = "cmt", false, ""
		s.event("Comment")
		return s
	}
	s.sl = false
	if cIsIdent(c) {
		s.id = idStep(s.id, c)
		return s
	}
	if c == cBSL {
		s.e, s.id = -1, "x"
		return s
	}
	if c == "(" {
		switch {
		case s.id == "url":
			s.push("u(")
			s.m, s.id = "urlstart", ""
		case s.id != "":
			s.event("ForeignFunction")
			s.push("(")
			s.id = ""
		default:
			s.push("(")
		}
		return s
	}
	s.id = ""
	switch c {
	case "/":
		s.sl = true
	case cDQ, "'":
		s.m, s.q = "str", c
	case "[":
		s.push("[")
	case "{":
		if len(s.st) == 0 {
			s.event("BlockOpen")
		}
		s.push("{")
	case ")":
		if s.top() == "(" || s.top() == "u(" {
			s.pop()
		}
	case "]":
		if s.top() == "[" {
			s.pop()
		}
	case "}":
		if len(s.st) == 0 {
			s.event("RuleEnd")
		} else if s.top() == "{" {
			s.pop()
		}
	case ";":
		if len(s.st) == 0 {
			s.event("TopSemicolon")
		}
	}
	return s
}

func cssEndEvent(s cssState) string {
	if s.ev != "" {
		return s.ev
	}
	if !(s.m == "val" && len(s.st) == 0 && s.e != -1) {
		return "NotAtTopAtEnd"
	}
	return ""
}

var styleEndTag = []string{"<", "/", "s", "t", "y", "l", "e"}

func rawStep(q []string, c string) []string {
	if len(q) == 1 && q[0] == "END" {
		return q
	}
	n := append(append([]string{}, q...), cLower(c))
	if len(n) <= len(styleEndTag) {
		ok := true
		for i := range n {
			if n[i] != styleEndTag[i] {
				ok = false
			}
		}
		if ok {
			if len(n) == len(styleEndTag) {
				return []string{"END"}
			}
			return n
		}
	}
	if c == "<" {
		return []string{"<"}
	}
	return nil
}

// consumerEvent = SinksCssCases!ConsumerEvent
func consumerEvent(cls, ctx string, css []string) string {
	s := cssInit()
	var raw []string
	for _, c := range css {
		s = cssStep(s, c)
		if cls == "Name" && !cIsIdent(c) {
			s.event("NameNotIdent")
		}
		if ctx == "style" {
			raw = rawStep(raw, c)
		}
	}
	if s.ev != "" {
		return s.ev
	}
	if len(raw) == 1 && raw[0] == "END" {
		return "EndStyle"
	}
	return cssEndEvent(s)
}

func cssHTMLEsc(c string) []string {
	switch c {
	case "<":
		return []string{"&", "l", "t", ";"}
	case ">":
		return []string{"&", "z", "t", ";"}
	case "&":
		return []string{"&", "a", "m", "p", ";"}
	case "'", cDQ:
		return []string{"&", "#", "0", "0", ";"}
	}
	return []string{c}
}

// ---- acceptors (direct form), as coded at the pin ----------------------------------------------------------------------

func isWsGo(c string) bool { return cIsWs(c) || c == "UWS" || c == "VT" }

// model variants (SinksCss.tla constants FontFix / BgFix): FALSE = as coded at the pin, TRUE = the proposed repairs.
// The check selects them by probing the real sanitisers, so that the model the real code is compared with is
// the one it conforms to.
var fontFix, bgFix bool

func trimCSS(s []string) []string {
	for len(s) > 0 && cIsWs(s[0]) {
		s = s[1:]
	}
	for len(s) > 0 && cIsWs(s[len(s)-1]) {
		s = s[:len(s)-1]
	}
	return s
}

func containsAny(s []string, set ...string) bool {
	for _, c := range s {
		if inSet(c, set...) {
			return true
		}
	}
	return false
}

func trimSyms(s []string) []string {
	for len(s) > 0 && isWsGo(s[0]) {
		s = s[1:]
	}
	for len(s) > 0 && isWsGo(s[len(s)-1]) {
		s = s[:len(s)-1]
	}
	return s
}

func splitComma(s []string) [][]string {
	out := [][]string{{}}
	for _, c := range s {
		if c == "," {
			out = append(out, []string{})
		} else {
			out[len(out)-1] = append(out[len(out)-1], c)
		}
	}
	return out
}

func regSafe(c string) bool {
	return cIsLetter(c) || inSet(c, "0", "+", ",", "-", ".", "!", "#", "PCT", "_", "SP", "TAB")
}

// urlVerdict = fold of SinksCss!UrlStep: "safe" | "unsafe" ("unk" counts as safe, like the model)
func urlStep(a, c0 string) string {
	c := cLower(c0)
	if a == "#rej" {
		return a
	}
	if inSet(c, "CTL", "VT", "TAB", "LF", "CR", "FF") {
		return "#rej"
	}
	if a == "#unk" || c == "PCT" {
		return "#unk"
	}
	switch a {
	case "#start":
		switch {
		case cIsLetter(c):
			if schIsPrefix(c) {
				return c
			}
			return "#schother"
		case c == ":":
			return "#rej"
		case c == "/":
			return "#slash1"
		case c == "?" || c == "#":
			return "#free"
		}
		return "#nosch1"
	case "#slash1":
		if c == "/" {
			return "#unk"
		}
		return "#free"
	case "#nosch1":
		if c == ":" {
			return "#rej"
		}
		if inSet(c, "/", "?", "#") {
			return "#free"
		}
		return "#nosch1"
	case "#free", "#okabs":
		return a
	case "#okabs0":
		if c == "/" {
			return "#okabs1"
		}
		return "#okabs"
	case "#okabs1":
		if c == "/" {
			return "#unk"
		}
		return "#okabs"
	}
	// scheme candidate
	if c == ":" {
		if schIsName(a) {
			return "#okabs0"
		}
		return "#rej"
	}
	if cIsLetter(c) || inSet(c, "0", "+", "-", ".") {
		if a != "#schother" && schIsPrefix(a+c) {
			return a + c
		}
		return "#schother"
	}
	if inSet(c, "/", "?", "#") {
		return "#free"
	}
	return "#nosch1"
}

func urlOK(inner []string) (ok bool, unknown bool) {
	a := "#start"
	for _, c := range inner {
		a = urlStep(a, c)
	}
	return a != "#rej", a == "#unk"
}

func hasPrefix(s []string, p ...string) bool {
	if len(s) < len(p) {
		return false
	}
	for i := range p {
		if s[i] != p[i] {
			return false
		}
	}
	return true
}
func hasSuffix(s []string, p ...string) bool {
	if len(s) < len(p) {
		return false
	}
	return hasPrefix(s[len(s)-len(p):], p...)
}

type accResult struct {
	branch  string   // accept branch of the last segment ("" = rejected)
	used    []string // branches of all segments
	unknown bool     // the model does not decide net/url's verdict (treated as accepted)
}

// modelAccept = the specification's acceptor for the class, in direct form.
func modelAccept(cls string, v []string) accResult {
	switch cls {
	case "Regular":
		st := "s0"
		for _, c := range v {
			switch {
			case regSafe(c):
				st = "s0"
			case (c == "*" || c == "/") && st == "s0":
				st = "s1"
			default:
				return accResult{}
			}
		}
		return accResult{branch: "Regular.Match", used: []string{"Regular.Match"}}
	case "Enum":
		for _, c := range v {
			if !(cIsLetter(c) || c == "-") {
				return accResult{}
			}
		}
		return accResult{branch: "Enum.Match", used: []string{"Enum.Match"}}
	case "Name":
		if len(v) == 0 {
			return accResult{}
		}
		for _, c := range v {
			if !(cIsLetter(c) || c == "-") {
				return accResult{}
			}
		}
		return accResult{branch: "Name.Match", used: []string{"Name.Match"}}
	case "FontFamily":
		var r accResult
		for _, seg := range splitComma(v) {
			f := trimSyms(seg)
			b := ""
			if hasPrefix(f, cDQ) {
				if hasSuffix(f, cDQ) {
					b = "FontFamily.QuotedSegment"
				}
				if fontFix && (len(f) < 2 || containsAny(f[1:len(f)-1], cDQ, cBSL, "<", "CTL", "VT", "TAB", "LF", "CR", "FF")) {
					b = ""
				}
			} else if len(f) >= 2 && cIsLetter(f[0]) {
				b = "FontFamily.GenericName"
				for _, c := range f[1:] {
					if !(cIsLetter(c) || c == "-" || c == "SP") {
						b = ""
					}
				}
			}
			if b == "" {
				return accResult{}
			}
			r.branch = b
			r.used = append(r.used, b)
		}
		return r
	case "BackgroundImage":
		for _, c := range v {
			if c == "<" || c == ">" {
				return accResult{}
			}
		}
		var r accResult
		for _, seg := range splitComma(v) {
			u := trimSyms(seg)
			if bgFix {
				u = trimCSS(seg)
			}
			b := ""
			var inner []string
			switch {
			case hasPrefix(u, "u", "r", "l", "(", cDQ) && hasSuffix(u, cDQ, ")"):
				b, inner = "BackgroundImage.UrlDQ", u[5:]
				if hasSuffix(inner, cDQ, ")") {
					inner = inner[:len(inner)-2]
				}
			case hasPrefix(u, "u", "r", "l", "(", "'") && hasSuffix(u, "'", ")"):
				b, inner = "BackgroundImage.UrlSQ", u[5:]
				if hasSuffix(inner, "'", ")") {
					inner = inner[:len(inner)-2]
				}
			case hasPrefix(u, "u", "r", "l", "(") && hasSuffix(u, ")"):
				b, inner = "BackgroundImage.UrlBare", u[4:]
				if hasSuffix(inner, ")") {
					inner = inner[:len(inner)-1]
				}
			}
			if bgFix && b != "" {
				switch {
				case b == "BackgroundImage.UrlDQ" && (len(u) < 7 || containsAny(inner, cDQ, cBSL, "CTL", "VT", "LF", "CR", "FF")):
					b = ""
				case b == "BackgroundImage.UrlSQ" && (len(u) < 7 || containsAny(inner, "'", cBSL, "CTL", "VT", "LF", "CR", "FF")):
					b = ""
				case b == "BackgroundImage.UrlBare" && containsAny(inner, "SP", "TAB", "LF", "CR", "FF", cDQ, "'", "(", ")", cBSL, "CTL", "VT", "UWS"):
					b = ""
				}
			}
			if b == "" {
				return accResult{}
			}
			ok, unk := urlOK(inner)
			if !ok {
				return accResult{}
			}
			r.unknown = r.unknown || unk
			r.branch = b
			r.used = append(r.used, b)
		}
		return r
	}
	panic("unknown class " + cls)
}

var branchPriority = []string{"FontFamily.QuotedSegment", "BackgroundImage.UrlDQ", "BackgroundImage.UrlSQ", "BackgroundImage.UrlBare"}

func attribute(r accResult) string {
	for _, p := range branchPriority {
		for _, u := range r.used {
			if u == p {
				return p
			}
		}
	}
	return r.branch
}
