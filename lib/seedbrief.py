#!/usr/bin/env python3
"""usage: lib/seedbrief.py <round-tag> <outdir>   -- writes one brief per property group for fresh seed agents.
A brief contains only the property texts and the titles of changes earlier rounds produced (so that the new ones differ);
nothing about the checks."""
import json, glob, os, sys
tag, outdir = sys.argv[1], sys.argv[2]
here = os.path.dirname(os.path.dirname(os.path.abspath(__file__)))
groups = {'A': ['C01', 'C04'], 'B': ['C03', 'C05'], 'C': ['C06', 'C07'], 'D': ['C10', 'C14'], 'E': ['C11', 'C12', 'C13'],
          'F': ['C15', 'C16'], 'G': ['C18', 'C17'], 'H': ['C19', 'C20']}
titles = {}
for f in sorted(glob.glob(os.path.join(here, 'seeded/C*/meta.json'))):
    m = json.load(open(f)); titles.setdefault(m['property'], []).append(m['title'])
props = {}
for l in open(os.path.join(here, 'properties.jsonl')):
    d = json.loads(l); props[d['id']] = d
os.makedirs(outdir, exist_ok=True)
for g, ids in groups.items():
    wt = '/tmp/%s-wt-%s' % (tag, g); out = '/tmp/%s-out-%s' % (tag, g)
    t = []
    t.append("You are a software engineer working on the Go project a-h/templ (an HTML templating language for Go: parser, Go code generator, formatter, runtime, `templ generate` command with watch mode and live-reload proxy, LSP proxy). The repository is at /repo (do NOT edit /repo itself, and do not read or use anything under /verif - it is off limits for this task). Create your own scratch git worktree: `git -C /repo worktree add --detach %s HEAD` and work only there. Offline sandbox: every shell call needs `export GOFLAGS=-mod=mod GOPROXY=off GOSUMDB=off GOTOOLCHAIN=local`. If `go test` modifies go.sum in the worktree, ignore/revert that. Files named verifhook_*.go and calls to verif* functions are inert instrumentation stubs compiled out by default; leave them alone.\n" % wt)
    t.append("Below are %d semantic properties of templ. For EACH property produce ONE realistic regression: a small, plausible change to non-test source code that (a) still compiles, (b) still passes the repository's existing tests unedited (`go test ./...` in the worktree root - run at least the packages you touch and their dependants; generator/test-* packages compile CHECKED-IN *_templ.go files and so do not notice generator changes; cmd/templ/lspcmd fails without gopls with or without your change - ignore it), (c) BREAKS the property, and (d) needs something specific to manifest - NOT something any ordinary use would expose at once. Think of what a hurried refactoring, an optimisation, a 'simplification' or a well-meant hardening could plausibly get wrong.\n" % len(ids))
    for i in ids:
        p = props[i]
        t.append("## Property %s: %s\n%s\nQuantified over: %s\nAnchored in: %s\n" % (i, p['title'], p['statement'], p['quantifier']['text'], ', '.join(p['anchors']['files'])))
        t.append("Earlier rounds already produced these changes for %s - do something DIFFERENT in mechanism and in the code touched:\n%s\n" % (i, '\n'.join('  - ' + x for x in titles.get(i, []))))
    t.append("For each change deliver, under %s/<property-id>/: `patch.diff` (git diff against the worktree HEAD; must apply with `git apply`), a demonstration that FAILS with the change and PASSES without it (a `demo_test.go` to be copied into a named package directory of the worktree, or a `demo/` directory; if generated code is involved use the worktree's own CLI: `go build -o %s/templ-cli ./cmd/templ` and `templ-cli generate`), and `notes.md` (what the change is, why existing tests still pass, what exactly is needed to see the breakage, and the EXACT commands to run the demo: where to copy it, the `go test -run ...` line). Verify all of it yourself: apply patch -> existing tests pass and demo fails; revert -> demo passes. Keep each patch small. When done remove the worktree (`git -C /repo worktree remove --force %s`). Final message: a short table of the changes and the file paths. If you notice inputs for which the UNPATCHED tree already violates one of the properties, list them at the end with the concrete input." % (out, wt, wt))
    open(os.path.join(outdir, g + '.md'), 'w').write('\n'.join(t))
print("briefs in", outdir)
