\* C05 negative: background-image without the '<>' guard must violate OneDeclaration (</style)
CONSTANTS
  Classes <- ClassesDef
  Contexts <- ContextsDef
  Alphabet <- FullAlphabet
  RegularExtra <- NoExtra
  AngleGuard = FALSE
  FontFix = TRUE
  BgFix = TRUE
  TrackAttribution = FALSE
  AttrEscapes = 1
  KvSafeProp = "unsupported"
  EmitEdges = FALSE
INIT Init
NEXT Next
VIEW View

INVARIANTS TypeOK OneDeclaration InnocuousOnReject
CHECK_DEADLOCK FALSE
