\* C15 negative config: the walker does not skip underscore-prefixed directories: NothingElseTouched must be violated.
CONSTANTS
  MaxFiles = 2
  Trees <- TreesForest
  Ws = {1}
  FlagSets <- AllFlags
  Mutex = TRUE
  ErrsCloser = "postgen"
  MainReadsErrs = TRUE
  SkipRule = "nounderscore"
  TwoRuns = FALSE
  EmitCases = FALSE
INIT Init
NEXT Next
VIEW View
INVARIANTS TypeOK SiblingEqualsSoloGeneration OrphansGoneUnlessKept NothingElseTouched ExitStatusIffSomeFileFailed FailureIsolated SecondRunChangesNothing AtMostWWorkers EachEventOnce NoPanic NoDataRace WaitGroupOK
