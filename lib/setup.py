#!/usr/bin/env python3
"""setup_cmd: parse every TLA+ module with SANY and vet the Go harness against the repository."""
import json, os, subprocess, sys, shutil, tempfile
sys.path.insert(0, os.path.dirname(os.path.abspath(__file__)))
import vlib

def main():
    claimed = json.load(open(os.path.join(vlib.VERIF, "lib", "claimed.json")))
    wd = os.path.join(vlib.scratch(), "sany")
    os.makedirs(wd)
    mods = []
    for f in sorted(os.listdir(vlib.SPEC)):
        if f.endswith(".tla") or f.endswith(".cfg"):
            shutil.copy(os.path.join(vlib.SPEC, f), wd)
        if f.endswith(".tla") and f[:-4] in claimed["modules"]:
            mods.append(f)
    bad = 0
    for m in mods:
        p = subprocess.run(["java", "-cp", vlib.TLA_CP, "tla2sany.SANY", m], cwd=wd, stdout=subprocess.PIPE,
                           stderr=subprocess.STDOUT, timeout=300)
        out = p.stdout.decode(errors="replace")
        if p.returncode != 0 or "Semantic errors" in out or "Parse Error" in out or "Fatal" in out:
            # trace specs read a trace file at parse time only via TLC operators, so SANY is enough
            sys.stderr.write("SANY failed on %s:\n%s\n" % (m, out[-2000:]))
            bad += 1
    if bad:
        sys.exit(1)
    print("sany: %d modules ok" % len(mods))
    d = vlib.harness_dir()
    pkgs = [x for x in claimed["pkgs"] if os.path.isdir(os.path.join(d, x)) and
            not os.path.exists(os.path.join(d, x, ".needs-generate"))]
    for p in pkgs:
        vlib.run(["go", "vet", "-tags", "verif", "./" + p], cwd=d)
    print("harness: %d packages vet ok" % len(pkgs))

vlib.main(main)
