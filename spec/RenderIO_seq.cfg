\* C10 MC+GEN: sequences of 3 renders (fail, fail, succeed) sharing the pool; Get returns any pooled object or a new one.
CONSTANTS
  Caps = {2}
  ProgSet <- AllProgs
  MaxOps = 2
  MaxDepth = 2
  LitSizes = {3}
  ExprSizes = {1}
  XKinds = {}
  HandKinds = {1}
  SideKs = {0, 1, 3}
  LeafSizes = {2}
  Runs = 3
  Modes <- AllModes
  Pairs = FALSE
  SWs <- BothSW
  SameWriter = FALSE
  PoolAny = TRUE
  Bug = "none"
  Emit = FALSE
INIT Init
NEXT Next
VIEW View
INVARIANTS TypeOK Prefix NilMeansComplete FaultMeansError LaterRendersUnaffected NoCarryOver OneOwnerFlushes FailStop PrintCase
CHECK_DEADLOCK FALSE
