\* C18 conn: NEGATIVE: quoted numerals decode as numbers, consequence -- must violate Matched (call #1 returns a response nobody sent to it).
CONSTANTS
  NC = 1
  NN = 0
  MaxPN = 0
  MaxPC = 0
  MaxStray = 1
  UseWriteMu = TRUE
  ChanCap = 1
  RegisterFirst = TRUE
  AtomicAlloc = TRUE
  IdDecode = "unquote"
  IdVocab = "full"
  KindShift = 0
  NullResult = "ok"
INIT Init
NEXT Next
INVARIANTS TypeOK Matched
CHECK_DEADLOCK FALSE
