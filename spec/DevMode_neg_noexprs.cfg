\* C16 negative config 2: HasChanged without the expression list must violate NoRebuildMeansFaithful.
CONSTANTS
  MaxItems = 2
  Choices <- ChoicesFull
  ChangeRule = "noexprs"
  TextHashRule = "joined"
  MaxEdits = 3
  EmitEdges = FALSE
INIT Init
NEXT Next
VIEW View
INVARIANTS TypeOK TextFileCurrent NoRebuildMeansFaithful DevEqualsNormal RenderNeverFails
CHECK_DEADLOCK FALSE
