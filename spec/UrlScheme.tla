----------------------------- MODULE UrlScheme -----------------------------
(* The part of the WHATWG URL parser (https://url.spec.whatwg.org/#concept-basic-url-parser) that decides
   which scheme a browser resolves a string with, as a pure per-symbol step function over Chars.tla.

     1. leading (and trailing) C0 control or space are removed            -> phase "lead"
     2. ASCII tab and newline (TAB, LF, CR) are removed ANYWHERE          -> skipped in every phase
     3. scheme start state: ASCII alpha -> scheme state; anything else -> no scheme
     4. scheme state: ASCII alphanumeric, "+", "-", "." appended (lower-cased); ":" ends the scheme;
        anything else -> no scheme (the string is then parsed against the document's base URL:
        a relative reference)
   Trailing C0/space stripping cannot change the scheme decision and is not modelled.

   INTERFACE
     UrlInit                 start state
     UrlStep(u, c)           next state (exact scheme buffer; for trace validation of concrete strings)
     UrlStepK(u, c, Known)   next state for CLOSED automata: the scheme buffer is kept only while it is a
                             prefix of a scheme in Known, every other buffer collapses to OtherScheme, so the
                             state space is finite and small; SchemeOf then yields a member of Known or OtherScheme
     SchemeOf(u)             <<>> if (so far / at end of input) the browser sees NO scheme (relative
                             reference), else the scheme as a lower-case symbol sequence
                             (capped: a scheme longer than SchemeCap is LongScheme)
   State: ph in {"lead", "scheme", "none", "done"}, sch the scheme buffer.                            *)
EXTENDS Chars

SchemeCap  == 10
LongScheme == <<-1>>

UrlInit == [ph |-> "lead", sch |-> <<>>]
IsTabOrNewline(c) == c \in {cTAB, cLF, cCR}
IsSchemeChar(c) == IsAlnum(c) \/ c \in {cPLUS, cDASH, cDOT}
AppendScheme(s, c) == IF s = LongScheme \/ s = <<-1>> THEN s ELSE IF Len(s) >= SchemeCap THEN LongScheme ELSE Append(s, Lower(c))

UrlStart(u, c) ==
    IF IsAlpha(c) THEN [ph |-> "scheme", sch |-> <<Lower(c)>>]
    ELSE [ph |-> "none", sch |-> <<>>]

UrlStep(u, c) ==
    IF u.ph \in {"none", "done"} THEN u
    ELSE IF IsTabOrNewline(c) THEN u
    ELSE IF u.ph = "lead" THEN (IF IsC0OrSpace(c) THEN u ELSE UrlStart(u, c))
    ELSE \* "scheme"
         IF IsSchemeChar(c) THEN [u EXCEPT !.sch = AppendScheme(u.sch, c)]
         ELSE IF c = cCOLON THEN [u EXCEPT !.ph = "done"]
         ELSE [ph |-> "none", sch |-> <<>>]

OtherScheme == <<-1>>
PrefixesOf(Known) == UNION { { SubSeq(s, 1, k) : k \in 0..Len(s) } : s \in Known }
UrlStepK(u, c, Known) ==
    LET v == UrlStep(u, c) IN
    IF v.ph \in {"scheme", "done"} /\ v.sch \notin PrefixesOf(Known) THEN [v EXCEPT !.sch = OtherScheme]
    ELSE v

SchemeOf(u) == IF u.ph = "done" THEN u.sch ELSE <<>>

RECURSIVE UrlRun(_, _, _)
UrlRun(u, cs, i) == IF i > Len(cs) THEN u ELSE UrlRun(UrlStep(u, cs[i]), cs, i + 1)
=============================================================================
