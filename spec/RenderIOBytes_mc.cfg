\* C10 bytes.Buffer pool (templ.GetBuffer): MC with Get returning any pooled object or a new one (PoolAny = TRUE);
\* GEN with PoolAny = FALSE and Emit = TRUE: every terminal behaviour printed for the replay on ToGoHTML / templ.Handler.
CONSTANTS
  Entries = {"gohtml", "handler"}
  Kinds = {"func", "templ"}
  DocLens = {2}
  Runs = 3
  PoolAny = TRUE
  Bug = "none"
  Emit = FALSE
INIT Init
NEXT Next
VIEW View
INVARIANTS TypeOK NoCarryOver PooledBuffersAreEmpty Exact OneHolder PrintCase
CHECK_DEADLOCK FALSE
