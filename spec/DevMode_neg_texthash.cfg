\* C16 negative config 3: the text-file hash over the plain concatenation of the literals must violate NoRebuildMeansFaithful
\* (an edit that moves static text across an expression leaves the text file stale).
CONSTANTS
  MaxItems = 4
  Choices <- ChoicesText
  ChangeRule = "codehash"
  TextHashRule = "concat"
  MaxEdits = 3
  EmitEdges = FALSE
INIT Init
NEXT Next
VIEW View
INVARIANTS TypeOK NoRebuildMeansFaithful DevEqualsNormal RenderNeverFails
CHECK_DEADLOCK FALSE
