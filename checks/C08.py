import os, sys
sys.path.insert(0, os.path.dirname(os.path.abspath(__file__)))
sys.path.insert(0, os.path.join(os.path.dirname(os.path.abspath(__file__)), "..", "lib"))
import vlib, fmtcheck
vlib.main(lambda: fmtcheck.run("C08"))
