package main

import (
	"context"
	"encoding/json"
	"fmt"
	"math/rand"
	"net/http"
	"net/http/httptest"
	"net/url"
	"os"
	"runtime"
	"strconv"
	"strings"
	"sync"
	"sync/atomic"
	"time"

	"github.com/a-h/templ/cmd/templ/generatecmd/proxy"
)

// Seeded stress of the real handler with every step logged (VAL): clients connect, stall, cancel and
// broadcasts are issued back to back, all concurrently, the Go scheduler decides the interleaving (plus
// seeded yields inside the delivery goroutines through the hook). Each log line is one action of
// spec/Sse.tla; TraceSse.tla replays the log and rejects anything that is not a behaviour of the spec.
//
// Log order = order of acquisition of tlog.mu. An action is logged BEFORE it takes effect when it only
// enables things (cancel, the hook points, write results) -- see the comments in TraceSse.tla.

type tline struct {
	Ep      int      `json:"ep"`
	E       string   `json:"e"`
	C       string   `json:"c"`
	B       int      `json:"b"`
	Ok      bool     `json:"ok"`
	Stay    bool     `json:"stay"`
	Targets []string `json:"targets"`
}

type tlog struct {
	mu sync.Mutex
	f  *os.File
}

func (t *tlog) log(l tline) {
	if l.Targets == nil {
		l.Targets = []string{}
	}
	b, _ := json.Marshal(l)
	b = append(b, '\n')
	t.mu.Lock()
	t.f.Write(b) // unbuffered: the process may be killed by a panic in templ's goroutine at any moment
	t.mu.Unlock()
}

type sworld struct {
	ep        int
	t         *tlog
	mu        sync.Mutex
	names     map[any]string
	expected  map[string]map[int]bool // under m: deliveries started per client
	got       map[string]map[int]bool
	pending   string
	regd      chan struct{}
	spawned   atomic.Int64
	ended     atomic.Int64
	yieldSeed uint64
	yieldCtr  atomic.Uint64
}

func dataB(data string) int {
	if strings.HasPrefix(data, "b") {
		n, _ := strconv.Atoi(data[1:])
		return n
	}
	return 0
}

func (w *sworld) name(key any) string {
	w.mu.Lock()
	defer w.mu.Unlock()
	return w.names[key]
}

func (w *sworld) hook(ev string, id int64, key any, data string) {
	switch ev {
	case "register":
		w.mu.Lock()
		n := w.pending
		w.names[key] = n
		w.mu.Unlock()
		w.t.log(tline{Ep: w.ep, E: "register", C: n})
		w.regd <- struct{}{}
	case "exit", "unregister":
		w.t.log(tline{Ep: w.ep, E: ev, C: w.name(key)})
	case "send":
		w.t.log(tline{Ep: w.ep, E: "send", B: dataB(data)})
	case "spawn":
		n := w.name(key)
		w.mu.Lock()
		if w.expected[n] == nil {
			w.expected[n] = map[int]bool{}
		}
		w.expected[n][dataB(data)] = true
		w.mu.Unlock()
		w.spawned.Add(1)
		w.t.log(tline{Ep: w.ep, E: "spawn", C: n, B: dataB(data)})
	case "gate":
		w.t.log(tline{Ep: w.ep, E: "run", C: w.name(key), B: dataB(data)})
		// seeded schedule perturbation between reaching the send and performing it
		h := (w.yieldCtr.Add(1) + w.yieldSeed) * 0x9E3779B97F4A7C15 >> 58
		switch {
		case h < 20:
			runtime.Gosched()
		case h < 30:
			time.Sleep(time.Duration(h) * 10 * time.Microsecond)
		}
	case "dend":
		w.ended.Add(1)
		w.t.log(tline{Ep: w.ep, E: "dend", C: w.name(key), B: dataB(data)})
	}
}

// logWriter is the browser side: logs every write of the handler, is sometimes slow, fails once the
// client is gone.
type logWriter struct {
	w      *sworld
	name   string
	ctx    context.Context
	hdr    http.Header
	rng    *rand.Rand
	slow   bool
	failed bool
}

func (lw *logWriter) Header() http.Header { return lw.hdr }
func (lw *logWriter) WriteHeader(int)     {}
func (lw *logWriter) Flush()              {}
func (lw *logWriter) Write(p []byte) (int, error) {
	if lw.failed {
		return 0, errGone
	}
	b := dataB(sseData(p))
	lw.w.t.log(tline{Ep: lw.w.ep, E: "wstart", C: lw.name, B: b})
	if lw.slow {
		time.Sleep(time.Duration(lw.rng.Intn(600)) * time.Microsecond)
	} else if lw.rng.Intn(3) == 0 {
		runtime.Gosched()
	}
	if lw.ctx.Err() != nil {
		lw.failed = true
		lw.w.t.log(tline{Ep: lw.w.ep, E: "wend", C: lw.name, B: b, Ok: false})
		return 0, errGone
	}
	if b > 0 {
		lw.w.mu.Lock()
		if lw.w.got[lw.name] == nil {
			lw.w.got[lw.name] = map[int]bool{}
		}
		lw.w.got[lw.name][b] = true
		lw.w.mu.Unlock()
	}
	lw.w.t.log(tline{Ep: lw.w.ep, E: "wend", C: lw.name, B: b, Ok: true})
	return len(p), nil
}

func stressMain(args []string) {
	if len(args) < 4 {
		vhlibFatal("usage: c19 stress <seed> <first-episode> <episodes> <trace>")
	}
	seed, _ := strconv.ParseInt(args[0], 10, 64)
	first, _ := strconv.Atoi(args[1])
	n, _ := strconv.Atoi(args[2])
	f, err := os.OpenFile(args[3], os.O_APPEND|os.O_CREATE|os.O_WRONLY, 0o644)
	if err != nil {
		vhlibFatal("%v", err)
	}
	t := &tlog{f: f}
	fails := 0
	for ep := first; ep < n; ep++ {
		emit(map[string]any{"kind": "begin", "i": ep})
		if sig, what := stressEpisode(t, seed, ep); sig != "" {
			fails++
			emit(map[string]any{"kind": "fail", "sig": sig, "what": what, "case": map[string]any{"episode": ep, "seed": seed,
				"reproduce": fmt.Sprintf("c19 stress %d %d %d trace.ndjson", seed, ep, ep+1)}})
			// blocked goroutines may be left behind: continue in a fresh process
			emit(map[string]any{"kind": "result", "i": ep, "outcome": "fail"})
			os.Exit(3)
		}
		emit(map[string]any{"kind": "result", "i": ep, "outcome": "ok"})
	}
	emit(map[string]any{"kind": "summary", "last": n - 1, "fails": fails})
}

func stressEpisode(t *tlog, seed int64, ep int) (sig, what string) {
	rng := rand.New(rand.NewSource(seed*1000003 + int64(ep)))
	runtime.Gosched()
	baseline := runtime.NumGoroutine()
	w := &sworld{ep: ep, t: t, names: map[any]string{}, expected: map[string]map[int]bool{}, got: map[string]map[int]bool{},
		regd: make(chan struct{}), yieldSeed: uint64(rng.Int63())}
	setHook(w.hook)
	p := proxy.New(quietLogger, "127.0.0.1", 0, &url.URL{Scheme: "http", Host: "127.0.0.1:1"})
	nc := 2 + rng.Intn(3)
	nb := 1 + rng.Intn(3)
	var connectMu sync.Mutex
	var sendsDone atomic.Bool
	var wg sync.WaitGroup
	var failMu sync.Mutex
	fail := func(s, m string) {
		failMu.Lock()
		if sig == "" {
			sig, what = s, m
		}
		failMu.Unlock()
	}
	for k := 1; k <= nc; k++ {
		name := "c" + strconv.Itoa(k)
		crng := rand.New(rand.NewSource(rng.Int63()))
		stay := crng.Intn(2) == 0
		slow := crng.Intn(3) == 0
		startDelay := time.Duration(crng.Intn(500)) * time.Microsecond
		quitAfter := time.Duration(crng.Intn(900)) * time.Microsecond
		wg.Add(1)
		go func() {
			defer wg.Done()
			time.Sleep(startDelay)
			ctx, cancel := context.WithCancel(context.Background())
			defer cancel()
			req := httptest.NewRequest(http.MethodGet, "/_templ/reload/events", nil).WithContext(ctx)
			lw := &logWriter{w: w, name: name, ctx: ctx, hdr: http.Header{}, rng: crng, slow: slow}
			returned := make(chan struct{})
			connectMu.Lock()
			w.mu.Lock()
			w.pending = name
			w.mu.Unlock()
			go func() {
				defer close(returned)
				p.ServeHTTP(lw, req)
			}()
			select {
			case <-w.regd:
			case <-time.After(expectTimeout):
				connectMu.Unlock()
				vhlibFatal("no register event: the verif hook did not fire")
			}
			connectMu.Unlock()
			if stay {
				// a stayer leaves only after it has every broadcast whose Send found it registered
				deadline := time.Now().Add(expectTimeout)
				for {
					// read the flag first: once all Sends have returned, expected[name] is final
					allSent := sendsDone.Load()
					w.mu.Lock()
					missing := 0
					for b := range w.expected[name] {
						if !w.got[name][b] {
							missing++
						}
					}
					w.mu.Unlock()
					if allSent && missing == 0 {
						break
					}
					if time.Now().After(deadline) {
						fail("Deliver.NotReceived", fmt.Sprintf("client %s stayed connected but %d broadcast(s) that found it registered never arrived", name, missing))
						break
					}
					time.Sleep(100 * time.Microsecond)
				}
			} else {
				time.Sleep(quitAfter)
			}
			t.log(tline{Ep: ep, E: "cancel", C: name, Stay: stay})
			cancel()
			select {
			case <-returned:
			case <-time.After(expectTimeout):
				fail("Exit.NotTaken", "handler of "+name+" did not return after its client went away")
			}
		}()
	}
	wg.Add(1)
	go func() {
		defer wg.Done()
		for b := 1; b <= nb; b++ {
			time.Sleep(time.Duration(rng.Intn(500)) * time.Microsecond)
			ret := make(chan struct{})
			go func() {
				defer close(ret)
				p.SendSSE("message", bdata(b))
			}()
			select {
			case <-ret:
				t.log(tline{Ep: ep, E: "sent", B: b}) // Send returned: its spawn lines are all in the log
			case <-time.After(expectTimeout):
				fail("Send.Blocks", "Send("+bdata(b)+") did not return")
			}
		}
		sendsDone.Store(true)
	}()
	wg.Wait()
	if sig != "" {
		return
	}
	deadline := time.Now().Add(expectTimeout)
	for {
		extra := runtime.NumGoroutine() - baseline
		if extra <= 0 && w.spawned.Load() == w.ended.Load() {
			break
		}
		if time.Now().After(deadline) {
			return "NoLeak.BlockedDelivery", fmt.Sprintf("%d goroutines above the baseline after all clients left (%d deliveries started, %d ended)",
				extra, w.spawned.Load(), w.ended.Load())
		}
		time.Sleep(100 * time.Microsecond)
	}
	t.log(tline{Ep: ep, E: "end"})
	return "", ""
}

// netMain: churn over a real HTTP server (real connections, real context cancellation by net/http, real
// write errors). Outcome checks only: the process survives, stayers receive what Send started for
// them, everything winds down.
func netMain(args []string) {
	if len(args) < 2 {
		vhlibFatal("usage: c19 net <seed> <rounds>")
	}
	seed, _ := strconv.ParseInt(args[0], 10, 64)
	rounds, _ := strconv.Atoi(args[1])
	rng := rand.New(rand.NewSource(seed))
	var spawned, ended, registered, unregistered atomic.Int64
	setHook(func(ev string, id int64, key any, data string) {
		switch ev {
		case "spawn":
			spawned.Add(1)
		case "dend":
			ended.Add(1)
		case "register":
			registered.Add(1)
		case "unregister":
			unregistered.Add(1)
		case "gate":
			if rand.Intn(4) == 0 {
				runtime.Gosched()
			}
		}
	})
	p := proxy.New(quietLogger, "127.0.0.1", 0, &url.URL{Scheme: "http", Host: "127.0.0.1:1"})
	srv := httptest.NewServer(p)
	defer srv.Close()
	received := atomic.Int64{}
	fails := 0
	for r := 0; r < rounds; r++ {
		emit(map[string]any{"kind": "begin", "i": r})
		nc := 2 + rng.Intn(5)
		var wg sync.WaitGroup
		stayersReady := make(chan struct{}, nc)
		stayers := 0
		type res struct{ got int }
		results := make(chan res, nc)
		release := make(chan struct{})
		for k := 0; k < nc; k++ {
			stay := rng.Intn(2) == 0
			quit := time.Duration(rng.Intn(3000)) * time.Microsecond
			if stay {
				stayers++
			}
			wg.Add(1)
			go func() {
				defer wg.Done()
				ctx, cancel := context.WithCancel(context.Background())
				defer cancel()
				req, _ := http.NewRequestWithContext(ctx, http.MethodGet, srv.URL+"/_templ/reload/events", nil)
				resp, err := http.DefaultClient.Do(req)
				if err != nil {
					if stay {
						stayersReady <- struct{}{}
						results <- res{-1}
					}
					return
				}
				defer resp.Body.Close()
				buf := make([]byte, 4096)
				if !stay {
					go func() { time.Sleep(quit); cancel() }()
					for {
						if _, err := resp.Body.Read(buf); err != nil {
							return
						}
					}
				}
				// a stayer: connected (headers received => registered), reads until it has the reload event
				stayersReady <- struct{}{}
				acc := ""
				got := 0
				for got == 0 {
					n, err := resp.Body.Read(buf)
					acc += string(buf[:n])
					if strings.Contains(acc, "data: reload-"+strconv.Itoa(r)+"\n") {
						got = 1
					}
					if err != nil {
						break
					}
				}
				results <- res{got}
				<-release
			}()
		}
		for k := 0; k < stayers; k++ {
			select {
			case <-stayersReady:
			case <-time.After(expectTimeout):
				vhlibFatal("net: clients did not connect")
			}
		}
		// every stayer has its response headers, i.e. its handler has registered: broadcast back to back
		time.Sleep(time.Duration(rng.Intn(1500)) * time.Microsecond)
		p.SendSSE("message", "noise-"+strconv.Itoa(r))
		if rng.Intn(2) == 0 {
			req, _ := http.NewRequest(http.MethodPost, srv.URL+"/_templ/reload/events", nil)
			if resp, err := http.DefaultClient.Do(req); err == nil {
				resp.Body.Close()
			}
		}
		p.SendSSE("message", "reload-"+strconv.Itoa(r))
		for k := 0; k < stayers; k++ {
			select {
			case x := <-results:
				if x.got == 1 {
					received.Add(1)
				} else {
					fails++
					emit(map[string]any{"kind": "fail", "sig": "Deliver.NotReceived", "what": "a client connected before the broadcast and still connected did not receive it (real HTTP server)",
						"case": map[string]any{"round": r, "seed": seed, "got": x.got}})
				}
			case <-time.After(expectTimeout):
				fails++
				emit(map[string]any{"kind": "fail", "sig": "Deliver.NotReceived", "what": "a connected client did not receive the broadcast within the timeout (real HTTP server)",
					"case": map[string]any{"round": r, "seed": seed}})
			}
		}
		close(release)
		wg.Wait()
		emit(map[string]any{"kind": "result", "i": r, "outcome": "ok"})
	}
	srv.CloseClientConnections()
	srv.Close()
	http.DefaultClient.CloseIdleConnections()
	deadline := time.Now().Add(expectTimeout)
	for registered.Load() != unregistered.Load() || spawned.Load() != ended.Load() {
		if time.Now().After(deadline) {
			fails++
			emit(map[string]any{"kind": "fail", "sig": "NoLeak.BlockedDelivery", "what": fmt.Sprintf("after all clients left: %d registered / %d unregistered, %d deliveries started / %d ended",
				registered.Load(), unregistered.Load(), spawned.Load(), ended.Load()), "case": map[string]any{"seed": seed, "rounds": rounds}})
			break
		}
		time.Sleep(time.Millisecond)
	}
	emit(map[string]any{"kind": "summary", "rounds": rounds, "registered": registered.Load(), "deliveries": spawned.Load(),
		"stayers_received": received.Load(), "fails": fails})
}
