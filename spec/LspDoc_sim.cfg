\* C17 simulation: long behaviours on documents of up to ~MaxLen characters (coordinates up to MaxLen+1).
CONSTANTS
  MaxLen = 12
  Texts <- TextsDef
  WholeDocRule = "and"
  EmitEdges = FALSE
  HistLen = 40
INIT SimInit
NEXT SimNext
INVARIANTS ServerTracksEditor PrintHist
CHECK_DEADLOCK FALSE
