\* C05 design check: sanitisers with the proposed repairs keep every accepted value inside its declaration, in both contexts
CONSTANTS
  Classes <- ClassesDef
  Contexts <- ContextsDef
  Alphabet <- FullAlphabet
  RegularExtra <- NoExtra
  AngleGuard = TRUE
  FontFix = TRUE
  BgFix = TRUE
  TrackAttribution = FALSE
  AttrEscapes = 1
  EmitEdges = FALSE
INIT Init
NEXT Next
VIEW View

INVARIANTS TypeOK OneDeclaration InnocuousOnReject
CHECK_DEADLOCK FALSE
