---------------------------- MODULE RenderIOBytes ----------------------------
(* C10, second pool -- "a failed render never alters the result of any later render" for the entry
   points of the root package that render into a pooled bytes.Buffer:

       templ.GetBuffer      b := bufferPool.Get()              -- NO Reset here: the protocol relies on
       templ.ReleaseBuffer  b.Reset(); bufferPool.Put(b)          every Put being preceded by Reset
       templ.ToGoHTML       b := GetBuffer(); defer ReleaseBuffer(b);
                            if err = c.Render(ctx, b); err != nil { return }; s = template.HTML(b.String())
       ComponentHandler.ServeHTTPBuffered
                            buf := GetBuffer(); defer ReleaseBuffer(buf); err := c.Render(ctx, buf)
                            err != nil: error response (the buffer is not used) | w.Write(buf.Bytes())

   (these are all users of templ.GetBuffer() in the repository; RenderIO.tla covers the other pool,
   runtime.GetBuffer, which generated components use).

   A behaviour is a sequence of Runs renders on one goroutine sharing the pool.  The pool hands
   objects back WITH WHATEVER DATA THEY HELD: `data` is a property of the object, not of the pool.
   A render is [e, kind, n, k]: entry point e, a component whose document is n chunks, which
   returns an error after having written k chunks (k = -1: no failure; k = n: the whole document
   was written and then an error returned).  `kind` only selects how the harness realises the
   component (templ.ComponentFunc | a generated template whose (k+1)-th expression fails); the model
   does not distinguish them.  One action per critical step of the code.                          *)
EXTENDS Integers, Sequences, FiniteSets, TLC, Json

CONSTANTS Entries,    \* subset of {"gohtml", "handler"}
          Kinds,      \* subset of {"func", "templ"}
          DocLens,    \* document lengths (chunks)
          Runs,       \* renders per behaviour
          PoolAny,    \* TRUE: Get returns any pooled object or a new one (sync.Pool may drop objects);
                      \* FALSE: the pooled one if there is one (per-P private slot, single goroutine)
          Bug,        \* "none" | "gohtml_err_put_noreset" | "release_noreset"
          Emit

VARIABLES run, pc, op,
          data,       \* per buffer object: the chunks it holds
          cur, pool, nfresh,
          rerr,       \* did Render return an error
          res,        \* what the entry point handed to its caller: [err, status, body]
          pev,        \* verifBytesPool hook events of this render: [ev, buf, dirty]
          hist,
          lbl

vars == <<run, pc, op, data, cur, pool, nfresh, rerr, res, pev, hist>>
View == vars

Max(S) == CHOOSE x \in S : \A y \in S : y <= x
Ops == {o \in [e : Entries, kind : Kinds, n : DocLens, k : -1..Max(DocLens)] : o.k <= o.n}

\* chunk j of the document of render r: every render writes bytes nobody else writes
Chunk(r, j) == ToString(r) \o "." \o ToString(j) \o ";"
Doc(r, n) == [j \in 1..n |-> Chunk(r, j)]
ErrBody == <<"templ: failed to render template\n">>     \* http.Error appends a newline
NoRes == [err |-> FALSE, status |-> 0, body |-> <<>>]

Init == /\ run = 1 /\ pc = "pick" /\ op = [e |-> "none", kind |-> "none", n |-> 0, k |-> -1]
        /\ data = [b \in 1..Runs |-> <<>>] /\ cur = 0 /\ pool = {} /\ nfresh = 0
        /\ rerr = FALSE /\ res = NoRes /\ pev = <<>> /\ hist = <<>>
        /\ lbl = "Init"

\* the entry point is called
Start == /\ pc = "pick"
         /\ \E o \in Ops : op' = o
         /\ pc' = "get" /\ rerr' = FALSE /\ res' = NoRes /\ pev' = <<>>
         /\ lbl' = "Start"
         /\ UNCHANGED <<run, data, cur, pool, nfresh, hist>>

\* templ.GetBuffer(): bufferPool.Get() -- the object comes back with the data it was Put with
Get == /\ pc = "get"
       /\ \E b \in (IF PoolAny \/ pool = {} THEN pool \cup {nfresh + 1} ELSE pool) :
            /\ cur' = b /\ pool' = pool \ {b}
            /\ nfresh' = IF b = nfresh + 1 THEN nfresh + 1 ELSE nfresh
            /\ pev' = Append(pev, [ev |-> "get", buf |-> b, dirty |-> data[b] # <<>>])
       /\ pc' = "render"
       /\ lbl' = "Get"
       /\ UNCHANGED <<run, op, data, rerr, res, hist>>

\* err = c.Render(ctx, b): the component appends its chunks to the buffer and fails after k of them
Render == /\ pc = "render"
          /\ LET w == IF op.k = -1 THEN op.n ELSE op.k
             IN data' = [data EXCEPT ![cur] = @ \o SubSeq(Doc(run, op.n), 1, w)]
          /\ rerr' = (op.k # -1)
          /\ pc' = "after"
          /\ lbl' = "Render"
          /\ UNCHANGED <<run, op, cur, pool, nfresh, res, pev, hist>>

\* ToGoHTML: if err != nil { return }  /  s = template.HTML(b.String())
GoHTMLResult ==
    /\ pc = "after" /\ op.e = "gohtml"
    /\ IF rerr
       THEN /\ res' = [err |-> TRUE, status |-> 0, body |-> <<>>]
            /\ pc' = IF Bug = "gohtml_err_put_noreset" THEN "put" ELSE "reset"
       ELSE /\ res' = [err |-> FALSE, status |-> 0, body |-> data[cur]]
            /\ pc' = "reset"
    /\ lbl' = "GoHTMLResult"
    /\ UNCHANGED <<run, op, data, cur, pool, nfresh, rerr, pev, hist>>

\* ServeHTTPBuffered: http.Error(w, msg, 500) (no ErrorHandler)  /  w.Write(buf.Bytes())
HandlerResult ==
    /\ pc = "after" /\ op.e = "handler"
    /\ res' = IF rerr THEN [err |-> TRUE, status |-> 500, body |-> ErrBody]
                      ELSE [err |-> FALSE, status |-> 200, body |-> data[cur]]
    /\ pc' = "reset"
    /\ lbl' = "HandlerResult"
    /\ UNCHANGED <<run, op, data, cur, pool, nfresh, rerr, pev, hist>>

\* deferred templ.ReleaseBuffer, first half: b.Reset()
Reset == /\ pc = "reset"
         /\ data' = IF Bug = "release_noreset" THEN data ELSE [data EXCEPT ![cur] = <<>>]
         /\ pc' = "put"
         /\ lbl' = "Reset"
         /\ UNCHANGED <<run, op, cur, pool, nfresh, rerr, res, pev, hist>>

\* second half: bufferPool.Put(b)
Put == /\ pc = "put"
       /\ pev' = Append(pev, [ev |-> "put", buf |-> cur, dirty |-> data[cur] # <<>>])
       /\ pool' = pool \cup {cur} /\ cur' = 0
       /\ pc' = "end"
       /\ lbl' = "Put"
       /\ UNCHANGED <<run, op, data, nfresh, rerr, res, hist>>

\* the entry point has returned
End == /\ pc = "end"
       /\ hist' = Append(hist, [op |-> op, doc |-> Doc(run, op.n), res |-> res, pev |-> pev])
       /\ IF run = Runs THEN pc' = "done" /\ UNCHANGED run ELSE pc' = "pick" /\ run' = run + 1
       /\ lbl' = "End"
       /\ UNCHANGED <<op, data, cur, pool, nfresh, rerr, res, pev>>

Next == Start \/ Get \/ Render \/ GoHTMLResult \/ HandlerResult \/ Reset \/ Put \/ End
Spec == Init /\ [][Next]_vars

-----------------------------------------------------------------------------
(* properties *)
\* an acquired buffer is empty
NoCarryOver == pc = "render" => data[cur] = <<>>

\* what makes NoCarryOver inductive although Get does not Reset: nothing non-empty is in the pool
PooledBuffersAreEmpty == \A b \in pool : data[b] = <<>>

\* every finished render handed its caller exactly its own document (or its own failure), whatever
\* happened in the renders before it: a failed render never alters the result of a later render
Exact == \A i \in 1..Len(hist) : LET h == hist[i] IN
            /\ h.res.err = (h.op.k # -1)
            /\ h.op.k = -1 => h.res.body = h.doc
            /\ (h.op.k # -1 /\ h.op.e = "gohtml") => h.res.body = <<>>
            /\ (h.op.k # -1 /\ h.op.e = "handler") => h.res.body = ErrBody /\ h.res.status = 500

OneHolder == cur \notin pool /\ (pc \in {"pick", "get", "end", "done"} <=> cur = 0)

TypeOK == /\ run \in 1..Runs /\ cur \in 0..Runs /\ pool \subseteq 1..Runs /\ nfresh \in 0..Runs
          /\ pc \in {"pick", "get", "render", "after", "reset", "put", "end", "done"}

(* every terminal behaviour, for the replay on the real entry points *)
PrintCase == (Emit /\ pc = "done") => PrintT(<<"BCASE", ToJson([runs |-> hist])>>)
=============================================================================
