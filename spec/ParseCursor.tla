----------------------------- MODULE ParseCursor -----------------------------
(* C06 (totality) -- the cursor discipline of templ's recursive-descent parser.

   The parser reads a byte string of length N through one cursor idx (github.com/a-h/parse Input:
   Take advances, Seek restores).  Every unbounded loop of parser/v2 has the shape

       for {                                  <- loop top
           try sub-parsers in order; a sub-parser that matches has consumed input,
           one that does not match has restored the cursor (Seek(start));
           nothing matched -> leave the loop (until-parser matched, break, or error)
       }

   (templateNodeParser.Parse, the <script> loop, expressionParser.Parse, the three loops of
   TemplateFileParser.Parse, cssParser, the case loop, attributesParser).  Sub-parsers may enter
   nested loops.  The contract that makes parsing total is local to a loop invocation (a frame):

       LoopTop: whenever control is back at the top of the loop, idx is larger than it was at the
                previous top of the same invocation.

   Under the contract a frame sees at most N+1 tops (TopBound) and every parse ends (Termination,
   with a bounded number of sub-parser attempts per iteration and bounded nesting).

   Two further dimensions:
   * end of input: N is the length of the CALLER's input.  The entry point (parser.ParseString) hands
     the parser that very string; Extra > 0 models an entry point that parses a private copy that is
     Extra bytes longer (e.g. a newline appended when the input lacks one): the cursor, and with it
     every error position and Range end taken at the end of the copy, leaves [0, N]
     (CursorInBounds; negative config ParseCursor_negeof.cfg).
   * nesting depth: "promptly" needs the total work to be polynomial in the nesting depth.  The work
     of a nested loop invocation must not be thrown away and redone: with Reparse = FALSE the cursor
     is never restored to a position before the end of a nested invocation that has finished, so an
     invocation that consumed input is never repeated at its start index (ReparseBound, with slack
     linear in the nesting depth).  Reparse = TRUE
     models an until-probe that runs the full nested parser and restores (ifExpression's
     untilElseIfElseOrEnd runs the complete else / else-if parsers): every level multiplies the
     entries of the innermost body (negative config ParseCursor_negnest.cfg).  With
   Faulty = TRUE a sub-parser may report a match without consuming, so a loop top may repeat its
   index: TopBound is violated -- that is the non-termination the checks look for in the real code
   (verif hook: one event per loop top; spec/TraceParseCursor.tla).                               *)
EXTENDS Integers, Sequences, TLC

CONSTANTS N,          \* input length
          Loops,      \* names of loops
          MaxDepth,   \* nesting bound (Go recursion depth is not the subject)
          MaxTries,   \* sub-parser attempts per iteration (the parser lists are finite)
          Faulty,     \* TRUE: a sub-parser may match without consuming (negative config)
          Extra,      \* bytes the entry point appended to its private copy of the input (0 = the code)
          Reparse     \* TRUE: the work of a finished nested invocation may be discarded and redone

VARIABLES idx,        \* the cursor
          stack,      \* active loop invocations, innermost last: [loop, last, tops, tries]
          started,    \* the outermost loop (TemplateFileParser.Parse) has been entered
          entered,    \* <<loop, start index>> -> number of invocations of that loop started there
          done
vars == <<idx, stack, started, entered, done>>

Frame(l) == [loop |-> l, last |-> -1, tops |-> 0, tries |-> 0, floor |-> 0, start |-> -1]
Count(f, k) == IF k \in DOMAIN f THEN f[k] ELSE 0
Bump(f, k) == (k :> Count(f, k) + 1) @@ f
Depth == Len(stack)
TopF == stack[Depth]
SetTop(f) == [stack EXCEPT ![Depth] = f]

\* the contract at a loop top
TopOK(f, i) == f.last = -1 \/ i > f.last
\* bookkeeping at a loop top
AtTop(f, i) == [f EXCEPT !.last = i, !.tops = @ + 1, !.tries = 0, !.start = IF f.tops = 0 THEN i ELSE @]

Init == idx = 0 /\ stack = <<>> /\ started = FALSE /\ entered = <<>> /\ done = FALSE

\* a parser function with a loop is called (from the file parser or from a sub-parser of a loop)
Enter(l) == /\ ~done /\ Depth < MaxDepth
            /\ (Depth = 0 => ~started)
            /\ (Depth > 0 => TopF.tops > 0 /\ TopF.tries < MaxTries)
            /\ stack' = (IF Depth > 0 THEN SetTop([TopF EXCEPT !.tries = @ + 1]) ELSE stack) \o <<Frame(l)>>
            /\ started' = TRUE
            /\ UNCHANGED <<idx, entered, done>>

\* control reaches the top of the innermost loop
LoopTop == /\ ~done /\ Depth > 0
           /\ (Faulty \/ TopOK(TopF, idx))
           /\ stack' = SetTop(AtTop(TopF, idx))
           /\ UNCHANGED <<idx, started, entered, done>>

\* a sub-parser of the current iteration matches and consumes k >= 1 bytes
Consume(k) == /\ ~done /\ Depth > 0 /\ TopF.tops > 0 /\ TopF.tries < MaxTries
              /\ idx + k <= N + Extra
              /\ idx' = idx + k
              /\ stack' = SetTop([TopF EXCEPT !.tries = @ + 1])
              /\ UNCHANGED <<started, entered, done>>

\* Faulty only: a sub-parser reports a match but leaves the cursor where it was
MatchWithoutConsuming == /\ Faulty /\ ~done /\ Depth > 0 /\ TopF.tops > 0 /\ TopF.tries < MaxTries
                         /\ stack' = SetTop([TopF EXCEPT !.tries = @ + 1])
                         /\ UNCHANGED <<idx, started, entered, done>>

\* a sub-parser fails after reading ahead and restores the cursor to a position of this iteration
Restore(j) == /\ ~done /\ Depth > 0 /\ TopF.tops > 0 /\ TopF.tries < MaxTries
              /\ j >= TopF.last /\ j < idx
              /\ (Reparse \/ j >= TopF.floor)      \* the work of a finished nested invocation is kept
              /\ idx' = j
              /\ stack' = SetTop([TopF EXCEPT !.tries = @ + 1])
              /\ UNCHANGED <<started, entered, done>>

\* the innermost loop ends (until-parser matched, nothing matched, or an error is returned)
Exit == /\ ~done /\ Depth > 0 /\ TopF.tops > 0
        /\ stack' = (IF Depth > 1
                      THEN [SubSeq(stack, 1, Depth - 1) EXCEPT ![Depth - 1].floor = idx]
                      ELSE <<>>)
        \* an invocation that consumed input is work: count it under <<loop, start index>>
        /\ entered' = IF idx > TopF.start THEN Bump(entered, <<TopF.loop, TopF.start>>) ELSE entered
        /\ UNCHANGED <<idx, started, done>>

Finish == /\ ~done /\ Depth = 0 /\ started
          /\ done' = TRUE
          /\ UNCHANGED <<idx, stack, started, entered>>

Next == \/ \E l \in Loops : Enter(l)
        \/ LoopTop
        \/ \E k \in 1..N : Consume(k)
        \/ MatchWithoutConsuming
        \/ \E j \in 0..N : Restore(j)
        \/ Exit
        \/ Finish
Spec == Init /\ [][Next]_vars /\ WF_vars(Next)

-----------------------------------------------------------------------------
\* the cursor (hence every position the parser can report) lies in the CALLER's input
CursorInBounds == 0 <= idx /\ idx <= N
\* a loop invocation sees at most N+1 tops: its indices at the tops are strictly increasing in 0..N
TopBound == \A d \in 1..Depth : stack[d].tops <= N + 1
LastInBounds == \A d \in 1..Depth : stack[d].last <= N
\* one loop does real work from one index a number of times that is at most linear in the nesting depth
ReparseLimit == MaxDepth
ReparseBound == \A k \in DOMAIN entered : entered[k] <= ReparseLimit
\* every parse ends
Termination == <>done
\* exploration bound for the faulty configuration (tops grows without bound there)
Bounded == \A d \in 1..Depth : stack[d].tops <= N + 2
=============================================================================
