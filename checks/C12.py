#!/usr/bin/env python3
"""C12 -- scripts, CSS classes and once-blocks once per context, before use (spec/RenderCtxRegistry.tla).

MC   : TLC checks the step formulation of AtMostOnce / DefBeforeFirstUse / EveryUseHasCallOrName /
       MiddlewareNeverInlined / StylesheetServesRegistered / ContextsIndependent and the ghost link
       RegistryMatchesDocument on (A) one context x every id x every container form that
       renderCSSItemsToBuilder / cssProcessor.Add distinguish and (B) two contexts in every mode combination
       (initialised once / made by CSSMiddleware / uninitialised); thorough adds the full product bounded to
       histories of 6 uses.  SetNonce(ctx) = templ.WithNonce on the context at any point of a history, in every
       context mode (first thing in an mw context = a nonce middleware inside NewCSSMiddleware; on an uninitialised
       context it initialises it), leaves the registry untouched (NonceKeepsRegistry).  Negative configs (shared key
       space, RenderScriptItems does not record, registry in a package variable, middleware classes inlined, each
       container form as coded, WithNonce forgets the registry -- rejected through AtMostOnce and, separately,
       through MiddlewareNeverInlined) must be rejected.
GEN  : every transition of A and B is replayed on the real runtime: the source state is re-established by
       replaying the shortest history that reaches it, every use is a real generated template (harness/c12/
       uses.templ), mw contexts live inside a real HTTP request through templ.NewCSSMiddleware; the output is
       tokenised (x/net/html), projected to def/use/body tokens and compared with the model; the step
       properties are evaluated on the REAL tokens.  Two concretisations: hand-made script/class values that
       share one name, and generated script/css templates.  Simulated histories of 40 uses are replayed too.
       SetNonce is replayed as ctx = templ.WithNonce(ctx, "<nonce>") at that point of the history (inside the
       running request for mw contexts); a violation that disappears when the same history is replayed without
       WithNonce gets the signature Registry.SetNonce.<property>.  Bonus (drift only): <script> tags emitted after
       it carry the nonce, <style> tags never do, as in the unchanged code.
"""
import concurrent.futures as cf
import json, os, sys
sys.path.insert(0, os.path.join(os.path.dirname(os.path.abspath(__file__)), "..", "lib"))
import vlib

MC = "MCRenderCtxRegistry"
TAG2REPAIR = {"KvCompUnknownName": "KvCompName", "SliceKVNoRules": "SliceKVRules"}
ALLREP = '{"KvCompName", "SliceKVRules"}'
PROPS = {"AtMostOnce", "DefBeforeFirstUse", "EveryUseHasCallOrName", "MiddlewareNeverInlined", "StylesheetServesRegistered",
         "ContextsIndependent", "RegistryMatchesDocument", "NonceKeepsRegistry"}


def tla_set(xs):
    return "{" + ", ".join('"%s"' % x for x in xs) + "}"


def spec_file(name):
    return open(os.path.join(vlib.SPEC, name)).read()


def with_repaired(text, repaired):
    out = []
    for line in text.splitlines():
        if line.strip().startswith("Repaired ="):
            line = "  Repaired = " + tla_set(repaired)
        out.append(line)
    return "\n".join(out) + "\n"


def main():
    ck = vlib.Check("C12", "model_checking")
    thorough = ck.tier == "thorough"
    pool = cf.ThreadPoolExecutor(max_workers=12)

    # the emission runs first: the replays wait for them, the design checks and negative configs run meanwhile
    genA0 = pool.submit(vlib.tlc, MC, "RenderCtxRegistry_genA.cfg", workers=1, timeout=900)
    genBf = pool.submit(vlib.tlc, MC, "RenderCtxRegistry_genB.cfg", workers=1, timeout=900)
    genCf = pool.submit(vlib.tlc, MC, "RenderCtxRegistry_genC.cfg", workers=1, timeout=900)
    # speculative: the predictions for the fully repaired forms (what the probe below usually detects), derived meanwhile
    all_rep = sorted(TAG2REPAIR.values())
    genA1 = pool.submit(vlib.tlc, MC, "gA.cfg", files={"gA.cfg": with_repaired(spec_file("RenderCtxRegistry_genA.cfg"), all_rep)},
                        workers=1, timeout=900)

    # --- MC: design checks and negative configs, side by side ---------------------------------------
    f_mc = {n: pool.submit(vlib.tlc, MC, "RenderCtxRegistry_%s.cfg" % n, workers=4, timeout=900) for n in ("mcA", "mcB", "mcC")}
    if thorough:
        f_mc["mcFull"] = pool.submit(vlib.tlc, MC, "RenderCtxRegistry_mcFull.cfg", workers=8, timeout=1500, xmx="8g")
    negA, negB = spec_file("RenderCtxRegistry_negA.cfg"), spec_file("RenderCtxRegistry_negB.cfg")
    negs = {
        "sharedKeys (class and script ids in one key space)": ("nA1.cfg", negA),
        "noRecord (RenderScriptItems does not record)": ("nA2.cfg", negA.replace('"sharedKeys"', '"noRecord"')),
        "mwInlines (middleware classes inlined)": ("nA3.cfg", negA.replace('"sharedKeys"', '"mwInlines"')),
        "sliceKV as coded ([]KeyValue[CSSClass,bool] offers no rules)": ("nA4.cfg", with_repaired(negA.replace('"sharedKeys"', '"asCoded"'), ["KvCompName"])),
        "kvComp as coded (KeyValue[ComponentCSSClass,bool] named unknown-type)": ("nA5.cfg", with_repaired(negA.replace('"sharedKeys"', '"asCoded"'), ["SliceKVRules"])),
        "packageState (registry shared by all contexts)": ("nB1.cfg", negB),
        "elseNotHoisted (scripts / css items in the else-arm of a conditional attribute are not hoisted)":
            ("nA6.cfg", spec_file("RenderCtxRegistry_negCond.cfg")),
        "markAfterRender (once handle recorded only after its content rendered: re-entrant use renders it twice)":
            ("nC2.cfg", spec_file("RenderCtxRegistry_negOnce.cfg")),
        "onceKeyedById (rendered once handles remembered by OnceHandle.id: zero-value handles collapse)":
            ("nC1.cfg", spec_file("RenderCtxRegistry_negC.cfg")),
    }
    negN = spec_file("RenderCtxRegistry_negNonce.cfg")
    negs_exact = {
        "nonceForgets (WithNonce derives a fresh context value) -> AtMostOnce": ("nN1.cfg", negN, "AtMostOnce"),
        "nonceForgets (WithNonce derives a fresh context value) -> MiddlewareNeverInlined":
            ("nN2.cfg", negN.replace("PROPERTIES AtMostOnce", "PROPERTIES MiddlewareNeverInlined"), "MiddlewareNeverInlined"),
    }
    f_negx = {k: (pool.submit(vlib.tlc, MC, fn, files={fn: text}, workers=2, timeout=600), want) for k, (fn, text, want) in negs_exact.items()}
    f_neg = {k: pool.submit(vlib.tlc, MC, fn, files={fn: text}, workers=2, timeout=600) for k, (fn, text) in negs.items()}
    hd = vlib.harness_dir()
    vlib.templ_generate(os.path.join(hd, "c12"))
    binp = vlib.go_build("./c12", "c12")

    sc = vlib.scratch()
    reg = ["k1"]

    def replay(mode, path, name):
        p = vlib.run([binp, mode, path, str(ck.seed)] + reg, check=False, timeout=1200)
        return p

    # --- which container forms are repaired in the code under test? -----------------------------------
    gA = genA0.result()
    edgesA = gA.tagged("EDGE")
    # every generated successor is one edge; the 3 initial states (one per mode) are not successors
    if not gA.ok or len(edgesA) != gA.generated - 3:
        raise vlib.InfraError("edge emission A incomplete: %d edges for %d generated states" % (len(edgesA), gA.generated))
    pA = vlib.write_ndjson(os.path.join(sc, "edgesA0.ndjson"), edgesA)
    probe = vlib.Check("C12", "model_checking")
    # the probe needs only the edges that go through an as-coded container form; those leaving an initial state suffice
    # (no history to re-establish) and show the difference between the as-coded and the repaired behaviour
    probe_edges = [e for e in edgesA if e["from"]["init"] and e["lbl"].get("tags")]
    vlib.log("probe replay of %d tagged edges of A" % len(probe_edges))
    s0 = vlib.harness_results(probe, replay("edges", vlib.write_ndjson(os.path.join(sc, "probeA.ndjson"), probe_edges), "A0"))
    # a form counts as repaired in the code under test as soon as one edge that goes only through that form behaves
    # differently from the as-coded model (edges where both behaviours coincide say nothing).  A wrong guess cannot
    # hide anything: the step properties are evaluated on the real tokens, and real tokens that differ from the
    # re-derived predictions are reported as drift / Registry.Unmodelled.* (never a known finding).
    repaired = sorted(TAG2REPAIR[t] for t, st in s0["tags"].items() if st["different"] > 0)
    if set(s0["tags"]) != set(TAG2REPAIR):
        raise vlib.InfraError("no edge isolates the container forms %s" % sorted(set(TAG2REPAIR) - set(s0["tags"])))
    ck.set("repaired_in_code_under_test", repaired)
    if repaired:
        vlib.log("re-deriving the predictions for Repaired = %s" % repaired)
        if repaired == all_rep:
            gA = genA1.result()
        else:
            gA = vlib.tlc(MC, "gA.cfg", files={"gA.cfg": with_repaired(spec_file("RenderCtxRegistry_genA.cfg"), repaired)}, workers=1, timeout=900)
        edgesA = gA.tagged("EDGE")
        if not gA.ok or len(edgesA) != gA.generated - 3:
            raise vlib.InfraError("edge emission A (repaired forms) incomplete")
        pA = vlib.write_ndjson(os.path.join(sc, "edgesA1.ndjson"), edgesA)
    ck.add_tlc(gA, "RenderCtxRegistry_genA (edge emission, 1 context, all forms)")
    gB = genBf.result()
    edgesB = gB.tagged("EDGE")
    if not gB.ok or len(edgesB) != gB.generated - 9:
        raise vlib.InfraError("edge emission B incomplete: %d edges for %d generated states" % (len(edgesB), gB.generated))
    ck.add_tlc(gB, "RenderCtxRegistry_genB (edge emission, 2 contexts x 9 mode combinations)")
    pB = vlib.write_ndjson(os.path.join(sc, "edgesB.ndjson"), edgesB)
    gC = genCf.result()
    edgesC = gC.tagged("EDGE")
    if not gC.ok or len(edgesC) != gC.generated - 3:
        raise vlib.InfraError("edge emission C incomplete: %d edges for %d generated states" % (len(edgesC), gC.generated))
    zero_first = [e for e in edgesC if e["lbl"]["a"] == "OnceWithBlock" and e["lbl"]["args"]["h"] in ("z1", "z2")
                  and any(t["t"] == "body" for t in e["lbl"]["toks"]) and {"z1", "z2"} & set(e["lbl"]["before"])]
    if not zero_first:
        raise vlib.InfraError("no emitted edge renders a zero-value once handle for the first time after another zero-value handle")
    reentrant = [e for e in edgesC if e["lbl"]["a"] == "OnceNested" and e["lbl"]["args"]["h"] == e["lbl"]["args"]["t"]
                 and [t["t"] for t in e["lbl"]["toks"]] == ["body"]]
    if not reentrant:
        raise vlib.InfraError("no emitted edge uses a once handle inside its own, first rendered, content")
    ck.set("once_handle_used_inside_its_own_first_rendered_content_edges", len(reentrant))
    ck.add_tlc(gC, "RenderCtxRegistry_genC (edge emission, once-handle universe: NewOnceHandle x2, zero-value x2, fixed x1)")
    pC = vlib.write_ndjson(os.path.join(sc, "edgesC.ndjson"), edgesC)

    # simulated long histories (with the detected Repaired set)
    num = 1500 if thorough else 250
    f_sim = pool.submit(vlib.tlc, "MCRenderCtxRegistrySim", "sim.cfg",
                        files={"sim.cfg": with_repaired(spec_file("RenderCtxRegistry_sim.cfg"), repaired)},
                        workers=1, simulate="num=%d" % num, depth=42, tlc_seed=ck.seed, timeout=900)

    # --- binding self-test: corrupt one predicted token -> must be reported --------------------------
    bad = json.loads(json.dumps([e for e in edgesA if e["from"]["init"]][:300]))
    j = next(i for i, e in enumerate(bad) if e["lbl"]["a"] == "ElementWithOnAttrs" and len(e["lbl"]["toks"]) >= 3
             and e["from"]["ctx"][0]["m"] == "plain")
    bad[j]["lbl"]["toks"][0], bad[j]["lbl"]["toks"][-1] = bad[j]["lbl"]["toks"][-1], bad[j]["lbl"]["toks"][0]
    pbad = vlib.write_ndjson(os.path.join(sc, "corrupt.ndjson"), bad)
    pr = vlib.run([binp, "edges", pbad, "1"] + reg, check=False)
    drifted = [l for l in pr.stdout.decode(errors="replace").splitlines() if l.startswith('{"case"') or '"kind":"drift"' in l]
    want = " ".join("%s(%s)" % (t["t"], t["x"]) for t in bad[j]["lbl"]["toks"])
    if not any(want in l for l in drifted):
        raise vlib.InfraError("binding self-test: a corrupted token prediction was not reported by the harness")
    ck.set("binding_selftest", "swapped two predicted tokens of one edge -> reported as a mismatch")

    # --- GEN: every edge ----------------------------------------------------------------------------
    vlib.log("replaying %d + %d edges" % (len(edgesA), len(edgesB)))
    fB = pool.submit(replay, "edges", pB, "B")          # the replays are independent processes
    fC = pool.submit(replay, "edges", pC, "C")
    sA = vlib.harness_results(ck, replay("edges", pA, "A"))
    sB = vlib.harness_results(ck, fB.result())
    sC = vlib.harness_results(ck, fC.result())
    if sC["edges"] != len(edgesC) or (sC["steps"] != 2 * len(edgesC) and ck._nviol == 0 and not ck.known_hit):
        raise vlib.InfraError("harness replayed %d of %d edges of C (%d steps)" % (sC["edges"], len(edgesC), sC["steps"]))
    if sC["actions"].get("OnceWithBlock", 0) < 2 * len([e for e in edgesC if e["lbl"]["a"] == "OnceWithBlock"]) and ck._nviol == 0:
        raise vlib.InfraError("once-handle uses of C not all replayed: %s" % sC["actions"])
    vlib.log("edges replayed")
    if sA["edges"] != len(edgesA) or sB["edges"] != len(edgesB):
        raise vlib.InfraError("harness replayed %d+%d of %d+%d edges" % (sA["edges"], sB["edges"], len(edgesA), len(edgesB)))
    if sA["steps"] != 2 * len(edgesA) or sB["steps"] != 2 * len(edgesB):
        if ck._nviol == 0 and not ck.known_hit:
            raise vlib.InfraError("not every edge reached its source state in both concretisations: %d/%d, %d/%d" % (
                sA["steps"], 2 * len(edgesA), sB["steps"], 2 * len(edgesB)))
    need = {"RenderScriptComponent", "ElementWithOnAttrs", "ElementWithClasses", "ElementWithClassAndOn", "ElementWithCondOn",
            "ElementWithCondClass", "OnceWithBlock", "OnceNested",
            "OnceWithComponent", "StylesheetRequest", "SetNonce"}
    if set(sA["actions"]) != need or set(sB["actions"]) != need:
        raise vlib.InfraError("use kinds exercised: %s / %s" % (sorted(sA["actions"]), sorted(sB["actions"])))

    # the design checks and negative configs ran meanwhile
    for n, f in f_mc.items():
        r = f.result()
        if not r.ok:
            raise vlib.InfraError("registry model %s does not satisfy its properties (%s): the model is wrong" % (n, r.violated))
        ck.add_tlc(r, "RenderCtxRegistry_%s" % n)
    for k, f in f_neg.items():
        r = f.result()
        if r.violated not in PROPS:
            raise vlib.InfraError("negative config %s was not rejected (%s)" % (k, r.violated))
    for k, (f, want) in f_negx.items():
        r = f.result()
        if r.violated != want:
            raise vlib.InfraError("negative config %s was not rejected through %s (%s)" % (k, want, r.violated))
    ck.set("negative_configs_rejected", sorted(f_neg) + sorted(f_negx))

    sim = f_sim.result()
    if sim.violated:
        raise vlib.InfraError("simulation violated %s in the model" % sim.violated)
    hists = sim.tagged("HIST")
    if len(hists) < num:
        raise vlib.InfraError("simulation printed %d of %d behaviours" % (len(hists), num))
    pH = vlib.write_ndjson(os.path.join(sc, "hist.ndjson"), hists)
    sH = vlib.harness_results(ck, replay("hist", pH, "sim"))
    if sH["behaviours"] < min(num, len({json.dumps(h, sort_keys=True) for h in hists})):
        raise vlib.InfraError("harness replayed %d of %d behaviours" % (sH["behaviours"], len(hists)))

    # fail closed: WithNonce really was applied inside histories and uses were checked after it, in every replay
    for nm, st in (("A", sA), ("B", sB), ("sim", sH)):
        if st["nonce_sets"] == 0 or st["uses_after_nonce"] == 0 or (st["scripts_with_nonce"] == 0 and st["drift"] == 0):
            raise vlib.InfraError("nonce binding not exercised in replay %s: %s" % (nm, {k: st[k] for k in ("nonce_sets", "uses_after_nonce", "scripts_with_nonce")}))
    mw_nonce = sum(1 for e in edgesA + edgesB if e["lbl"]["a"] != "SetNonce" and e["lbl"]["a"] != "StylesheetRequest" and e["lbl"]["nonce"] > 0
                   and any(c["m"] == "mw" and c["nn"] > 0 for c in e["from"]["ctx"]))
    winit = sum(1 for e in edgesA + edgesB if any(c["m"] == "winit" for c in e["from"]["ctx"]))
    if mw_nonce == 0 or winit == 0:
        raise vlib.InfraError("no emitted edge uses a middleware context / a WithNonce-initialised context after SetNonce")
    ck.set("nonce", {"WithNonce_applications": sA["nonce_sets"] + sB["nonce_sets"] + sH["nonce_sets"],
                     "checked_uses_after_WithNonce": sA["uses_after_nonce"] + sB["uses_after_nonce"] + sH["uses_after_nonce"],
                     "script_tags_with_expected_nonce": sA["scripts_with_nonce"] + sB["scripts_with_nonce"] + sH["scripts_with_nonce"],
                     "edges_from_states_with_mw_context_after_WithNonce": mw_nonce,
                     "edges_from_states_with_WithNonce_initialised_context": winit})
    ck.set("edges_replayed", {"A_one_context_all_forms": sA["edges"], "B_two_contexts_all_modes": sB["edges"],
                              "C_once_handle_universe": sC["edges"]})
    ck.set("zero_value_handle_first_render_after_another_zero_value_handle_edges", len(zero_first))
    ck.set("real_steps_checked", sA["steps"] + sB["steps"] + sC["steps"] + sH["steps"])
    ck.set("concretisations", ["hand-made script and class sharing one name", "generated script/css templates"])
    ck.set("longest_replayed_prefix", max(sA["max_path"], sB["max_path"]))
    ck.set("simulated_behaviours", sH["behaviours"])
    ck.set("simulated_steps", sH["steps"])
    ck.set("use_kinds", sA["actions"])
    ck.set("model_drift_steps", sA["drift"] + sB["drift"] + sC["drift"] + sH["drift"])
    ck.set("failing_steps_by_signature", {k: sA["sigs"].get(k, 0) + sB["sigs"].get(k, 0) + sC["sigs"].get(k, 0) + sH["sigs"].get(k, 0)
                                          for k in set(sA["sigs"]) | set(sB["sigs"]) | set(sC["sigs"]) | set(sH["sigs"])})
    ck.set("traces_validated_against_impl", sA["edges"] + sB["edges"] + sC["edges"] + sH["behaviours"])
    ck.set("exhaustive", True)
    ck.set("bounds", {"A": "1 context x 3 modes x 2 scripts x 2 classes x 3 handles x 122 class expressions x 5 on-attribute sequences x WithNonce applied 0/1 times at any point",
                      "B": "2 contexts x 9 mode combinations x 1 script x 1 class x 2 handles x WithNonce applied 0/1 times to the first context at any point",
                      "C": "1 context x 3 modes x 1 script x 1 class x once handles {2 from NewOnceHandle, 2 zero-value (var h templ.OnceHandle / new), 1 with fixed component}",
                      "simulation": "%d histories of 40 steps, 2 contexts, all ids, all forms, up to 2 WithNonce per context at random points" % num,
                      "mcFull_history_length": 6 if thorough else None})
    ck.set("rule", "every transition of the reachable registry graphs A and B, each from its source state re-established on the real "
                   "runtime, in 2 concretisations, uses rendered directly / inside a component / inside a child block")
    ck.assume("a once handle is identified by its address: distinct zero-value handles (id 0) are distinct handles")
    ck.assume("strings, constant classes and maps of names carry no CSS component (DESIGN.md appendix); they are not uses")
    ck.assume("the invariants are checked as step properties over (ids defined so far in the context's document, tokens of the step); "
              "the ghost set is tied to the real output edge by edge")
    ck.assume("templ.WithNonce is applied to the context the harness renders with (also inside the running request of a middleware context); "
              "the nonce attribute of emitted <script>/<style> tags is compared with the unchanged code's behaviour as drift only; "
              "script elements per hoisted group are not compared")
    ck.finish()


def guarded():
    try:
        main()
    except (vlib.InfraError, SystemExit):
        raise
    except Exception as e:  # a bug in the check itself is a machinery failure, never a verdict
        import traceback
        raise vlib.InfraError("check crashed: %s\n%s" % (e, traceback.format_exc()))


vlib.main(guarded)
