---------------------------- MODULE TraceJsonRpc ----------------------------
(* Trace validation for C18 (conn half): executions of the REAL lsp/jsonrpc2 conn, recorded by the
   verif hooks (reg / wbeg / wend / disp / del, ordered by the global sequence counter taken inside the
   protecting lock) and by the harness, which is the environment (cancel, reply, pnotify, pcall, stray,
   pong, ret), must be behaviours of JsonRpc.  One line of c18trace.ndjson = one case:

     {"id": n, "eager": bool, "regnum": [k1..kNC], "lazy": [callers], "ev": [ event, ... ]}   (+ harness notes: timedout, hang)
     event = {"e": kind, "w": who, "id": typed id, "found": bool, "failed": bool, "pend": [typed ids], "res": r}

   who: the caller 1..NC whose goroutine is inside the critical section (the harness knows its goroutines),
   notifier 11.., run loop 0.  Ids are the REAL ids, typed: [t |-> "num"|"str", v |-> text, n |-> value].
   Every event is matched with the spec action of the same critical section and its logged fields are
   compared with the model's state: the id a call registers / writes / deletes is the id the model's counter
   gave it and is not pending when it is registered (UniqueIds); the pending map has exactly the model's keys;
   the id the run loop looks up or answers a call of the peer with is the id the peer wrote, with its type
   (IdTypePreserved); Call returns the marker of its own request (Matched).

   The steps without a hook (id allocation, header/body bytes, take, send, the select) are silent steps.
   The id allocation has no hook: regnum[c] is the number in c's reg event, and Alloc(c) is taken exactly when
   the model's counter is about to produce that number (allocation commutes with everything else, so taking it
   as early as possible loses no behaviour).  A case is validated either with every interleaving of the other
   silent steps (eager = FALSE) or, for the bursts of many concurrent callers, with each silent step taken as
   soon as it is enabled (eager = TRUE): whdr/wbody/take/send/recv only enable other steps, except for callers
   that are cancelled in the case ("lazy"), whose silent steps stay free.  A case rejected in eager mode is
   validated again with all interleavings before it is reported.  A case is accepted when some interleaving
   consumes all its events (ACCEPT line); a case without an ACCEPT line is behaviour of the real code that
   the spec forbids.  *)
EXTENDS JsonRpc

Trace == ndJsonDeserialize("c18trace.ndjson")

VARIABLES case, i, np     \* np: pong events consumed
tvars == <<case, i, np>>

SetOf(s) == {s[k] : k \in 1..Len(s)}
Ev == Trace[case].ev
RegNum(c) == Trace[case].regnum[c]
Shift == Trace[case].shift          \* result kinds of this case: KindAt(Shift, marker)
LazyCallers == SetOf(Trace[case].lazy)

\* the caller whose reg event carries the number the counter produces next
AllocDue == {c \in Callers : pc[c] = "idle" /\ RegNum(c) = seq + 1}

FreeSilentActs == {"whdr", "wbody", "refuse", "recv", "cancelled", "take", "send"}
FreeSilent == \E l \in {x \in Labels : x.a \in FreeSilentActs} : Do(l)

\* eager mode: silent steps that are taken as soon as they are enabled ...
EagerNow == {Lab("whdr", w) : w \in {x \in Writers : pc[x] = "hdr" /\ x \notin LazyCallers}}
            \cup {Lab("wbody", w) : w \in {x \in Writers : pc[x] = "body"}}
            \cup {Lab("take", m) : m \in {x \in Callers \cup {0, STRAY} : rd.pc = "read" /\ inq # <<>> /\ Head(inq).tok = x}}
            \cup {Lab("send", m) : m \in {x \in Callers \cup {0, STRAY} : rd.pc = "send" /\ rd.tok = x /\ CanSend(rd.to)}}
            \cup {Lab("recv", c) : c \in {x \in Callers : pc[x] = "wait" /\ chan[x] # <<>> /\ x \notin LazyCallers}}
\* ... and those that stay free (a cancelled caller may see its context first)
LazySilent == \E l \in {x \in Labels : x.a \in {"whdr", "refuse", "recv", "cancelled"} /\ x.w \in LazyCallers} : Do(l)

EventStep(e) ==
    CASE e.e = "reg"    -> /\ e.id \notin PendIds                 \* a call registers an id that is not pending
                           /\ Do(Lab("reg", e.w)) /\ e.id = MyId(e.w) /\ PendIds' = SetOf(e.pend)
      [] e.e = "wbeg"   -> /\ Do(Lab("acq", e.w))
                           /\ (e.w \in Callers => e.id = MyId(e.w))
                           /\ (e.w = Rd => e.id = rd.id)           \* the response to the peer's call carries the id it came with
      [] e.e = "wend"   -> Do(Lab("rel", e.w)) /\ e.failed = (e.w \in Callers /\ werr[e.w])
      [] e.e = "disp"   -> /\ rd.pc = "lookup" /\ e.id = rd.id     \* the id looked up is the id the peer wrote, with its type
                           /\ ReaderLookup /\ e.found = (rd.id \in PendIds) /\ PendIds = SetOf(e.pend)
      [] e.e = "del"    -> Do(Lab("del", e.w)) /\ e.id = MyId(e.w) /\ PendIds' = SetOf(e.pend)
      [] e.e = "cancel" -> IF pc[e.w] = "done" \/ cancelled[e.w] THEN UNCHANGED vars ELSE Do(Lab("cancel", e.w))
      [] e.e = "reply"  -> /\ Do(Lab("reply", e.w)) /\ e.id = MyId(e.w)   \* the request the peer answers carried the registered id
                           /\ e.k = KindAt(Shift, e.w)                  \* ... and is answered with the kind of result the spec gives it
      [] e.e = "pnotify" -> Do(Lab("pnotify", 0))
      [] e.e = "pcall"  -> \E k \in 1..Len(PeerCallIdSeq) : PeerCallIdSeq[k] = e.id /\ Do(Lab("pcall", k))
      [] e.e = "stray"  -> \E k \in 1..Len(StrayIdSeq) : StrayIdSeq[k] = e.id /\ Do(Lab("stray", k))
      [] e.e = "pong"   -> /\ np < Len(pongs) /\ pongs[np + 1] = e.id /\ UNCHANGED vars   \* what the peer received
                           /\ e.k = KindAt(Shift, np + 1)      \* the handler's j-th answer arrives with its kind (null stays "result":null)
      [] e.e = "ret"    -> /\ pc[e.w] = "done" /\ result[e.w] = e.res /\ UNCHANGED vars
                           /\ (e.res >= 1 => e.k = KindAt(Shift, e.res))   \* Call hands over the kind of result the response carried
      [] OTHER          -> FALSE

Consume == /\ i <= Len(Ev) /\ EventStep(Ev[i]) /\ i' = i + 1 /\ case' = case
           /\ np' = IF Ev[i].e = "pong" THEN np + 1 ELSE np

TraceInit == Init /\ case \in 1..Len(Trace) /\ i = 1 /\ np = 0
TraceNext ==
    IF AllocDue # {} THEN \E c \in AllocDue : Do(Lab("alloc", c)) /\ UNCHANGED tvars
    ELSE IF ~Trace[case].eager THEN Consume \/ (i <= Len(Ev) /\ FreeSilent /\ UNCHANGED tvars)
    ELSE IF EagerNow # {} THEN \E l \in EagerNow : Do(l) /\ UNCHANGED tvars
    ELSE Consume \/ (i <= Len(Ev) /\ LazySilent /\ UNCHANGED tvars)

Accept == (i = Len(Ev) + 1) => PrintT(<<"ACCEPT", ToJson([id |-> Trace[case].id])>>)
\* diagnostic run over rejected cases: how far does any interleaving get?
\* (one line per case and event index: TLC register `case` holds the highest index printed so far; one worker)
ASSUME \A k \in 1..Len(Trace) : TLCSet(k, 0)
Progress == IF i > TLCGet(case) THEN TLCSet(case, i) /\ PrintT(<<"AT", ToJson([id |-> Trace[case].id, i |-> i])>>) ELSE TRUE
=============================================================================
