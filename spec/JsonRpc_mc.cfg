\* C18 conn: design check (safety): all interleavings of callers (id allocation, pending map), notifiers, run loop, peer and cancellations.
CONSTANTS
  NC = 2
  NN = 1
  MaxPN = 1
  MaxPC = 0
  MaxStray = 0
  UseWriteMu = TRUE
  ChanCap = 1
  RegisterFirst = TRUE
  AtomicAlloc = TRUE
  IdDecode = "strict"
  IdVocab = "small"
  KindShift = 0
  NullResult = "ok"
INIT Init
NEXT Next
INVARIANTS TypeOK Matched NoInventedResponse UniqueIds PendingIsMap PendingOwned IdTypePreserved DispatchedToOwner PeerCallsEchoed FramesNeverInterleave MutexOK ReaderNeverBlocks ReaderAlive PendingExact RegisteredBeforeSending PendingEmptyAtQuiescence
CHECK_DEADLOCK FALSE
