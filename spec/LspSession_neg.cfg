\* LspSession: defective design (DidOpen keeps the preloaded copy), must be rejected
CONSTANTS
  Docs = {"hello", "other"}
  Texts = {"t1", "t2", "t3"}
  OpenRule = "keepPreloaded"
  HistLen = 6
INIT Init
NEXT Next
VIEW View
INVARIANTS ServerTracksEditor
PROPERTIES Independent
CHECK_DEADLOCK FALSE
