------------------------------ MODULE MCFraming ------------------------------
(* Bounded model-checking instance of Framing: short bodies (the reader does not look inside a body,
   so its length only scales the state space), every variant, every truncation point, every chunking
   built from chunks of 1..ChunkMax bytes or "the rest".                                          *)
EXTENDS Framing
SmallMsgs == << [kind |-> "call",     idk |-> "num",  id |-> [t |-> "num", v |-> "7", n |-> 7], pay |-> "object", blen |-> 3,  rlen |-> 3],
                [kind |-> "notify",   idk |-> "none", id |-> [t |-> "none", v |-> "", n |-> NoNum], pay |-> "string", blen |-> 5,  rlen |-> 4],    \* one 2-byte character
                \* a 4-byte character: two-digit length; its id is the STRING "7"
                \* ... and its result is JSON null: the successful answer to a void request (LSP shutdown)
                [kind |-> "response", idk |-> "str",  id |-> [t |-> "str", v |-> "7", n |-> 7], pay |-> "null", blen |-> 12, rlen |-> 9] >>
VariantsDef == AllVariants
=============================================================================
