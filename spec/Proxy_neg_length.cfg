\* C20 negative config: Content-Length not updated after the rewrite: TLC must reject LengthMatchesBody.
CONSTANTS
  UnsupportedRule = "pass"
  CspRule = "policylist"
  LengthRule = "forget"
  EmitCases = FALSE
INIT Init
NEXT Next
INVARIANTS TypeOK PassThroughIsIdentity HtmlGetsExactlyOneScript LengthMatchesBody EncodingHeaderDescribesBody
CHECK_DEADLOCK FALSE
