\* C03 VAL: real outputs validated against the spec's consumer (StrVariant irrelevant: nothing is encoded here).
CONSTANTS
  StrVariant = "dollar"
  JsonVariant = "std"
  HtmlVariant = "std"
  Positions <- PositionsDef
  EmitEdges = FALSE
  GenTokens <- GenTokensDef
  LeafTokens <- LeafTokensDef
  KeyTokens <- KeyTokensDef
  UnencMode = "empty"
  MaxTok = 0
INIT TInit
NEXT TNext
VIEW TView
INVARIANTS TDone
CHECK_DEADLOCK FALSE
