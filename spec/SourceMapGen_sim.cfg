\* C07 case generator, random cases from the full grid (simulation).
CONSTANTS
  MaxLines = 3
  MaxRunes = 4
  Widths = {1, 2, 3, 4}
  Pres <- PresAll
INIT Init
NEXT SimNext
INVARIANTS EmitCase
CHECK_DEADLOCK FALSE
