\* C17: design check -- the implementation layer (as repaired) tracks the editor's buffer.
CONSTANTS
  MaxLen = 4
  Texts <- TextsDef
  WholeDocRule = "and"
  EmitEdges = FALSE
INIT Init
NEXT BoundedNext
VIEW View
INVARIANTS TypeOK ServerTracksEditor LinesHaveNoNewline SplitJoin
CHECK_DEADLOCK FALSE
