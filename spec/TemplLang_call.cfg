\* Component family: calls with and without child blocks, children slots, nested.
CONSTANTS
  MaxNodes = 4
  MaxDepth = 4
  Kinds = {"text", "el", "call", "callb", "slot", "expr"}
  InlineNames = {"span"}
  BlockNames = {}
  VoidNames = {}
  AttrChoices <- AttrChoicesNone
  WsChoices = {"", "v"}
  Words = {"w1"}
  Exprs = {"E1"}
  Conds = {"C1", "C2"}
  Lists = {"L1"}
  EnvSeq <- EnvSeqOne
INIT Init
NEXT Next
VIEW View
INVARIANTS TypeOK MustOnlyBetweenInline DenotedDocumentsBalanced EmitProgram
CHECK_DEADLOCK FALSE
