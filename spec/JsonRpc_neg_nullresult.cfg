\* C18 conn NEGATIVE config: DecodeMessage rejects a response whose result is JSON null -- the run loop dies (must violate ReaderAlive; the waiting call never gets its response).
CONSTANTS
  NC = 2
  NN = 1
  MaxPN = 1
  MaxPC = 0
  MaxStray = 0
  UseWriteMu = TRUE
  ChanCap = 1
  RegisterFirst = TRUE
  AtomicAlloc = TRUE
  IdDecode = "strict"
  IdVocab = "small"
  KindShift = 0
  NullResult = "rejected"
INIT Init
NEXT Next
INVARIANTS TypeOK Matched ReaderAlive
CHECK_DEADLOCK FALSE
