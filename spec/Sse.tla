--------------------------------- MODULE Sse ---------------------------------
(* C19 -- live-reload broadcast (cmd/templ/generatecmd/sse/server.go) is reliable and survives
   client churn.

   Processes, one action per critical step of the Go code:
     handler of client c   ServeHTTP: Register (lock; requests[id]=events; unlock) -> loop (select on
                           {timer, events, ctx.Done}) <-> writing (Fprintf+Flush, may stall: slow reader)
                           -> exiting (ctx.Done seen in the select / write error) -> Unregister (deferred:
                           lock; delete; close; unlock) -> gone
     broadcaster           Send: BLock (lock) ; BSpawn (one delivery goroutine per registered client; unlock)
     delivery (c, b)       spawned -> Run (reaches `f <- event`) -> sending -> Deliver (rendezvous with the
                           handler's select) ; a send on a closed channel -- also one that is already
                           blocked when the channel gets closed -- is the Panic state (kills the process)
     environment           Cancel(c): the browser goes away (request context cancelled, writes fail)

   Design selects what the handler does to its channels on exit and how Send delivers:
     "close"      as coded at the pinned commit: close(events) on exit
     "noclose"    naive repair: never close, delivery is a bare send          (leaks a blocked goroutine)
     "done"       repair: per-client done channel closed on exit; delivery = select {events<-e | <-done}
     "lockedsend" plausible mutant: Send delivers inline while holding m      (broadcaster blocks)
     "serial"     plausible mutant of "done": ONE goroutine per broadcast delivers to the clients one after the
                  other (head-of-line blocking behind a stalled client)
     "timeoutdrop" plausible mutant of "done": a delivery gives up after a while although its client is
                  still registered and connected (a slow reader misses the reload for good)              *)
EXTENDS Integers, FiniteSets, Sequences, TLC, Json

CONSTANTS Clients,     \* set of strings, e.g. {"c1","c2"}
          NB,          \* number of broadcasts (issued back to back by one broadcaster)
          Design,      \* "close" | "noclose" | "done" | "lockedsend" | "serial" | "timeoutdrop"
          MaxPings,    \* timer ticks per handler explored by MC (the first tick is at time 0)
          PingFirst,   \* TRUE (replay models): the time-0 ping is folded into Register, no later ticks
          NoRaces,     \* TRUE (replay models): do not enter states in which a select has two ready cases
          ServerCuts,  \* FALSE: as designed. TRUE (negative config): the serving layer (http.Server timeouts, ...) ends the
                       \*        stream of a client whose browser is still there
          Slow,        \* clients whose writes may stall for ever (no fairness on their WriteDone)
          EmitEdges

VARIABLES pc, cancelled, wr, pings, requests, ch, done, dl, got, targets, m, bpc, sent, bcur, panicked, lbl

vars == <<pc, cancelled, wr, pings, requests, ch, done, dl, got, targets, m, bpc, sent, bcur, panicked>>

B == 1..NB
None == "none"
WNone == 0    \* wr[c]: what handler c is writing: nothing, the ping, or broadcast b \in B
WPing == -1

Init == /\ pc = [c \in Clients |-> "new"]
        /\ cancelled = [c \in Clients |-> FALSE]
        /\ wr = [c \in Clients |-> WNone]
        /\ pings = [c \in Clients |-> 0]
        /\ requests = {}
        /\ ch = [c \in Clients |-> None]
        /\ done = [c \in Clients |-> FALSE]
        /\ dl = [c \in Clients |-> [b \in B |-> None]]
        /\ got = [c \in Clients |-> {}]
        /\ targets = [b \in B |-> {}]
        /\ m = "free"
        /\ bpc = "idle"
        /\ sent = 0
        /\ bcur = None
        /\ panicked = FALSE
        /\ lbl = [a |-> "init"]

Connected(c) == pc[c] \in {"loop", "writing"}
Closes == Design = "close"
HasDone == Design \in {"done", "lockedsend", "serial", "timeoutdrop"}
\* a STALLED client: connected, its handler blocked in a write (the browser does not drain its socket), its request
\* context not cancelled -- it neither receives from its channel nor closes done. For c \in Slow this may last for ever.
Stalled(c) == pc[c] = "writing" /\ ~cancelled[c]

-----------------------------------------------------------------------------
(* handler of client c *)

\* s.m.Lock(); events := make(chan event); s.requests[id] = events; s.m.Unlock(); timer := time.NewTimer(0)
Register(c) ==
    /\ pc[c] = "new" /\ m = "free"
    /\ requests' = requests \cup {c}
    /\ ch' = [ch EXCEPT ![c] = "open"]
    /\ IF PingFirst
       THEN /\ pc' = [pc EXCEPT ![c] = "writing"] /\ wr' = [wr EXCEPT ![c] = WPing]
            /\ pings' = [pings EXCEPT ![c] = 1]
       ELSE /\ pc' = [pc EXCEPT ![c] = "loop"] /\ UNCHANGED <<wr, pings>>
    /\ lbl' = [a |-> "reg", c |-> c]
    /\ UNCHANGED <<cancelled, done, dl, got, targets, m, bpc, sent, bcur, panicked>>

\* case <-timer.C: Fprintf(w, "...ping...")
Ping(c) ==
    /\ ~PingFirst /\ pc[c] = "loop" /\ pings[c] < MaxPings
    /\ pc' = [pc EXCEPT ![c] = "writing"] /\ wr' = [wr EXCEPT ![c] = WPing]
    /\ pings' = [pings EXCEPT ![c] = @ + 1]
    /\ lbl' = [a |-> "ping", c |-> c]
    /\ UNCHANGED <<cancelled, requests, ch, done, dl, got, targets, m, bpc, sent, bcur, panicked>>

\* case e := <-events: the rendezvous with delivery goroutine (c, b); then Fprintf(w, event)
Deliver(c, b) ==
    /\ pc[c] = "loop" /\ dl[c][b] = "sending" /\ ch[c] = "open"
    /\ pc' = [pc EXCEPT ![c] = "writing"] /\ wr' = [wr EXCEPT ![c] = b]
    /\ dl' = [dl EXCEPT ![c][b] = "delivered"]
    /\ lbl' = [a |-> "deliver", c |-> c, b |-> b]
    /\ UNCHANGED <<cancelled, pings, requests, ch, done, got, targets, m, bpc, sent, bcur, panicked>>

\* the write (and flush) returns without error: the browser has the bytes
WriteDone(c) ==
    /\ pc[c] = "writing"
    /\ pc' = [pc EXCEPT ![c] = "loop"] /\ wr' = [wr EXCEPT ![c] = WNone]
    /\ got' = [got EXCEPT ![c] = IF wr[c] \in B THEN @ \cup {wr[c]} ELSE @]
    /\ lbl' = [a |-> "wdone", c |-> c, w |-> wr[c]]
    /\ UNCHANGED <<cancelled, pings, requests, ch, done, dl, targets, m, bpc, sent, bcur, panicked>>

\* the write fails because the connection is gone: http.Error; return
WriteFail(c) ==
    /\ pc[c] = "writing" /\ cancelled[c]
    /\ pc' = [pc EXCEPT ![c] = "exiting"] /\ wr' = [wr EXCEPT ![c] = WNone]
    /\ lbl' = [a |-> "wfail", c |-> c]
    /\ UNCHANGED <<cancelled, pings, requests, ch, done, dl, got, targets, m, bpc, sent, bcur, panicked>>

\* the browser disconnects: r.Context() is cancelled
Cancel(c) ==
    /\ Connected(c) /\ ~cancelled[c]
    /\ cancelled' = [cancelled EXCEPT ![c] = TRUE]
    /\ lbl' = [a |-> "cancel", c |-> c]
    /\ UNCHANGED <<pc, wr, pings, requests, ch, done, dl, got, targets, m, bpc, sent, bcur, panicked>>

\* NOT part of the design (ServerCuts = FALSE): the server side ends a healthy client's never-ending response -- e.g. an
\* absolute per-request write deadline -- which cancels the request context although the browser is still connected
ServerCut(c) ==
    /\ ServerCuts /\ Connected(c) /\ ~cancelled[c]
    /\ cancelled' = [cancelled EXCEPT ![c] = TRUE]
    /\ lbl' = [a |-> "servercut", c |-> c]
    /\ UNCHANGED <<pc, wr, pings, requests, ch, done, dl, got, targets, m, bpc, sent, bcur, panicked>>

\* case <-r.Context().Done(): break loop
ExitCtx(c) ==
    /\ pc[c] = "loop" /\ cancelled[c]
    /\ pc' = [pc EXCEPT ![c] = "exiting"]
    /\ lbl' = [a |-> "exitctx", c |-> c]
    /\ UNCHANGED <<cancelled, wr, pings, requests, ch, done, dl, got, targets, m, bpc, sent, bcur, panicked>>

\* deferred: s.m.Lock(); delete(s.requests, id); close(events) [or close(done)]; s.m.Unlock()
\* closing a channel on which a delivery goroutine is blocked makes that goroutine panic
Unregister(c) ==
    /\ pc[c] = "exiting" /\ m = "free"
    /\ requests' = requests \ {c}
    /\ pc' = [pc EXCEPT ![c] = "gone"]
    /\ ch' = [ch EXCEPT ![c] = IF Closes THEN "closed" ELSE @]
    /\ done' = [done EXCEPT ![c] = IF HasDone THEN TRUE ELSE @]
    /\ panicked' = (Closes /\ \E b \in B : dl[c][b] = "sending")
    /\ lbl' = [a |-> "unreg", c |-> c, panic |-> panicked', branch |-> "Unregister.CloseWithBlockedSender"]
    /\ UNCHANGED <<cancelled, wr, pings, dl, got, targets, m, bpc, sent, bcur>>

-----------------------------------------------------------------------------
(* broadcaster: Send *)
BLock ==
    /\ bpc = "idle" /\ sent < NB /\ m = "free"
    /\ m' = "b" /\ bpc' = "locked"
    /\ lbl' = [a |-> "block", b |-> sent + 1]
    /\ UNCHANGED <<pc, cancelled, wr, pings, requests, ch, done, dl, got, targets, sent, bcur, panicked>>

\* for _, f := range s.requests { go func(f) { f <- event }(f) } ; unlock
BSpawn ==
    /\ bpc = "locked"
    /\ LET b == sent + 1 IN
       /\ targets' = [targets EXCEPT ![b] = requests]
       /\ sent' = b
       /\ IF Design = "lockedsend"
          THEN /\ dl' = [c \in Clients |-> IF c \in requests THEN [dl[c] EXCEPT ![b] = "queued"] ELSE dl[c]]
               /\ bpc' = "inline" /\ UNCHANGED m
          ELSE /\ dl' = [c \in Clients |-> IF c \in requests
                                             THEN [dl[c] EXCEPT ![b] = IF Design = "serial" THEN "queued" ELSE "spawned"]
                                             ELSE dl[c]]
               /\ bpc' = "idle" /\ m' = "free"
       /\ lbl' = [a |-> "bspawn", b |-> b, targets |-> requests]
    /\ UNCHANGED <<pc, cancelled, wr, pings, requests, ch, done, got, bcur, panicked>>

\* "lockedsend" only: the broadcaster itself performs the sends, one client after the other, holding m
BPick(c) ==
    /\ bpc = "inline" /\ bcur = None /\ dl[c][sent] = "queued"
    /\ bcur' = c
    /\ lbl' = [a |-> "bpick", c |-> c]
    /\ UNCHANGED <<pc, cancelled, wr, pings, requests, ch, done, dl, got, targets, m, bpc, sent, panicked>>
BInline ==
    /\ bpc = "inline" /\ bcur # None /\ pc[bcur] = "loop"
    /\ pc' = [pc EXCEPT ![bcur] = "writing"] /\ wr' = [wr EXCEPT ![bcur] = sent]
    /\ dl' = [dl EXCEPT ![bcur][sent] = "delivered"]
    /\ bcur' = None
    /\ lbl' = [a |-> "binline", c |-> bcur]
    /\ UNCHANGED <<cancelled, pings, requests, ch, done, got, targets, m, bpc, sent, panicked>>
BUnlock ==
    /\ bpc = "inline" /\ bcur = None /\ \A c \in Clients : dl[c][sent] # "queued"
    /\ bpc' = "idle" /\ m' = "free"
    /\ lbl' = [a |-> "bunlock"]
    /\ UNCHANGED <<pc, cancelled, wr, pings, requests, ch, done, dl, got, targets, sent, bcur, panicked>>

-----------------------------------------------------------------------------
(* delivery goroutine (c, b) *)

\* the goroutine reaches `f <- event`: blocks there, or panics at once if the channel is already closed
Run(c, b) ==
    /\ dl[c][b] = "spawned"
    /\ IF ch[c] = "closed"
       THEN /\ panicked' = TRUE /\ UNCHANGED dl
       ELSE /\ dl' = [dl EXCEPT ![c][b] = "sending"] /\ UNCHANGED panicked
    /\ lbl' = [a |-> "run", c |-> c, b |-> b, panic |-> panicked', branch |-> "Run.SendOnClosedChannel"]
    /\ UNCHANGED <<pc, cancelled, wr, pings, requests, ch, done, got, targets, m, bpc, sent, bcur>>

\* "done" design: case <-done
Abandon(c, b) ==
    /\ Design \in {"done", "serial", "timeoutdrop"} /\ dl[c][b] = "sending" /\ done[c]
    /\ dl' = [dl EXCEPT ![c][b] = "abandoned"]
    /\ lbl' = [a |-> "abandon", c |-> c, b |-> b]
    /\ UNCHANGED <<pc, cancelled, wr, pings, requests, ch, done, got, targets, m, bpc, sent, bcur, panicked>>

\* "serial" design: the single delivery goroutine of broadcast b turns to its next client only when it is through
\* with the previous one
SerialPick(c, b) ==
    /\ Design = "serial" /\ dl[c][b] = "queued"
    /\ \A o \in Clients : dl[o][b] \notin {"spawned", "sending"}
    /\ dl' = [dl EXCEPT ![c][b] = "spawned"]
    /\ lbl' = [a |-> "serialpick", c |-> c, b |-> b]
    /\ UNCHANGED <<pc, cancelled, wr, pings, requests, ch, done, got, targets, m, bpc, sent, bcur, panicked>>

\* "timeoutdrop" design: case <-time.After(d): the goroutine stops waiting for a handler that is busy
\* (stalled in a write for longer than d) and the event is lost although the client is still there
TimeoutDrop(c, b) ==
    /\ Design = "timeoutdrop" /\ dl[c][b] = "sending" /\ pc[c] = "writing"
    /\ dl' = [dl EXCEPT ![c][b] = "dropped"]
    /\ lbl' = [a |-> "timeoutdrop", c |-> c, b |-> b]
    /\ UNCHANGED <<pc, cancelled, wr, pings, requests, ch, done, got, targets, m, bpc, sent, bcur, panicked>>

-----------------------------------------------------------------------------
(* a handler's select with two or more ready cases picks at random: not reproducible by a driver *)
Ready(c) == (IF cancelled[c] THEN 1 ELSE 0)
            + Cardinality({b \in B : dl[c][b] = "sending" /\ ch[c] = "open"})
            + (IF ~PingFirst /\ pings[c] < MaxPings THEN 1 ELSE 0)
Racy == \E c \in Clients : pc[c] = "loop" /\ Ready(c) >= 2

Step == \/ \E c \in Clients : \/ Register(c) \/ Ping(c) \/ WriteDone(c) \/ WriteFail(c)
                              \/ Cancel(c) \/ ServerCut(c) \/ ExitCtx(c) \/ Unregister(c) \/ BPick(c)
        \/ \E c \in Clients, b \in B : Deliver(c, b) \/ Run(c, b) \/ Abandon(c, b) \/ TimeoutDrop(c, b) \/ SerialPick(c, b)
        \/ BLock \/ BSpawn \/ BInline \/ BUnlock

\* a panic kills the process: nothing happens afterwards
Next == ~panicked /\ Step /\ (NoRaces => ~Racy')

Fairness ==
    /\ WF_vars(BSpawn) /\ WF_vars(BUnlock) /\ WF_vars(BInline)
    /\ \A c \in Clients : /\ WF_vars(Unregister(c)) /\ SF_vars(ExitCtx(c)) /\ WF_vars(WriteFail(c))
                          /\ WF_vars(BPick(c))
    /\ \A c \in Clients \ Slow : WF_vars(WriteDone(c))
    /\ \A c \in Clients, b \in B : WF_vars(Run(c, b)) /\ SF_vars(Deliver(c, b)) /\ WF_vars(Abandon(c, b))
                                    /\ WF_vars(SerialPick(c, b))

Spec == Init /\ [][Next]_vars /\ Fairness

-----------------------------------------------------------------------------
(* properties *)
TypeOK ==
    /\ pc \in [Clients -> {"new", "loop", "writing", "exiting", "gone"}]
    /\ requests \subseteq Clients
    /\ m \in {"free", "b"} /\ sent \in 0..NB
    /\ \A c \in Clients, b \in B : dl[c][b] \in {None, "spawned", "queued", "sending", "delivered", "abandoned", "dropped"}

\* the registry is exactly the set of handlers between Register and Unregister
RegistryExact == requests = {c \in Clients : pc[c] \in {"loop", "writing", "exiting"}}

\* C19: churn never crashes the watch process
NoPanic == ~panicked

\* C19: the broadcaster waits for nothing but m, and m is never held across a blocking operation
BroadcasterNeverBlocks == bcur # None => pc[bcur] = "loop"

\* C19, independence of deliveries: a client that is ready to receive is not kept waiting by any other client --
\* whatever the others do (stalled in a write for ever, on their way out, gone), the next step of every pending
\* delivery to a ready client is enabled. A replay binds this directly: the real code must take that step.
OthersUnaffected ==
    \A c \in Clients, b \in B :
        (pc[c] = "loop" /\ ch[c] = "open" /\ dl[c][b] \in {"spawned", "queued", "sending"} /\ ~panicked)
            => (ENABLED Run(c, b) \/ ENABLED Deliver(c, b) \/ (ENABLED BInline /\ bcur = c) \/ ENABLED BPick(c)
                \/ ENABLED SerialPick(c, b))

\* C19: no delivery goroutine is left blocked for ever once its client is gone
NoLeak == \A c \in Clients, b \in B :
              (pc[c] = "gone" /\ dl[c][b] = "sending" /\ ~panicked) => ENABLED Abandon(c, b)

\* every client registered when the broadcast took m gets a delivery goroutine, nobody else does
SpawnedAreTargets == \A c \in Clients, b \in B : (b <= sent) => ((dl[c][b] # None) <=> (c \in targets[b]))

\* C19, safety form of Delivered that a replay can observe: once nothing is in flight any more (no pending
\* delivery, no handler in a write or on its way out, broadcaster idle), every client that was registered
\* when a broadcast took m and whose browser never went away has that broadcast
Quiescent == /\ ~panicked /\ bpc = "idle"
             /\ \A c \in Clients : pc[c] \in {"new", "loop", "gone"}
             /\ \A c \in Clients, b \in B : dl[c][b] \notin {"spawned", "queued", "sending"}
DeliveredAtQuiescence ==
    Quiescent => \A c \in Clients, b \in B : (c \in targets[b] /\ ~cancelled[c]) => b \in got[c]

\* C19: a client stays on the event stream for as long as its browser stays: the only step that cancels a client's
\* request context is the browser going away (Cancel). (Delivered alone would not notice: it excuses cancelled clients.)
\* The label variable names the action of every step, so this is an action property.
LiveClientStaysRegistered ==
    [][\A c \in Clients : (cancelled'[c] # cancelled[c]) => lbl'.a = "cancel"]_<<vars, lbl>>

\* liveness (under Fairness): a client registered at the broadcast and still connected receives it
Delivered == \A c \in Clients \ Slow, b \in B :
                 (c \in targets[b]) ~> (b \in got[c] \/ cancelled[c])
\* the same with a stalled client named: while some client is stalled, every OTHER client registered at the broadcast
\* still gets it (fairness only for the others: no WriteDone fairness for Slow clients)
DeliveredDespiteStalledClient ==
    \A c \in Clients \ Slow, b \in B :
        (c \in targets[b] /\ \E s \in Slow : Stalled(s) /\ s \in targets[b]) ~> (b \in got[c] \/ cancelled[c])
\* Send always returns
SendReturns == (bpc # "idle") ~> (bpc = "idle")
\* every delivery goroutine of a departed client ends
NoLeakLive == \A c \in Clients, b \in B :
                 (pc[c] = "gone" /\ dl[c][b] \in {"spawned", "sending"}) ~> (dl[c][b] \in {"delivered", "abandoned"})

-----------------------------------------------------------------------------
(* edge emission for replay *)
State == [pc |-> pc, cancelled |-> cancelled, wr |-> wr, requests |-> requests,
          ch |-> ch, done |-> done, dl |-> dl, got |-> got, sent |-> sent, bpc |-> bpc, panicked |-> panicked]
View == vars
Emit == IF EmitEdges
        THEN PrintT(<<"EDGE", ToJson([from |-> State, lbl |-> lbl', to |-> State'])>>)
        ELSE TRUE
=============================================================================
