//go:build !c01forms

package main

// forms returns the literal-valued expression forms generated at check time (checks/C01.py writes forms_gen.templ and
// forms_gen.go with the build tag c01forms into the scratch copy of this package); without them there are none.
func forms() []FormCase { return nil }
