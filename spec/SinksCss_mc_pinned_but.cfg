\* C05 as coded at the pin, every break of OneDeclaration goes through one of the known root causes
CONSTANTS
  Classes <- ClassesDef
  Contexts <- ContextsDef
  RegularExtra <- NoExtra
  AngleGuard = TRUE
  FontFix = FALSE
  BgFix = FALSE
  TrackAttribution = TRUE
  AttrEscapes = 2
  EmitEdges = FALSE
INIT Init
NEXT Next
VIEW View

INVARIANTS TypeOK OneDeclarationBut InnocuousOnReject
CHECK_DEADLOCK FALSE
