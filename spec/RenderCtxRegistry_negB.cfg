\* C12 negative config on B (Variant is replaced by the check): TLC must reject it.
CONSTANTS
  Ctxs <- Ctx2
  Modes = {"plain", "mw", "fresh"}
  Scripts = {"s1"}
  Classes = {"k1"}
  BlockHandles = {"h1"}
  FixedHandles = {"g1"}
  RegSeq <- RegK1
  OnSeqs <- OnSeqsCore
  ClassExprs <- ClassExprsCore
  Repaired = {"KvCompName", "SliceKVRules"}
  Variant = "packageState"
  NonceCtxs = {"c1", "c2"}
  MaxNonces = 1
  MaxSteps = 99
  EmitEdges = FALSE
INIT Init
NEXT Next
VIEW View
INVARIANTS TypeOK RegistryMatchesDocument
PROPERTIES AtMostOnce DefBeforeFirstUse EveryUseHasCallOrName MiddlewareNeverInlined StylesheetServesRegistered ContextsIndependent NonceKeepsRegistry
CHECK_DEADLOCK FALSE
