#!/usr/bin/env python3
"""C20 -- the live-reload proxy alters HTML responses only by appending the reload script (spec/Proxy.tla).

MC   : TLC checks PassThroughIsIdentity, HtmlGetsExactlyOneScript, DocumentOnlyAppendedTo, LengthMatchesBody and
       EncodingHeaderDescribesBody on the response pipeline for the whole abstract configuration space
       (content type x encoding x request kind x skip marker x CSP shape x body shape x client
       Accept-Encoding = 15488 configurations; a document is a skeleton plus items -- raw-text, RCDATA and noscript
       elements in head/body -- whose fate under parse/append/render the spec decides; a CSP is header lines > comma-separated policies > directives >
       sources, the nonce extraction is transcribed at that level). Negative configs that TLC must reject: the
       pipeline as coded at the pinned commit (an unsupported Content-Encoding falls through to the rewrite), the
       nonce extraction as coded (first header line only, policy lists not split), parsing with scripting disabled
       (noscript content becomes markup) and a forgotten Content-Length update.
GEN  : what the tree does with an unsupported encoding and with a script nonce in the second CSP header line is
       probed on the real proxy and selects the spec constants; TLC then prints every configuration with the predicted response and EVERY one is replayed end
       to end (httptest backend -> real proxy.New handler -> HTTP client without transparent decompression) at
       several body sizes (0, ~1 KiB, around 4 KiB / 32 KiB / 64 KiB boundaries, 3 MiB for a seeded subset);
       the property is evaluated on the real response: byte identity for pass-through, x/net/html DOM equality
       plus exactly one reload script as last child of the first body (nonce from script-src) for rewrites,
       declared length = bytes received, Content-Encoding header decodes the body.
"""
import json, os, sys, threading
sys.path.insert(0, os.path.join(os.path.dirname(os.path.abspath(__file__)), "..", "lib"))
import vlib


def cfg_with(name, **subst):
    import re
    text = open(os.path.join(vlib.SPEC, name)).read()
    for k, v in subst.items():
        text, n = re.subn(r"(?m)^(\s*%s\s*=\s*).*$" % k, lambda m: m.group(1) + v, text)
        if n != 1:
            raise vlib.InfraError("cfg %s: constant %s not found" % (name, k))
    return text


def main():
    ck = vlib.Check("C20", "model_checking")
    thorough = ck.tier == "thorough"

    # --- MC ----------------------------------------------------------------------------------------
    mc = vlib.tlc("Proxy", "Proxy_mc.cfg", workers=4, timeout=600)
    if not mc.ok:
        raise vlib.InfraError("Proxy model (repaired rule) violates %s: spec inconsistent" % mc.violated)
    ck.add_tlc(mc, "Proxy_mc (UnsupportedRule=pass, CspRule=policylist)")
    negs = {}
    neglist = (("Proxy_ascoded.cfg", "PassThroughIsIdentity"), ("Proxy_ascoded_csp.cfg", "HtmlGetsExactlyOneScript"),
               ("Proxy_ascoded_head.cfg", "HeadIsUntouched"), ("Proxy_ascoded_status.cfg", "HeadIsUntouched"), ("Proxy_ascoded_ctcase.cfg", "HtmlGetsExactlyOneScript"),
               ("Proxy_neg_noscripting.cfg", "DocumentOnlyAppendedTo"), ("Proxy_neg_length.cfg", "LengthMatchesBody"))
    negres, negerr = {}, []

    def negrun(cfg):
        try:
            negres[cfg] = vlib.tlc("Proxy", cfg, workers=1, timeout=300)
        except Exception as e:  # noqa
            negerr.append(e)
    ths = [threading.Thread(target=negrun, args=(cfg,)) for cfg, _ in neglist]   # independent small runs, side by side
    for t in ths:
        t.start()
    for t in ths:
        t.join()
    if negerr:
        raise negerr[0] if isinstance(negerr[0], vlib.InfraError) else vlib.InfraError(repr(negerr[0]))
    for cfg, inv in neglist:
        if negres[cfg].violated != inv:
            raise vlib.InfraError("negative config %s was not rejected with %s (got %s)" % (cfg, inv, negres[cfg].violated))
        negs[cfg] = inv
    ck.set("negative_configs_rejected", negs)

    # --- which rules does the tree implement? decided by the real proxy ------------------------------
    # (the probe and the self-test take their configurations -- including the CSP header structure -- from TLC)
    NCASES = 4 * 4 * 2 * 2 * 11 * 11 * 2 + 5 * 4 * 2 * 2 * 2 * 2 * 2 + 4 * 2 * 2 * 2 * 2 + 4 * 4 * 2 * 2   # GET product + HEAD + TEXT/HTML + 204 sub-spaces
    sc = vlib.scratch()

    def emit(rule, csprule, headrule, ctrule, statusrule, name):
        g = vlib.tlc("Proxy", "g.cfg", files={"g.cfg": cfg_with("Proxy_gen.cfg", UnsupportedRule='"%s"' % rule, CspRule='"%s"' % csprule,
                                                                 HeadRule='"%s"' % headrule, CtRule='"%s"' % ctrule,
                                                                 StatusRule='"%s"' % statusrule)},
                     workers=1, timeout=900)
        cs = g.tagged("CASE")
        if not g.ok or len(cs) != NCASES:
            raise vlib.InfraError("case emission incomplete: %d cases" % len(cs))
        path = os.path.join(sc, name)
        with open(path, "w") as fh:
            for c in cs:
                fh.write(json.dumps(c) + "\n")
        return g, cs, path

    binp = vlib.go_build("./c20", "c20")
    gen, cases, cpath = emit("pass", "policylist", "pass", "caseinsensitive", "pass", "cases0.ndjson")
    s = vlib.harness_results(ck, vlib.run([binp, "probe", cpath], check=False))
    rule, csprule, headrule, ctrule = s.get("rule"), s.get("csprule"), s.get("headrule"), s.get("ctrule")
    if rule not in ("pass", "rewrite") or csprule not in ("firstline", "policylist") or headrule not in ("pass", "rewrite") \
            or ctrule not in ("casesensitive", "caseinsensitive"):
        raise vlib.InfraError("probe: %r" % s)
    statusrule = s.get("statusrule")
    if statusrule not in ("pass", "rewrite"):
        raise vlib.InfraError("probe: %r" % s)
    ck.set("nobody_status_rule_of_tree", statusrule)
    vlib.log("tree answers a 204 labelled text/html (gzip) by:", statusrule, "-", s.get("statusdetail", ""))
    ck.set("head_rule_of_tree", headrule)
    ck.set("content_type_gate_of_tree", ctrule)
    vlib.log("tree answers HEAD for an html page by:", headrule, "-", s.get("headdetail", ""))
    vlib.log("tree's text/html gate is:", ctrule, "-", s.get("ctdetail", ""))
    ck.set("unsupported_encoding_rule_of_tree", rule)
    ck.set("csp_rule_of_tree", csprule)
    vlib.log("tree handles an unsupported Content-Encoding by:", rule, "-", s.get("detail", ""))
    vlib.log("tree looks for the script nonce in:", csprule, "-", s.get("cspdetail", ""))

    # --- binding self-test: corrupted predictions must be reported by the harness ---------------------
    st = vlib.harness_results(ck, vlib.run([binp, "selftest", cpath], check=False))
    selftest_failed = None
    if (st["a"], st["b"], st["c"], st["d"]) != ("PassThroughIsIdentity", "HtmlGetsExactlyOneScript", "HtmlGetsExactlyOneScript", ""):
        # the self-test goes through the real proxy: if the tree itself breaks the property the uncorrupted twin fails
        # too. Only a self-test failure on a tree where the replay finds nothing is a machinery problem.
        selftest_failed = st
    else:
        ck.set("binding_selftest", "3 corrupted predictions reported, the uncorrupted twin accepted")

    # --- GEN: every configuration, end to end --------------------------------------------------------
    if (rule, csprule, headrule, ctrule, statusrule) != ("pass", "policylist", "pass", "caseinsensitive", "pass"):
        gen, cases, cpath = emit(rule, csprule, headrule, ctrule, statusrule, "cases.ndjson")
    ck.add_tlc(gen, "Proxy_gen (case emission, UnsupportedRule=%s, CspRule=%s, HeadRule=%s, CtRule=%s)" % (rule, csprule, headrule, ctrule))
    p = vlib.run([binp, "cases", cpath, str(ck.seed), ck.tier], check=False, timeout=3000)
    s = vlib.harness_results(ck, p)
    if s["cases"] != len(cases) or s["cases_replayed"] != len(cases):
        raise vlib.InfraError("harness replayed %d of %d configurations" % (s["cases_replayed"], len(cases)))
    branches = set(s["per_branch"])
    need = {"Decide.SkipMarker", "Decide.NotHtml", "Decide.Rewrite",
            "Decide.UnsupportedEncodingPasses" if rule == "pass" else "Decide.UnsupportedEncodingFallsThrough"}
    if not need <= branches:
        raise vlib.InfraError("a branch of modifyResponse's decision was never exercised: %s" % sorted(need - branches))
    if not ck._nviol and (s["script_inserted_ok"] < 500 or s["passed_through_ok"] < 2000):
        raise vlib.InfraError("too few positive outcomes: %r" % s)
    ck.set("configurations", len(cases))
    ck.set("configurations_replayed", s["cases_replayed"])
    ck.set("exchanges", s["exchanges"])
    ck.set("script_inserted_ok", s["script_inserted_ok"])
    ck.set("passed_through_ok", s["passed_through_ok"])
    ck.set("failing_exchanges", s["fails"])
    ck.set("failing_by_invariant", s["per_invariant"])
    ck.set("exchanges_by_decision_branch", s["per_branch"])
    ck.set("max_body_bytes", s["max_body_bytes"])
    ck.set("traces_validated_against_impl", s["exchanges"])
    ck.set("exhaustive", True)
    ck.set("bounds", {"content_types": 5, "methods": "GET; HEAD x {full,empty} x {none,scriptsrc}", "upstream_status": "200; 204 sub-space (304: not replayable, Go's server strips its Content-Type)", "encodings": 4, "requests": 2, "skip_marker": 2, "csp_shapes": 11, "body_shapes": 11,
                      "accept_encoding": 2, "sizes": "0, ~1 KiB, 4095..4097, 32767..32769, 65536, 3 MiB (seeded subset), 4 MiB-1, 4 MiB+1, 8 MiB+1 for one rewritten configuration per supported encoding (thorough: 1 MiB..16 MiB around powers of two, 3 documents)"})
    ck.set("rule", "every abstract configuration (%d)" % NCASES + "  is replayed end to end on the real proxy (rewritten pages at >= 2 body sizes; pass-through at 1 in quick, 8 in thorough); "
                   "documents are well-formed pages stable under x/net/html parse/render/parse")
    ck.assume("Content-Type and Content-Encoding tokens are lower-case as servers send them; Content-Security-Policy: zero, one or two header lines, or one line with a comma-separated policy list")
    ck.assume("a client that sends no Accept-Encoding gets Go's transport-level transparent gunzip: pass-through is then judged on the decoded bytes")
    ck.assume("DOM equality is judged by golang.org/x/net/html (the parser the proxy itself uses)")
    if selftest_failed is not None and ck._nviol == 0:
        raise vlib.InfraError("binding self-test failed: %r" % selftest_failed)
    ck.finish()


vlib.main(main)
