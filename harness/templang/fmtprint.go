package templang

import (
	"strings"
)

// FormatPrint prints a program whose whitespace fields hold the DECISIONS of the formatter's layout model
// (spec/FmtLayout.tla: Fmt(p)) exactly the way parser/v2/types.go prints a parsed template: this file transcribes
// only the printing mechanics (indentation levels, attribute layout, quoting); what is written after each node and
// whether an element's children are indented comes from the model. srcVariant is the spelling of the source the
// formatter parsed: it determines the two layout facts the parser records that are not part of the abstract program
// (attributes on their own lines, single-quoted constant attribute values).
func FormatPrint(prog []Node, srcVariant Variant) string {
	f := &fprinter{src: srcVariant}
	f.writeNodes(1, prog, true)
	return "templ P(env *Env) {\n" + f.sb.String() + "}\n"
}

type fprinter struct {
	sb  strings.Builder
	src Variant

	elName string // name of the element whose attributes are being printed
}

func (f *fprinter) indent(level int, ss ...string) {
	f.sb.WriteString(strings.Repeat("\t", level))
	for _, s := range ss {
		f.sb.WriteString(s)
	}
}

func decision(n Node) string {
	switch n.K {
	case "text", "expr", "void", "el", "gocodei":
		return n.Tr
	case "slot", "hcomment", "mcomment", "raw", "call", "callb":
		return n.After
	}
	return "v"
}

func (f *fprinter) writeNodes(level int, nodes []Node, indent bool) {
	start := level
	for _, n := range nodes {
		f.node(n, level)
		switch decision(n) {
		case "v":
			level = start
			f.sb.WriteString("\n")
		case "h":
			level = 0
			f.sb.WriteString(" ")
		default:
			level = 0
		}
	}
}

func hasCond(as []Attr) bool {
	for _, a := range as {
		if a.A == "cond" {
			return true
		}
	}
	return false
}

func (f *fprinter) attr(a Attr, level int) {
	switch a.A {
	case "const":
		v := ConstDecoded[a.V]
		v = strings.ReplaceAll(v, "&", "&amp;")
		if f.src == 1 && strings.Contains(ConstDecoded[a.V], `"`) {
			f.indent(level, a.N, `='`, strings.ReplaceAll(v, `'`, "&#39;"), `'`)
		} else {
			f.indent(level, a.N, `="`, strings.ReplaceAll(v, `"`, "&quot;"), `"`)
		}
	case "boolc":
		f.indent(level, a.N)
	case "boole":
		f.indent(level, a.N, "?={ env.C(", num(a.C), ") }")
	case "expr":
		f.indent(level, a.N, "={ env.E(", num(a.E), ") }")
	case "class":
		f.indent(level, "class={ env.K(", num(a.E), ") }")
	case "class2":
		f.indent(level, "class={ env.K(1), env.K(2) }")
	case "url":
		f.indent(level, "href={ ", URLExpr(f.elName, a.U), " }")
	case "style":
		f.indent(level, "style={ env.T", num(a.E), "() }")
	case "classkv":
		f.indent(level, "class={ env.K(1), templ.KV(env.K(2), env.C(", num(a.C), ")) }")
	case "classmix":
		f.indent(level, "class={ \"card\", boxed(), \"wide\" }")
	case "scriptcall2":
		f.indent(level, a.N, "={ span2(1, 2) }")
	case "cssclassx":
		f.indent(level, "class={ tinted(\"green\") }")
	case "cssclass":
		f.indent(level, "class={ boxed() }")
	case "scriptcall":
		f.indent(level, a.N, "={ greet(\"x\") }")
	case "spread":
		f.indent(level, "{ env.M(", num(a.M), ")... }")
	case "cond":
		f.indent(level, "if env.C(", num(a.C), ") {\n")
		for _, t := range a.Then {
			f.attr(t, level+1)
			f.sb.WriteString("\n")
		}
		f.indent(level, "}")
		if len(a.Else) > 0 {
			f.sb.WriteString(" else {\n")
			for _, t := range a.Else {
				f.attr(t, level+1)
				f.sb.WriteString("\n")
			}
			f.indent(level, "}")
		}
	}
}

// openTag writes `<name attrs` and returns the indentation of the closing angle bracket.
func (f *fprinter) openTag(n Node, level int) int {
	f.indent(level, "<", n.Name)
	f.elName = n.Name
	indentAttrs := len(n.Attrs) > 0 && (f.src == 2 || hasCond(n.Attrs))
	for _, a := range n.Attrs {
		if indentAttrs {
			f.sb.WriteString("\n")
			f.attr(a, level+1)
		} else {
			f.sb.WriteString(" ")
			f.attr(a, 0)
		}
	}
	if indentAttrs {
		f.sb.WriteString("\n")
		return level
	}
	return 0
}

func (f *fprinter) body(level int, nodes []Node) {
	f.writeNodes(level, nodes, true)
}

func (f *fprinter) node(n Node, level int) {
	switch n.K {
	case "text":
		v := WordSource(n.W)
		if n.Sp || n.Tr == "h" {
			v += " "
		}
		f.indent(level, v)
	case "expr":
		call := "env.E(" + num(n.E) + ")"
		if n.E == "E3" {
			call = "env.EE(3)"
		}
		if f.src == 2 {
			// the formatter keeps the padding in front of a string expression (only the tail is trimmed)
			f.indent(level, "{   ", call, " }")
		} else {
			f.indent(level, "{ ", call, " }")
		}
	case "void":
		cl := f.openTag(n, level)
		f.indent(cl, "/>")
	case "el":
		cl := f.openTag(n, level)
		switch {
		case len(n.Kids) == 0:
			f.indent(cl, "></", n.Name, ">")
		case n.Lead == "v":
			f.indent(cl, ">\n")
			f.writeNodes(level+1, n.Kids, true)
			f.indent(level, "</", n.Name, ">")
		default:
			f.indent(cl, ">")
			f.writeNodes(0, n.Kids, false)
			f.sb.WriteString("</" + n.Name + ">")
		}
	case "if":
		for i, b := range n.Brs {
			if i == 0 {
				f.indent(level, "if env.C(", num(b.C), ") {\n")
			} else {
				f.indent(level, "} else if env.C(", num(b.C), ") {\n")
			}
			f.body(level+1, b.Body)
		}
		if n.HasElse && len(n.Els) > 0 {
			f.indent(level, "} else {\n")
			f.body(level+1, n.Els)
		}
		f.indent(level, "}")
	case "for":
		f.indent(level, "for range env.L(", num(n.L), ") {\n")
		f.body(level+1, n.Body)
		f.indent(level, "}")
	case "switch":
		f.indent(level, "switch env.S() {\n")
		for _, c := range n.Cases {
			if c.Key == "default" {
				f.indent(level+1, "default:\n")
			} else {
				f.indent(level+1, `case "`, c.Key, "\":\n")
			}
			f.body(level+2, c.Body)
		}
		f.indent(level, "}")
	case "call":
		f.indent(level, "@", CallName(n.Comp), "(", CallArgs(n.Comp), ")")
	case "callb":
		f.indent(level, "@", n.Comp, "() {\n")
		f.body(level+1, n.Body)
		f.indent(level, "}")
	case "slot":
		f.indent(level, "{ children... }")
	case "gocode", "gocodei":
		f.indent(level, "{{ env.G() }}")
	case "gocodeml":
		f.indent(level, "{{\n")
		f.sb.WriteString(strings.Repeat("\t", level+1) + "env.GS(`l1\nl2`)\n")
		f.indent(level, "}}")
	case "hcomment":
		if f.src == 1 {
			f.indent(level, "<!--c-->")
		} else {
			f.indent(level, "<!-- c -->")
		}
	case "gcomment":
		f.indent(level, "// gc")
	case "mcomment":
		f.indent(level, "/* mc */")
	case "raw":
		f.indent(level, "<", RawElement(n.Name), RawAttrs(n.Name), ">", RawContents[n.Name], "</", RawElement(n.Name), ">")
	case "doctype":
		f.indent(level, "<!DOCTYPE html>")
	}
}
