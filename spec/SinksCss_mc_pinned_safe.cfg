\* C05 as coded at the pin: the regular, enum and property-name sanitisers keep OneDeclaration in both contexts (all lengths)
CONSTANTS
  Classes <- SafeClassesDef
  Contexts <- ContextsDef
  Alphabet <- FullAlphabet
  RegularExtra <- NoExtra
  AngleGuard = TRUE
  FontFix = FALSE
  BgFix = FALSE
  TrackAttribution = FALSE
  AttrEscapes = 2
  KvSafeProp = "unsupported"
  EmitEdges = FALSE
INIT Init
NEXT Next
VIEW View

INVARIANTS TypeOK ArgRule OneDeclaration InnocuousOnReject
CHECK_DEADLOCK FALSE
