\* C19 negative config: one goroutine per broadcast delivers to the clients one after the other: TLC must reject OthersUnaffected (a ready client waits behind a stalled one).
CONSTANTS
  Clients = {"c1", "c2"}
  NB = 2
  Design = "serial"
  MaxPings = 1
  PingFirst = FALSE
  NoRaces = FALSE
  ServerCuts = FALSE
  Slow = {"c1"}
  EmitEdges = FALSE
SPECIFICATION Spec
VIEW View
INVARIANTS TypeOK RegistryExact NoPanic BroadcasterNeverBlocks OthersUnaffected NoLeak SpawnedAreTargets DeliveredAtQuiescence
CHECK_DEADLOCK FALSE
