\* C15 negative config (the pinned code): the root's own name is passed to ShouldSkip: nothing is generated below a root named _x / vendor / .x.
CONSTANTS
  MaxFiles = 2
  Trees <- TreesRoot
  Ws = {2}
  FlagSets <- RootFlags
  Mutex = TRUE
  ErrsCloser = "postgen"
  MainReadsErrs = TRUE
  GenVariants = {1}
  SlotRelease = "deferred"
  TargetRule = "trimsuffix"
  WalkRule = "filesonly"
  OrphanStat = "fileonly"
  RootRule = "coded"
  RootTrees <- TreesRoot
  SkipRule = "coded"
  TwoRuns = FALSE
  EmitCases = FALSE
INIT Init
NEXT Next
VIEW View
INVARIANTS TypeOK SiblingEqualsSoloGeneration
