#!/usr/bin/env python3
"""C04 -- the URL sanitiser admits only relative references and allow-listed schemes
(spec/SinksUrl.tla, UrlAccept.tla, UrlScheme.tla, HtmlTok.tla, Chars.tla).

MC   : TLC closes the product automaton  templ.URL as coded (first ':', '/' before it, allow-list under
       strings.EqualFold incl. U+017F/U+212A) x templ.EscapeString x HtmlTok (double-quoted attribute value,
       character references decoded) x WHATWG scheme state  for input strings of every length:
       PassImpliesSafe, FailIsFixed, ValueIntact; a second instance without the HTML layer; the negative
       config (allow-list test by HasPrefix) must violate PassImpliesSafe.
GEN  : TLC prints the whole automaton (every transition, states annotated with verdict / acceptor branch /
       browser scheme).  The harness walks it for concrete strings and compares with the real templ.URL:
       every scalar value inside scheme-shaped templates, EVERY string up to length 5 (thorough 6) over the
       property's adversarial alphabet, the transition cover, XSS vectors + seeded mutations + random strings.
VAL  : a subset and every rejected case is rendered through generated href/action sinks; TraceSinksUrl.tla runs
       HtmlTok + UrlScheme over the REAL output and re-evaluates PassImpliesSafe / FailIsFixed; x/net/html is
       the second key for the attribute-escaping clause.
TYPE : a generated template with a string-typed href/action expression must fail to compile.
"""
import concurrent.futures
import json
import os
import subprocess
import sys

sys.path.insert(0, os.path.join(os.path.dirname(os.path.abspath(__file__)), "..", "lib"))
import vlib

# (template body, sink pattern index in sinks.json: 1 = <a href>, 2 = <form action>, signature)
# HtmlTok lower-cases attribute names, so HREF / Action ARE the href / action attributes for every HTML consumer.
BAD = {
    "bad_href": ('<a href={ s }>x</a>', 1, "UrlTyping.PlainStringCompiles"),
    "bad_action": ('<form action={ s }>x</form>', 2, "UrlTyping.PlainStringCompiles"),
    "bad_href_conditional": ('<a\n\t\tif s != "" {\n\t\t\thref={ s }\n\t\t}\n\t>x</a>', 1, "UrlTyping.PlainStringCompiles"),
    "bad_href_attrcase": ('<a HREF={ s }>x</a>', 1, "UrlTyping.AttrNameCase"),
    "bad_action_attrcase": ('<form Action={ s }>x</form>', 2, "UrlTyping.AttrNameCase"),
}
TEMPLATE = 'package tc\n\ntempl Bad(s string) {\n\t%s\n}\n'
RUNNER = ('package main\n\nimport (\n\t"context"\n\t"os"\n\n\ttc "verifharness/c04tc/%s"\n)\n\n'
          'func main() {\n\tif err := tc.Bad(os.Args[1]).Render(context.Background(), os.Stdout); err != nil {\n\t\tpanic(err)\n\t}\n}\n')
ATTACK = "javascript:alert(1)"
GOOD = ('package tc\n\ntempl good(s string, u templ.SafeURL) {\n\t<a href={ templ.URL(s) }>x</a>\n\t<a href={ u }>y</a>\n'
        '\t<form action={ templ.SafeURL(s) }>x</form>\n\t<link href={ s }/>\n}\n')


def run_trace_shards(ck, shard_files, sinks_json, name):
    jobs = []
    for path in shard_files:
        text = open(path).read()
        n = text.count("\n")
        if n:
            jobs.append((path, text, n))

    def one(job):
        path, text, n = job
        res = vlib.tlc("TraceSinksUrl", "TraceSinksUrl.cfg", files={"trace.ndjson": text, "sinks.json": sinks_json},
                       workers=1, timeout=1500, xmx="2g", xss="64m")
        done = res.tagged("DONE")
        if not res.ok or res.postcondition_failed or len(done) != 1 or done[0]["consumed"] != n:
            raise vlib.InfraError("trace validation of %s incomplete: ok=%s consumed=%s of %d lines\n%s" % (
                os.path.basename(path), res.ok, done[0]["consumed"] if done else None, n, res.out[-1500:]))
        return res, done[0], n

    fails, drift, total = {}, [], 0
    with concurrent.futures.ThreadPoolExecutor(max_workers=max(1, min(len(jobs), 8))) as ex:
        for res, d, n in ex.map(one, jobs):
            total += n
            ck.add("states", res.distinct)
            ck.add("transitions", res.generated)
            for f in d["fails"]:
                fails[f["id"]] = f["why"]
            drift += d["drift"]
    ck.cov.setdefault("tlc_runs", []).append({"run": name, "shards": len(jobs), "cases": total})
    return fails, drift, total


def typecheck(ck, hd):
    """Second clause: a plain string cannot fill href on <a> / action on <form>.
    Returns [(name, signature, sink index, rendered output)] for the templates that DO compile: they are rendered
    with a javascript: URL and the output goes through TraceSinksUrl like every other case."""
    root = os.path.join(hd, "c04tc")
    for name, (body, _, _) in BAD.items():
        os.makedirs(os.path.join(root, name))
        with open(os.path.join(root, name, "x.templ"), "w") as fh:
            fh.write(TEMPLATE % body)
    os.makedirs(os.path.join(root, "good"))
    with open(os.path.join(root, "good", "x.templ"), "w") as fh:
        fh.write(GOOD)
    vlib.templ_generate(root)
    p = vlib.run(["go", "build", "./c04tc/good"], cwd=hd, check=False)
    if p.returncode != 0:
        raise vlib.InfraError("control template with templ.URL / SafeURL-typed href and action does not compile:\n%s" % p.stderr.decode()[-1500:])
    n, compiled = 0, []
    for name, (body, sink, sig) in BAD.items():
        if not os.path.exists(os.path.join(root, name, "x_templ.go")):
            raise vlib.InfraError("templ generate produced no code for %s" % name)
        p = vlib.run(["go", "build", "./c04tc/" + name], cwd=hd, check=False)
        err = p.stderr.decode(errors="replace")
        if p.returncode == 0:
            rd = os.path.join(root, "run_" + name)
            os.makedirs(rd)
            with open(os.path.join(rd, "main.go"), "w") as fh:
                fh.write(RUNNER % name)
            binp = vlib.go_build("./c04tc/run_" + name, "c04tc_" + name, cwd=hd)
            out = vlib.run([binp, ATTACK]).stdout.decode(errors="replace")
            compiled.append((name, sig, sink, body, out))
        elif "templ.SafeURL" not in err:
            raise vlib.InfraError("%s fails to compile for another reason than the SafeURL typing:\n%s" % (name, err[-1500:]))
        else:
            n += 1
    ck.set("typecheck_templates_rejected", n)
    ck.set("typecheck_templates", len(BAD))
    return compiled


def main():
    ck = vlib.Check("C04", "model_checking")
    thorough = ck.tier == "thorough"
    sc = vlib.scratch()

    # --- MC ----------------------------------------------------------------------------------------------
    with concurrent.futures.ThreadPoolExecutor(max_workers=4) as ex:
        fmc = ex.submit(vlib.tlc, "SinksUrl", "SinksUrl_mc.cfg", workers=1, timeout=600)
        fmd = ex.submit(vlib.tlc, "SinksUrl", "SinksUrl_direct.cfg", workers=1, timeout=600)
        fneg = ex.submit(vlib.tlc, "SinksUrl", "SinksUrl_neg.cfg", workers=1, timeout=600)
        fgen = ex.submit(vlib.tlc, "SinksUrl", "SinksUrl_gen.cfg", workers=1, timeout=600)
        mc, md, neg, gen = fmc.result(), fmd.result(), fneg.result(), fgen.result()
    if not mc.ok:
        # the model of the code as written violates the property: a counterexample to reproduce on the real code
        raise vlib.InfraError("SinksUrl (templ.URL as coded) violates %s in the model; reproduce the counterexample on the real "
                              "code before calling it a defect:\n%s" % (mc.violated, mc.out[-3000:]))
    ck.add_tlc(mc, "SinksUrl_mc (html pipeline, all input lengths)")
    if not md.ok:
        raise vlib.InfraError("SinksUrl direct pipeline violates %s in the model" % md.violated)
    ck.add_tlc(md, "SinksUrl_direct (no HTML layer)")
    if neg.violated != "PassImpliesSafe":
        raise vlib.InfraError("negative config (allow-list by HasPrefix) was not rejected by PassImpliesSafe (got %s)" % neg.violated)
    ck.set("negative_config_rejected", True)
    vlib.log("MC done")

    # --- GEN: the automaton ------------------------------------------------------------------------------------
    edges, chars = gen.tagged("EDGE"), gen.tagged("CHARS")
    if not gen.ok or len(edges) != gen.generated - 1 or len(chars) != 1 or len(edges) != gen.distinct * 139:
        raise vlib.InfraError("edge emission incomplete: %d edges, %d generated, %d states" % (len(edges), gen.generated, gen.distinct))
    ck.add_tlc(gen, "SinksUrl_gen (edge emission)")
    cpath, gpath = os.path.join(sc, "chars.json"), os.path.join(sc, "edges.ndjson")
    json.dump(chars[0], open(cpath, "w"))
    vlib.write_ndjson(gpath, edges)

    # --- harness ---------------------------------------------------------------------------------------------------
    hd = vlib.harness_dir()
    vlib.templ_generate(os.path.join(hd, "c04"))
    binp = vlib.go_build("./c04", "c04")
    vlib.log("harness built")
    compiled = typecheck(ck, hd)
    vlib.log("typecheck clause done")
    outdir = os.path.join(sc, "url")
    os.makedirs(outdir)
    nshards = 8
    p = vlib.run([binp, "run", cpath, gpath, str(ck.seed), ck.tier, outdir, str(nshards)], check=False, timeout=2400)
    cands, gofails = {}, {}
    for l in p.stdout.decode(errors="replace").splitlines():
        if '"kind":"candidate"' in l:
            r = json.loads(l)
            cands[r["xi"]] = r
        elif '"kind":"gofail"' in l:
            f = json.loads(l)["f"]
            gofails[f["id"]] = f
    s = vlib.harness_results(ck, p)
    if s["states"] != gen.distinct or s["candidates"] != len(cands) or s["go_fails"] != len(gofails):
        raise vlib.InfraError("harness summary inconsistent: %s" % s)
    alen = s["exhaustive_len"]
    if s["exhaustive"]["strings"] != sum(s["alphabet"] ** k for k in range(alen + 1)):
        raise vlib.InfraError("exhaustive enumeration incomplete: %s" % s["exhaustive"])
    for part in ("fold", "exhaustive", "cover", "vectors"):
        if s[part]["pass"] == 0 or s[part]["fail"] == 0:
            raise vlib.InfraError("%s exercised only one verdict of the sanitiser: %s" % (part, s[part]))
    vlib.log("direct runs done: %d evaluations, %d candidates, %d trace lines" % (s["evaluations"], len(cands), s["trace_lines"]))

    # --- VAL ----------------------------------------------------------------------------------------------------------
    sinks_json = open(os.path.join(outdir, "sinks.json")).read()
    shards = [os.path.join(outdir, "trace-%d.ndjson" % i) for i in range(nshards)]
    # binding self-test (every run): corrupted records -- a javascript: URL "passed", a value that is neither the input
    # nor the failure URL, an unescaped quote -- must be rejected by the trace spec, each for its reason
    sy = lambda t: [ord(c) for c in t]
    CAN = {999999991: ("javascript:alert(1)", '<a href="javascript:alert(1)">x</a>', "unsafe-pass"),
           999999992: ("javascript:alert(1)", '<a href="about:blank">x</a>', "not-fixed"),
           999999993: ('x"y', '<a href="x"y">x</a>', "structure"),
           999999994: ("java&#9;script:alert(1)", '<a href="java&#9;script:alert(1)">x</a>', "not-fixed")}
    TC0 = 999990000
    with open(shards[0], "a") as fh:
        for cid, (i, o, _) in CAN.items():
            fh.write(json.dumps({"id": cid, "sink": 1, "in": sy(i), "out": sy(o)}) + "\n")
        # plain-string href/action templates that compiled, rendered with a javascript: URL
        for k, (name, sig, sink, body, out) in enumerate(compiled):
            fh.write(json.dumps({"id": TC0 + k, "sink": sink, "in": sy(ATTACK), "out": sy(out)}) + "\n")
    specfails, tdrift, validated = run_trace_shards(ck, shards, sinks_json, "TraceSinksUrl (real rendered href/action)")
    for cid, (_, _, want) in CAN.items():
        if specfails.pop(cid, None) != want:
            raise vlib.InfraError("binding self-test failed: corrupted trace record %d was not rejected as %s" % (cid, want))
    validated -= len(CAN) + len(compiled)
    for k, (name, sig, sink, body, out) in enumerate(compiled):
        if specfails.pop(TC0 + k, None) != "unsafe-pass":
            raise vlib.InfraError("template %s compiles with a plain string but its rendering %r is not an unsafe pass for the trace spec" % (name, out))
        ck.violation(sig, "a template whose %s expression is a plain string compiles and renders %s: the value reaches the attribute "
                          "without templ.URL (HtmlTok reads it as the %s attribute; UrlScheme resolves scheme javascript)" % (
                              body.split("=")[0].split()[-1] if "=" in body else name, out.strip(), "href" if sink == 1 else "action"),
                     {"template": TEMPLATE % body, "input": ATTACK, "output": out,
                      "reproduce": "templ generate the template, go build, render Bad(%r)" % ATTACK})
    ck.set("binding_selftest", "%d corrupted records rejected" % len(CAN))
    if validated != s["trace_lines"]:
        raise vlib.InfraError("trace validation consumed %d of %d logged cases" % (validated, s["trace_lines"]))
    vlib.log("trace validation done")

    # --- verdicts ------------------------------------------------------------------------------------------------------
    STRIDE = 100000000
    confirmed, shown, disagree = set(), {}, []
    for i, why in sorted(specfails.items(), key=lambda kv: (len(cands.get(kv[0] % STRIDE, {}).get("in", "")), kv[0])):
        xi = i % STRIDE
        c = cands.get(xi)
        if c is not None and why == ("not-fixed" if c["sig"].startswith("FailIsFixed") else "unsafe-pass"):
            if xi in confirmed:
                continue
            confirmed.add(xi)
            shown[c["sig"]] = shown.get(c["sig"], 0) + 1
            if shown[c["sig"]] <= 3:
                ck.violation(c["sig"], c["what"] + " (automaton walk and trace validation of the rendered href agree)",
                             {"input": c["in"], "reproduce": "templ.URL(%s)" % c["in"]})
            else:
                ck.add("further_failing_cases_not_listed", 1)
        elif i in gofails:
            # both keys reject the RENDERED attribute although the sanitiser's verdict is fine: the escaping clause
            f = gofails[i]
            inv = "InContext" if "structure" in (why, f["why"]) else "Verbatim"
            shown[inv] = shown.get(inv, 0) + 1
            if shown[inv] <= 3:
                ck.violation("AttrDQ.url." + inv, "sink %s: %s (the sanitised URL is not attribute-escaped on output; both keys)" % (f["sink"], f["desc"]),
                             {"sink": f["sink"], "input": f["in"], "output": f["out"]})
            else:
                ck.add("further_failing_cases_not_listed", 1)
        else:
            disagree.append("trace spec rejects case %s (%s) that neither the automaton walk nor x/net/html rejects" % (i, why))
    missing = [c for xi, c in cands.items() if xi not in confirmed]
    if missing:
        raise vlib.InfraError("%d candidates flagged by the automaton walk are not confirmed by the trace spec: %s" % (len(missing), missing[:2]))
    if s["candidates_direct"] and not confirmed:
        raise vlib.InfraError("the direct runs flagged %d strings but none of them was rendered and confirmed" % s["candidates_direct"])
    ck.set("candidates_confirmed", len(confirmed))
    only_go = [f for i, f in gofails.items() if i not in specfails]
    if only_go:
        disagree.append("x/net/html rejects %d rendered outputs the spec tokenizer accepts: %s" % (len(only_go), only_go[:2]))
    if disagree:
        # the keys disagree: machinery inconsistency (exit 2) -- unless violations confirmed by both keys exist, which stand
        if not ck.violations and not ck.known_hit:
            raise vlib.InfraError("; ".join(disagree[:3]))
        ck.notes.append("keys disagree on %d cases besides the confirmed violations: %s" % (len(disagree), disagree[:2]))
    if tdrift:
        ck.add("model_drift_cases", len(tdrift))

    ck.set("traces_validated_against_impl", validated)
    ck.set("evaluations_against_templ_URL", s["evaluations"])
    ck.set("exhaustive_strings", s["exhaustive"]["strings"])
    ck.set("exhaustive", True)
    ck.set("rule", "every string of length <= %d over the %d-symbol adversarial alphabet (h t p s f j T S : / \\ ? # %% & ; TAB LF CR SP NUL "
                   "U+017F U+00E9 U+212A) run on the real templ.URL and compared with the state the TLC-generated automaton reaches" % (alen, s["alphabet"]))
    ck.set("by_part", {k: s[k] for k in ("fold", "exhaustive", "cover", "vectors")})
    ck.set("automaton_states", s["states"])
    ck.set("edges_emitted", len(edges))
    ck.set("renders", s["renders"])
    ck.set("bounds", {"symbols": 139, "exhaustive_len": alen, "alphabet": s["alphabet"], "cover_suffix_len": 2})
    ck.assume("the browser is represented by the WHATWG URL scheme-start/scheme states (single key: no independent URL parser offline)")
    ck.assume("a string without scheme is resolved against an http(s) document base: a relative reference")
    ck.assume("templ.SafeURL(...) casts are explicit bypasses and excluded")
    ck.finish()


def guarded():
    try:
        main()
    except (vlib.InfraError, SystemExit):
        raise
    except Exception as e:      # a crash of the check itself is a machinery failure (exit 2), never exit 1
        import traceback
        raise vlib.InfraError("check crashed: %s\n%s" % (e, traceback.format_exc()))


vlib.main(guarded)
