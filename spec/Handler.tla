------------------------------- MODULE Handler -------------------------------
(* C11 -- the buffered HTTP handler responds all-or-nothing.

   handler.go, transcribed step by step over a model of net/http's ResponseWriter:
     rw.hdr     the live header map (Header()),
     rw.wrote   WriteHeader has happened (explicitly or implied by the first Write),
     rw.status  the status line that went out,
     rw.sent    the snapshot of the header map taken when the header went out (later changes to
                rw.hdr are not seen by the client),
     rw.body    the body chunks written so far (a sequence of tokens),
     rw.aborted ServeHTTP did not return: it panicked (a configured error handler returned a nil
                http.Handler and handler.go calls ServeHTTP on it).  net/http recovers the panic and
                closes the connection without finishing the response (a ResponseRecorder sees the
                panic itself): the request ends here, nothing more is written.  Deferred calls
                (ReleaseBuffer) still run while the stack unwinds.
   A component writes chunks 1..k through its io.Writer and then returns nil or an error.  The error has a
   CLASS (ecls): "plain" an ordinary error; "canceled" / "deadline" an error that WRAPS context.Canceled /
   context.DeadlineExceeded although the request context is alive (a cancelled sub-operation of the
   component, an upstream call that timed out); "reqcancelled" the request context itself is cancelled and
   the component returns ctx.Err().  handler.go does not look at the error: every class takes the error
   path, the configured error handler is consulted (ghost rw.ehran) and the property -- error => exactly
   the error response, no document bytes -- is decided per class.
   ServeHTTPBuffered renders into a pooled bytes.Buffer (GetBuffer / deferred ReleaseBuffer) and
   touches the ResponseWriter only afterwards; ServeHTTPStreamed hands the ResponseWriter to the
   component.  A sequence of MaxReq requests runs over one buffer pool.

   Body tokens: <<"c", i>> chunk i of the document, <<"E">> the default error message line,
   <<"H">> the body a configured error handler writes.                                          *)
EXTENDS Integers, Sequences, FiniteSets, TLC, Json

CONSTANTS MaxK,        \* components write 0..MaxK chunks
          MaxReq,      \* requests per sequence (the pool is the only state carried over)
          Variant,     \* "asCoded" | "noReset" | "headersFirst" | "bufferInErrorPath" | "statusInErrorPath"
                       \* | "nilFallsThrough" | "silentOnCanceled" (errors.Is(err, context.Canceled) => plain return)
                       \* | "sseStreams" (a text/event-stream content type routes to ServeHTTPStreamed without WithStreaming)
          EmitEdges

VARIABLES req,    \* configuration + component of the request being served
          pc,     \* control point inside ServeHTTP
          rw,     \* the ResponseWriter
          buf,    \* contents of the bytes.Buffer obtained from the pool (buffered mode)
          i,      \* chunks the component has written so far
          rerr,   \* the component returned an error
          pool,   \* leftover contents of the buffers in the pool (a set: sync.Pool may hand out any)
          n,      \* index of the current request
          lbl

vars == <<req, pc, rw, buf, i, rerr, pool, n>>

Statuses     == {0, 201, 404}                                   \* 0 = WithStatus not used
\* content-type classes: WithContentType not used | "text/html; charset=utf-8" given explicitly | application/json |
\* text/event-stream | the empty string.  handler.go only copies the value into the header: which path serves the request
\* (buffered / streamed) depends on the streaming option alone.
CTypes       == {"default", "htmlcharset", "json", "eventstream", "empty"}
EHKinds      == {"unset", "statusbody", "bodyonly", "nothing", "headers", "nilhandler"}
NoHdr        == "absent"

ErrClasses   == {"plain", "canceled", "deadline", "reqcancelled"}
Configs == {c \in [status : Statuses, ctype : CTypes, eh : EHKinds, stream : BOOLEAN, k : 0..MaxK, fail : BOOLEAN,
                   ecls : {"none"} \cup ErrClasses] : c.fail = (c.ecls # "none")}
\* errors.Is(err, context.Canceled) holds for the errors of these classes
IsCanceled(c) == c.ecls \in {"canceled", "reqcancelled"}

-----------------------------------------------------------------------------
(* net/http ResponseWriter *)
FreshRW == [hdr |-> [h \in {"Content-Type", "X-Err"} |-> NoHdr], wrote |-> FALSE, status |-> 0,
            sent |-> [h \in {"Content-Type", "X-Err"} |-> NoHdr], body |-> <<>>, aborted |-> FALSE,
            ehran |-> FALSE]     \* ghost: the configured error handler was consulted with the render error

HSet(w, h, v) == [w EXCEPT !.hdr[h] = v]
\* WriteHeader: only the first one counts; the header map is frozen into the response at that point.
\* A response that goes out without a Content-Type gets a sniffed one.
WriteHeader(w, code) ==
    IF w.wrote THEN w
    ELSE [w EXCEPT !.wrote = TRUE, !.status = code,
                   !.sent = [w.hdr EXCEPT !["Content-Type"] = IF @ = NoHdr THEN "sniffed" ELSE @]]
\* Write: implies WriteHeader(200) when nothing has been sent yet
Write(w, data) == LET w1 == WriteHeader(w, 200) IN [w1 EXCEPT !.body = @ \o data]
\* http.Error(w, msg, 500)
HttpError(w) == Write(WriteHeader(HSet(w, "Content-Type", "text/plain"), 500), << <<"E">> >>)
\* the handler panics: a terminal outcome, whatever has not been committed to the response never is
Abort(w) == [w EXCEPT !.aborted = TRUE]
\* what the client finally sees; a handler that returns without writing anything gets 200 and the current headers;
\* a handler that panicked gets no implied header: only what had been committed (status 0 / absent = nothing)
Final(w) == LET w1 == IF w.aborted THEN w ELSE WriteHeader(w, 200) IN
            [status |-> w1.status, ct |-> w1.sent["Content-Type"], xerr |-> w1.sent["X-Err"], body |-> w1.body,
             aborted |-> w1.aborted, eh |-> w1.ehran]

(* The error handlers of the configuration space (what the harness installs). *)
ServeEH(kind, w0) ==
    LET w == [w0 EXCEPT !.ehran = TRUE] IN
    CASE kind = "statusbody" -> Write(WriteHeader(w, 400), << <<"H">> >>)
      [] kind = "bodyonly"   -> Write(w, << <<"H">> >>)
      [] kind = "nothing"    -> w
      [] kind = "headers"    -> Write(WriteHeader(HSet(HSet(w, "Content-Type", "text/x-error"), "X-Err", "1"), 503), << <<"H">> >>)
      [] kind = "nilhandler" -> Abort(w)     \* ErrorHandler(r, err) = nil; nil.ServeHTTP(w, r) panics

Doc(k) == [j \in 1..k |-> <<"c", j>>]

-----------------------------------------------------------------------------
(* Reference responses (DESIGN.md appendix). *)
SuccessResponse(c) == [status |-> IF c.status = 0 THEN 200 ELSE c.status, ct |-> c.ctype, xerr |-> NoHdr, body |-> Doc(c.k),
                       aborted |-> FALSE, eh |-> FALSE]
\* with an error handler: Content-Type preset to the configured value, then whatever the handler writes;
\* a nil error handler result: the request is aborted with nothing committed (status 0, no header, no body)
ErrorResponse(c) == IF c.eh = "unset" THEN Final(HttpError(FreshRW))
                    ELSE Final(ServeEH(c.eh, HSet(FreshRW, "Content-Type", c.ctype)))

-----------------------------------------------------------------------------
Init == /\ req \in Configs
        /\ pc = "start"
        /\ rw = FreshRW
        /\ buf = <<>>
        /\ i = 0
        /\ rerr = FALSE
        /\ pool = {}
        /\ n = 1
        /\ lbl = [a |-> "init"]

Step(name) == lbl' = [a |-> name]

(* --- ServeHTTP dispatch --- *)
Dispatch == /\ pc = "start"
            /\ pc' = IF req.stream \/ (Variant = "sseStreams" /\ req.ctype = "eventstream") THEN "s_setct" ELSE "b_get"
            /\ UNCHANGED <<req, rw, buf, i, rerr, pool, n>>
            /\ Step("Dispatch")

(* --- ServeHTTPBuffered --- *)
\* buf := GetBuffer(): any pooled buffer with whatever it was returned with, or a new empty one
BGetBuffer == /\ pc = "b_get"
              /\ \/ \E b \in pool : buf' = b /\ pool' = pool \ {b}
                 \/ buf' = <<>> /\ pool' = pool
              /\ pc' = IF Variant = "headersFirst" THEN "b_ok_setct" ELSE "b_render"
              /\ UNCHANGED <<req, rw, i, rerr, n>>
              /\ Step("GetBuffer")

\* the component writes its next chunk into the buffer
BRenderChunk == /\ pc = "b_render" /\ i < req.k
                /\ buf' = Append(buf, <<"c", i + 1>>)
                /\ i' = i + 1
                /\ UNCHANGED <<req, pc, rw, rerr, pool, n>>
                /\ Step("RenderChunk")

BRenderReturn == /\ pc = "b_render" /\ i = req.k
                 /\ rerr' = req.fail
                 /\ pc' = IF req.fail THEN (IF Variant = "silentOnCanceled" /\ IsCanceled(req) THEN "b_release"
                                            ELSE IF req.eh = "unset" THEN "b_err_default" ELSE "b_err_setct")
                          ELSE (IF Variant = "headersFirst" THEN "b_ok_write" ELSE "b_ok_setct")
                 /\ UNCHANGED <<req, rw, buf, i, pool, n>>
                 /\ Step("RenderReturn")

BErrSetCT == /\ pc = "b_err_setct"
             /\ rw' = LET w0 == IF Variant = "bufferInErrorPath" THEN Write(rw, buf) ELSE rw
                          w1 == HSet(w0, "Content-Type", req.ctype)
                      IN IF Variant = "statusInErrorPath" /\ req.status # 0 THEN WriteHeader(w1, req.status) ELSE w1
             /\ pc' = "b_err_eh"
             /\ UNCHANGED <<req, buf, i, rerr, pool, n>>
             /\ Step("ErrSetContentType")

\* Variant "nilFallsThrough": the error branch is skipped when the error handler's result is nil and the request
\* continues on the success path (Content-Type, status, buffer)
BErrHandler == /\ pc = "b_err_eh"
               /\ IF Variant = "nilFallsThrough" /\ req.eh = "nilhandler"
                  THEN rw' = rw /\ pc' = "b_ok_setct"
                  ELSE rw' = ServeEH(req.eh, rw) /\ pc' = "b_release"
               /\ UNCHANGED <<req, buf, i, rerr, pool, n>>
               /\ Step("ErrorHandlerServe")

BErrDefault == /\ pc = "b_err_default"
               /\ rw' = HttpError(IF Variant = "bufferInErrorPath" THEN Write(rw, buf) ELSE rw)
               /\ pc' = "b_release"
               /\ UNCHANGED <<req, buf, i, rerr, pool, n>>
               /\ Step("HttpError")

BOkSetCT == /\ pc = "b_ok_setct"
            /\ rw' = HSet(rw, "Content-Type", req.ctype)
            /\ pc' = "b_ok_status"
            /\ UNCHANGED <<req, buf, i, rerr, pool, n>>
            /\ Step("SetContentType")

BOkStatus == /\ pc = "b_ok_status"
             /\ rw' = IF req.status # 0 THEN WriteHeader(rw, req.status) ELSE rw
             /\ pc' = IF Variant = "headersFirst" THEN "b_render" ELSE "b_ok_write"
             /\ UNCHANGED <<req, buf, i, rerr, pool, n>>
             /\ Step("WriteStatus")

BOkWrite == /\ pc = "b_ok_write"
            /\ rw' = Write(rw, buf)
            /\ pc' = "b_release"
            /\ UNCHANGED <<req, buf, i, rerr, pool, n>>
            /\ Step("WriteBuffer")

\* deferred ReleaseBuffer(buf): Reset, then Put
BRelease == /\ pc = "b_release"
            /\ pool' = pool \cup {IF Variant = "noReset" THEN buf ELSE <<>>}
            /\ buf' = <<>>
            /\ pc' = "done"
            /\ UNCHANGED <<req, rw, i, rerr, n>>
            /\ Step("ReleaseBuffer")

(* --- ServeHTTPStreamed --- *)
SSetCT == /\ pc = "s_setct"
          /\ rw' = HSet(rw, "Content-Type", req.ctype)
          /\ pc' = "s_status"
          /\ UNCHANGED <<req, buf, i, rerr, pool, n>>
          /\ Step("StreamSetContentType")

SStatus == /\ pc = "s_status"
           /\ rw' = IF req.status # 0 THEN WriteHeader(rw, req.status) ELSE rw
           /\ pc' = "s_render"
           /\ UNCHANGED <<req, buf, i, rerr, pool, n>>
           /\ Step("StreamWriteStatus")

SRenderChunk == /\ pc = "s_render" /\ i < req.k
                /\ rw' = Write(rw, << <<"c", i + 1>> >>)
                /\ i' = i + 1
                /\ UNCHANGED <<req, pc, buf, rerr, pool, n>>
                /\ Step("StreamRenderChunk")

SRenderReturn == /\ pc = "s_render" /\ i = req.k
                 /\ rerr' = req.fail
                 /\ pc' = IF req.fail THEN (IF req.eh = "unset" THEN "s_err_default" ELSE "s_err_setct") ELSE "done"
                 /\ UNCHANGED <<req, rw, buf, i, pool, n>>
                 /\ Step("StreamRenderReturn")

SErrSetCT == /\ pc = "s_err_setct"
             /\ rw' = HSet(rw, "Content-Type", req.ctype)
             /\ pc' = "s_err_eh"
             /\ UNCHANGED <<req, buf, i, rerr, pool, n>>
             /\ Step("StreamErrSetContentType")

SErrHandler == /\ pc = "s_err_eh"
               /\ rw' = ServeEH(req.eh, rw)
               /\ pc' = "done"
               /\ UNCHANGED <<req, buf, i, rerr, pool, n>>
               /\ Step("StreamErrorHandlerServe")

SErrDefault == /\ pc = "s_err_default"
               /\ rw' = HttpError(rw)
               /\ pc' = "done"
               /\ UNCHANGED <<req, buf, i, rerr, pool, n>>
               /\ Step("StreamHttpError")

(* --- the handler has returned: the response is final; the next request of the sequence starts --- *)
Outcome == IF ~req.fail /\ Final(rw) = SuccessResponse(req) THEN "document"
           ELSE IF req.fail /\ Final(rw) = ErrorResponse(req) THEN (IF Final(rw).aborted THEN "aborted" ELSE "error")
           ELSE "partial"

Finish == /\ pc = "done"
          /\ pc' = "finished"
          /\ UNCHANGED <<req, rw, buf, i, rerr, pool, n>>
          /\ lbl' = [a |-> "Finish", n |-> n, cfg |-> req, final |-> Final(rw), outcome |-> Outcome,
                     pooled |-> Cardinality(pool)]

\* between two requests only the pool and the request index are carried over: the server is idle (one state per pool
\* content and index, so that the next request is chosen once per such state and not once per finished request)
IdleCfg == [status |-> 0, ctype |-> "default", eh |-> "unset", stream |-> FALSE, k |-> 0, fail |-> FALSE, ecls |-> "none"]
NextRequest == /\ pc = "finished" /\ n < MaxReq
               /\ n' = n + 1
               /\ req' = IdleCfg
               /\ pc' = "idle"
               /\ rw' = FreshRW /\ buf' = <<>> /\ i' = 0 /\ rerr' = FALSE
               /\ UNCHANGED pool
               /\ Step("NextRequest")

StartRequest == /\ pc = "idle"
                /\ req' \in Configs
                /\ pc' = "start"
                /\ UNCHANGED <<rw, buf, i, rerr, pool, n>>
                /\ Step("StartRequest")

Next == \/ Dispatch
        \/ BGetBuffer \/ BRenderChunk \/ BRenderReturn \/ BErrSetCT \/ BErrHandler \/ BErrDefault
        \/ BOkSetCT \/ BOkStatus \/ BOkWrite \/ BRelease
        \/ SSetCT \/ SStatus \/ SRenderChunk \/ SRenderReturn \/ SErrSetCT \/ SErrHandler \/ SErrDefault
        \/ Finish \/ NextRequest \/ StartRequest

Spec == Init /\ [][Next]_vars

-----------------------------------------------------------------------------
(* Properties *)
TypeOK == /\ req \in Configs
          /\ i \in 0..MaxK
          /\ n \in 1..MaxReq

\* C11: when the buffered handler has returned, the client has the whole document with the configured
\* status and content type, or exactly the error response.
AllOrNothing ==
    (pc \in {"done", "finished"} /\ ~req.stream) =>
        /\ ~req.fail => Final(rw) = SuccessResponse(req)
        /\ req.fail  => Final(rw) = ErrorResponse(req)      \* whatever the class of the error

\* a failed render is reported: the configured error handler is consulted, or the default 500 goes out -- never a
\* success status line -- for every error class, in particular errors that merely wrap context.Canceled
FailureIsReported ==
    (pc \in {"done", "finished"} /\ ~req.stream /\ req.fail) =>
        IF req.eh = "unset" THEN Final(rw).status = 500 ELSE rw.ehran

\* the same, said directly: after a failed render no chunk of the document reaches the client (hence no success
\* status with document bytes), and a request aborted by a panic has committed no status line at all
IsDocChunk(t) == t[1] = "c"
NoDocumentAfterFailure ==
    (pc \in {"done", "finished"} /\ ~req.stream /\ req.fail) =>
        LET f == Final(rw) IN
        /\ \A j \in 1..Len(f.body) : ~IsDocChunk(f.body[j])
        /\ f.aborted => (f.status = 0 /\ f.body = <<>>)

\* an aborted request commits nothing in buffered mode
AbortedSendsNothing ==
    (pc \in {"done", "finished"} /\ ~req.stream /\ rw.aborted) =>
        /\ req.fail /\ req.eh = "nilhandler"
        /\ ~rw.wrote /\ rw.body = <<>>

\* the buffered / streamed decision depends on the streaming option only, whatever the content type
StreamPCs == {"s_setct", "s_status", "s_render", "s_err_default", "s_err_setct", "s_err_eh"}
StreamedOnlyIfConfigured == (pc \in StreamPCs) <=> (req.stream /\ pc \notin {"start", "done", "finished", "idle"})

\* the mechanism: the ResponseWriter is untouched until the component has returned
UntouchedWhileRendering == (~req.stream /\ pc \in {"b_get", "b_render"}) => rw = FreshRW

\* the mechanism: a buffer taken from the pool is empty
PooledBuffersAreEmpty == \A b \in pool : b = <<>>

\* Streaming as documented: the status line and headers go out first, the document prefix written before
\* the failure stays in the body and the error body follows it.
StreamedAsDocumented ==
    (pc \in {"done", "finished"} /\ req.stream) =>
        /\ ~req.fail => Final(rw) = SuccessResponse(req)
        /\ req.fail  =>
            LET headSent == req.status # 0 \/ req.k > 0
                e == ErrorResponse(req)
                f == Final(rw)
            IN  /\ f.body = Doc(req.k) \o e.body
                /\ f.aborted = e.aborted /\ f.eh = e.eh
                /\ IF headSent THEN f.status = SuccessResponse(req).status /\ f.ct = req.ctype /\ f.xerr = NoHdr
                   ELSE f.status = e.status /\ f.ct = e.ct /\ f.xerr = e.xerr

View == vars
Emit == IF EmitEdges /\ lbl'.a = "Finish"
        THEN PrintT(<<"EDGE", ToJson(lbl')>>)
        ELSE TRUE
=============================================================================
