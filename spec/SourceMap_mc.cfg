\* C07 design check: RangeWriter.write + SourceMap.Add as coded, every shape in the bounds.
CONSTANTS
  MaxLines = 2
  MaxRunes = 2
  Widths = {1, 2, 3, 4}
  Pres <- PresAll
  Offsets = {0, 1, 2, 3}
  ColMode = "bytes"
  EolEntry = TRUE
  SymLineMap = "keep"
INIT Init
NEXT Next
INVARIANTS TypeOK WriterIsAdvance SameByte Consecutive RoundTrip EndOfLineMapped SymbolRangeEncloses SymbolsFound
CHECK_DEADLOCK FALSE
