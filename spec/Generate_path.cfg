\* C15 design check on the path-shape universe (".templ" inside directory names / twice in the base name, a directory named *.templ,
\* an orphan next to such a directory, roots with a skip name): all schedules, W in {1,2}, two runs, with the rules the property demands.
CONSTANTS
  MaxFiles = 2
  Trees <- TreesPathRoot
  Ws = {1, 2}
  FlagSets <- RootFlags
  Mutex = TRUE
  ErrsCloser = "postgen"
  MainReadsErrs = TRUE
  GenVariants = {1}
  SlotRelease = "deferred"
  TargetRule = "trimsuffix"
  WalkRule = "filesonly"
  OrphanStat = "fileonly"
  RootRule = "exempt"
  RootTrees <- TreesRoot
  SkipRule = "coded"
  TwoRuns = TRUE
  EmitCases = FALSE
INIT Init
NEXT Next
VIEW View
INVARIANTS TypeOK SiblingEqualsSoloGeneration OrphansGoneUnlessKept NothingElseTouched ExitStatusIffSomeFileFailed FailureIsolated SecondRunChangesNothing AtMostWWorkers EachEventOnce NoPanic NoDataRace WaitGroupOK TargetNextToSource TargetInjective
