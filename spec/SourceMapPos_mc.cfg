\* C06 (ii): PositionAt = Advance* on every text up to MaxLen symbols.
CONSTANTS
  MaxLen = 5
  Widths = {1, 2, 3, 4}
  NewlineRule = "le"
  EntryCopy = "same"
  ColMode = "bytes"
  EolEntry = TRUE
  SymLineMap = "keep"
INIT Init
NEXT Next
INVARIANTS PositionIsAdvance RangeOrdered RangeInBounds RangeCovers EofPositionInInput LastRangeCoversRest
CHECK_DEADLOCK FALSE
