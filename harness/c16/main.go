// c16 replays the Regenerate transitions of spec/DevMode.tla and the literal lists of
// spec/DevModeText.tla on the real generator, the real watch-mode event handler and real compiled
// generated code of the repository under test.
//
//	c16 run <config.json>
//
// For every distinct template of the emitted transitions the harness writes a .templ file, generates it
// with the real event handler, compiles everything into ONE program (driver + ~400 templates per Go
// package) and renders every template normally ("fresh build"). Then, per transition (C, P, S) =
// (template the running program was built from, template of the previous generation, saved template):
// a development-mode event handler processes C, P, S at C's path (the real HasChanged decision, the real
// text file), and if no rebuild is requested the already compiled program is run with
// TEMPL_DEV_MODE=true and its rendering of C's code must equal the fresh rendering of S.
package main

import (
	"bytes"
	"context"
	"crypto/sha256"
	"encoding/base64"
	"encoding/json"
	"fmt"
	"io"
	"log/slog"
	"math/rand"
	"os"
	"os/exec"
	"path/filepath"
	"regexp"
	"sort"
	"strconv"
	"strings"
	"time"

	"github.com/a-h/templ"
	"github.com/a-h/templ/cmd/templ/generatecmd"
	"github.com/a-h/templ/generator"
	"github.com/a-h/templ/parser/v2"
	templruntime "github.com/a-h/templ/runtime"
	"github.com/fsnotify/fsnotify"

	"verifharness/vhlib"
)

type config struct {
	Edges         string `json:"edges"`          // ndjson of DevMode EDGE labels
	Texts         string `json:"texts"`          // ndjson of DevModeText CASE labels
	Paths         string `json:"paths"`          // ndjson of DevModePath PATH labels
	Work          string `json:"work"`           // directory inside the harness module (import path verifharness/<rel>)
	WorkRel       string `json:"work_rel"`       // its path relative to the module root
	Seed          int64  `json:"seed"`           //
	MaxCases      int    `json:"max_cases"`      // sample size for transitions the model calls faithful
	MaxBoundary   int    `json:"max_boundary"`   // sample size for edits that move static text across Go code (0 = all)
	MaxUnfaithful int    `json:"max_unfaithful"` // sample size for transitions the coded-rule model calls unfaithful
	PkgSize       int    `json:"pkg_size"`       //
	Corrupt       bool   `json:"corrupt"`        // binding self-test: corrupt one expected rendering
	ForceSkew     bool   `json:"-"`
}

type item struct {
	K string `json:"k"`
	E string `json:"e"`
}

type edge struct {
	C     []item   `json:"c"`
	P     []item   `json:"p"`
	S     []item   `json:"s"`
	Coded bool     `json:"coded"`
	Hash  bool     `json:"hash"`
	NLits int      `json:"nlits"`
	Exprs []string `json:"exprs"`
	Sig   string   `json:"sig"`
	// the emitting model's own decisions and the edit's nature
	Go       bool `json:"go"`       // GoUpdated under the emission's HasChanged rule
	TxtUpd   bool `json:"txtupd"`   // the text file is rewritten (hash as coded)
	Boundary bool `json:"boundary"` // same concatenated static text, different literal boundaries
}

type textCase struct {
	Lits [][]string `json:"lits"`
	File []string   `json:"file"`
}

// tmpl is one distinct concrete template of the batch.
type tmpl struct {
	ID     int
	Name   string // T00012
	Pkg    int
	Items  []item     // nil for text cases
	Text   [][]string // literal classes of a text case
	Src    string
	Path   string // absolute path of the .templ file
	NLits  int    // model prediction (-1: none)
	Exprs  []string
	Fresh  string // normal-mode rendering (base64 + error text)
	Broken string
	// path shapes (DevModePath.tla): the template lives in its own package; Path is the name the generator is given
	Shape  string
	Import string // import path of the package
	File   string // where the specification says the canonical .templ file is (absolute)
}

type pathCase struct {
	Op    string `json:"op"`
	Name  string `json:"name"`
	Links []struct {
		From []string `json:"from"`
		To   []string `json:"to"`
	} `json:"links"`
	G    []string `json:"g"`
	B    []string `json:"b"`
	Rel  bool     `json:"rel"`
	File []string `json:"file"`
}

// materialise creates a path shape on the real file system below base and returns the template entry: symbolic links
// as the specification lists them (directory links absolute, file links relative), real directories for everything else.
func materialise(pc pathCase, n int, base, importBase string) *tmpl {
	resolve := func(p []string) []string {
		done := []string{}
		rest := append([]string{}, p...)
		for fuel := 16; len(rest) > 0 && fuel > 0; {
			cur := append(append([]string{}, done...), rest[0])
			linked := false
			for _, l := range pc.Links {
				if strings.Join(l.From, "/") == strings.Join(cur, "/") {
					rest = append(append([]string{}, l.To...), rest[1:]...)
					done = []string{}
					linked = true
					fuel--
					break
				}
			}
			if !linked {
				done = cur
				rest = rest[1:]
			}
		}
		return done
	}
	abs := func(p []string) string { return base + "/" + strings.Join(p, "/") } // not cleaned: ".." stays in the name
	mk := func(dir string) {
		if err := os.MkdirAll(dir, 0o755); err != nil {
			vhlib.Fatal("%v", err)
		}
	}
	mk(base)
	// shortest links first (directory links before links below them)
	links := append(pc.Links[:0:0], pc.Links...)
	sort.Slice(links, func(i, j int) bool { return len(links[i].From) < len(links[j].From) })
	for _, l := range links {
		parent := resolve(l.From[:len(l.From)-1])
		mk(abs(parent))
		mk(filepath.Dir(abs(resolve(l.To))))
		from := filepath.Join(abs(parent), l.From[len(l.From)-1])
		target := abs(resolve(l.To[:len(l.To)-1])) + "/" + l.To[len(l.To)-1]
		if strings.HasSuffix(l.From[len(l.From)-1], ".templ") {
			rel, err := filepath.Rel(filepath.Dir(from), target)
			if err != nil {
				vhlib.Fatal("%v", err)
			}
			target = rel
		} else {
			mk(target) // a link to a directory
		}
		if err := os.Symlink(target, from); err != nil {
			vhlib.Fatal("%v", err)
		}
	}
	mk(filepath.Dir(abs(pc.File)))
	for i, c := range pc.G { // every directory named before a ".." must exist
		if c == ".." {
			mk(abs(resolve(pc.G[:i])))
		}
	}
	pkgDir := resolve(pc.B[:len(pc.B)-1])
	mk(abs(pkgDir))
	t := &tmpl{NLits: -1, Shape: pc.Name, File: abs(pc.File)}
	t.Name = fmt.Sprintf("TSHP%02d", n)
	t.Path = abs(pc.G)
	if pc.Rel {
		cwd, _ := os.Getwd()
		if rel, err := filepath.Rel(cwd, t.Path); err == nil {
			t.Path = rel
		}
	}
	// the compiler sees the package where the specification's b says (possibly through a link to a directory)
	t.Import = importBase + "/" + strings.Join(pc.B[:len(pc.B)-1], "/")
	t.Src = fmt.Sprintf("package shp%02d\n\ntempl %s%s {\n<b>shape %s \"q\" \\</b>{ x }<i>after</i>\n}\n", n, t.Name, signature, pc.Name)
	return t
}

var logger = slog.New(slog.NewTextHandler(io.Discard, nil))

// the value of the string expression x in every rendering
const xValue = "w:1;\"<b>&'\u00e9"

const signature = "(x, y string, u templ.SafeURL, h templ.ComponentScript, b bool, at templ.Attributes, c templ.Component, xs []string)"

// static text snippets: quotes, backslashes, newlines, non-ASCII, non-printable and invalid bytes.
// Every snippet is a piece of markup that the generator turns into literal text only.
var snippets = []string{
	`<b>q"u\o'te</b>`,
	"<!-- \"dq\" \\back\\\\slash 'sq' \n second line \t tab -->",
	"<script>var s = \"a\\\"b\\\\c\\n\";\nvar t = 'x';</script>",
	"<style>p::before { content: \"\\201C q\\\\\"; }\n</style>",
	`<i title="a&quot;b\c'd"></i>`,
	`<i title='x"y\'></i>`,
	"<!-- \xff\xc3( \x01 \x00 \u2028 \u00e9 \u65e5\u672c \x7f \r\n -->",
	"<b>\u00e9\u65e5\u672c\u2028\ufeff\U0001F600</b>",
	"<pre>a\n  b\\n</pre>",
	`<input type="text" value="\\&amp;\x41" hidden/>`,
	"<!--\\-->",
	"<b>\\</b>",
	"<!--\"-->",
	"<!--\n-->",
}

func key(items []item) string {
	var sb strings.Builder
	for _, it := range items {
		sb.WriteString(it.K)
		sb.WriteByte(':')
		sb.WriteString(it.E)
		sb.WriteByte(' ')
	}
	return sb.String()
}

// concrete class members for DevModeText classes
func classText(cls string, n int) string {
	switch cls {
	case "p":
		if n%211 == 0 {
			// a long run of plain text (72 000 bytes, more than a bufio.Scanner's default token): one line of the text file
			return strings.Repeat("abz09 ;:/", 8000)
		}
		return string("abz09 ;:/"[n%9])
	case "q":
		return `"`
	case "s":
		return `\`
	case "n":
		return "\n"
	case "u":
		return []string{"\u00e9", "\u65e5", "\U0001F600", "\u00a0"}[n%4]
	case "c":
		return []string{"\x01", "\u2028", "\x7f", "\t", "\x00", "\u0085"}[n%6]
	case "x":
		return []string{"\xff", "\xc3", "\xed\xa0\x80"}[n%3]
	}
	panic("class " + cls)
}

// source renders the template body of an abstract template.
// batchSeed is the run's seed (VERIF_SEED): it selects the static texts.
var batchSeed int64

func source(t *tmpl, rng *rand.Rand) string {
	var sb strings.Builder
	sb.WriteString(fmt.Sprintf("package p%02d\n\n", t.Pkg))
	hasCSS := ""
	for _, it := range t.Items {
		if it.K == "cssconst" {
			hasCSS = it.E
		}
	}
	if hasCSS != "" {
		sb.WriteString(fmt.Sprintf("css cc%05d() {\n\tcolor: %s;\n}\n\n", t.ID, hasCSS))
	}
	sb.WriteString(fmt.Sprintf("templ %s%s {\n", t.Name, signature))
	if t.Text != nil {
		// literal i lives in its own comment, separated by expressions so that the literals stay apart
		for i, l := range t.Text {
			sb.WriteString("<!--")
			for j, cls := range l {
				sb.WriteString(classText(cls, t.ID+i+j))
			}
			sb.WriteString("-->")
			if i+1 < len(t.Text) {
				sb.WriteString("{ x }")
			}
		}
		sb.WriteString("\n}\n")
		return sb.String()
	}
	// two different snippets for the tokens a and b. The choice depends (besides the seed) only on the sequence of the
	// static-text items, so that two versions of a template that differ by moving static text across Go code, or in
	// their Go code only, are concretised with the SAME texts (the model's "same text" must be the same bytes).
	lits := ""
	for _, it := range t.Items {
		if it.K == "lit" {
			lits += it.E
		}
	}
	hs := sha256.Sum256([]byte(fmt.Sprintf("%d/%s", batchSeed, lits)))
	ia := int(hs[0]) % len(snippets)
	ib := (ia + 1 + int(hs[1])%(len(snippets)-1)) % len(snippets)
	for _, it := range t.Items {
		switch it.K {
		case "lit":
			if it.E == "a" {
				sb.WriteString(snippets[ia])
			} else {
				sb.WriteString(snippets[ib])
			}
		case "comment":
			sb.WriteString("<!-- { " + it.E + " } -->")
		case "text":
			sb.WriteString("{ " + it.E + " }")
		case "attr":
			sb.WriteString("<i title={ " + it.E + " }></i>")
		case "style":
			sb.WriteString("<i style={ " + it.E + " }></i>")
		case "url":
			sb.WriteString("<a href={ " + it.E + " }></a>")
		case "class":
			sb.WriteString("<i class={ " + it.E + " }></i>")
		case "cssconst":
			sb.WriteString(fmt.Sprintf("<i class={ cc%05d() }></i>", t.ID))
		case "onattr":
			sb.WriteString("<i onclick={ " + it.E + " }></i>")
		case "sbare":
			sb.WriteString("<script>{{ " + it.E + " }}</script>")
		case "slit":
			sb.WriteString("<script>\"{{ " + it.E + " }}\"</script>")
		case "spread":
			sb.WriteString("<i { " + it.E + "... }></i>")
		case "bool":
			sb.WriteString("<i disabled?={ " + it.E + " }></i>")
		case "if":
			sb.WriteString("if " + it.E + " {\n<em>then</em>\n}")
		case "for":
			sb.WriteString("for range " + it.E + " {\n<em>body</em>\n}")
		case "call":
			sb.WriteString("@" + it.E + "\n")
		case "children":
			sb.WriteString("{ children... }")
		default:
			vhlib.Fatal("unknown item kind %q", it.K)
		}
	}
	sb.WriteString("\n}\n")
	return sb.String()
}

// realExpr maps the model's expression names to the strings the generator registers.
func realExpr(t *tmpl, e string) string {
	switch {
	case e == "xs":
		return "range xs"
	case e == "cc()":
		return fmt.Sprintf("cc%05d()", t.ID)
	case strings.HasPrefix(e, "cls"):
		return "templ.CSSClasses(templ_7745c5c3_Var" + e[3:] + ").String()"
	}
	return e
}

type outcome struct {
	Out string
	Err string
}

func (o outcome) String() string { return o.Out + "|" + o.Err }

// The CSS class id contains the name of the css function, which is unique per template of the batch;
// renderings are compared with that name normalised.
var ccName = regexp.MustCompile(`cc[0-9]{5}`)

func normalise(o outcome) outcome {
	b, err := base64.StdEncoding.DecodeString(o.Out)
	if err != nil {
		return o
	}
	return outcome{Out: base64.StdEncoding.EncodeToString(ccName.ReplaceAll(b, []byte("cc"))), Err: ccName.ReplaceAllString(o.Err, "cc")}
}

// runProgram renders the given templates with the compiled program.
func runProgram(bin string, ids []string, dev bool, root string, dir string) (map[string]outcome, error) {
	idf := filepath.Join(dir, fmt.Sprintf("ids-%d.txt", time.Now().UnixNano()))
	if err := os.WriteFile(idf, []byte(strings.Join(ids, "\n")), 0o644); err != nil {
		return nil, err
	}
	defer os.Remove(idf)
	cmd := exec.Command(bin, idf)
	env := []string{}
	for _, kv := range os.Environ() {
		if strings.HasPrefix(kv, "TEMPL_DEV_MODE") {
			continue
		}
		env = append(env, kv)
	}
	if dev {
		env = append(env, "TEMPL_DEV_MODE=true", "TEMPL_DEV_MODE_ROOT="+root)
	}
	cmd.Env = env
	var stderr bytes.Buffer
	cmd.Stderr = &stderr
	out, err := cmd.Output()
	if err != nil {
		return nil, fmt.Errorf("render program failed: %v: %s", err, stderr.String())
	}
	res := map[string]outcome{}
	for _, line := range strings.Split(string(out), "\n") {
		if line == "" {
			continue
		}
		parts := strings.SplitN(line, "\t", 3)
		if len(parts) != 3 {
			return nil, fmt.Errorf("bad line from render program: %q", line)
		}
		res[parts[0]] = normalise(outcome{Out: parts[1], Err: parts[2]})
	}
	if len(res) != len(ids) {
		return nil, fmt.Errorf("render program returned %d of %d renderings", len(res), len(ids))
	}
	return res, nil
}

func decode(o outcome) string {
	b, _ := base64.StdEncoding.DecodeString(o.Out)
	s := string(b)
	if o.Err != "" {
		s += " [error: " + o.Err + "]"
	}
	return s
}

func handle(h *generatecmd.FSEventHandler, path string, src string, step int) (generatecmd.GenerateResult, error) {
	if err := os.WriteFile(path, []byte(src), 0o644); err != nil {
		return generatecmd.GenerateResult{}, err
	}
	mt := time.Unix(1700000000+int64(step)*10, 0)
	if err := os.Chtimes(path, mt, mt); err != nil {
		return generatecmd.GenerateResult{}, err
	}
	return h.HandleEvent(context.Background(), fsnotify.Event{Name: path, Op: fsnotify.Write})
}

// literalFile is what the development text file must contain for a template source: the literals of the real generator.
func literalFile(src string) string {
	tf, err := parser.ParseString(src)
	if err != nil {
		vhlib.Fatal("%v", err)
	}
	out, err := generator.Generate(tf, new(bytes.Buffer))
	if err != nil {
		vhlib.Fatal("%v", err)
	}
	return strings.Join(out.Literals, "\n")
}

func readTextFile(templPath string) string {
	b, err := os.ReadFile(templruntime.GetDevModeTextFileName(templPath))
	if err != nil {
		return "<missing: " + err.Error() + ">"
	}
	return string(b)
}

const driverTemplate = `// generated by the c16 harness
package main

import (
	"bytes"
	"context"
	"encoding/base64"
	"fmt"
	"os"
	"strconv"
	"strings"
	"time"

	"github.com/a-h/templ"
%s
)

type tf = func(x, y string, u templ.SafeURL, h templ.ComponentScript, b bool, at templ.Attributes, c templ.Component, xs []string) templ.Component

var reg = map[string]tf{
%s
}

func main() {
	stream := len(os.Args) > 4 && os.Args[1] == "-stream"
	var idb []byte
	var err error
	if stream {
		idb = []byte(os.Args[2])
	} else {
		idb, err = os.ReadFile(os.Args[1])
		if err != nil {
			panic(err)
		}
	}
	x := %q
	y := "Y<y>"
	u := templ.SafeURL("/u?a=1&b=\"2\"")
	h := templ.ComponentScript{Name: "hn", Function: "function hn(){}", Call: "hn(\"<\")", CallInline: "hn()"}
	at := templ.Attributes{"data-a": "v\"<"}
	c := templ.Raw("<c/>")
	kids := templ.Raw("<kid/>")
	xs := []string{"1", "2"}
	if stream {
		// render one template continuously: <elapsed ms> <rendering> per line, for <duration ms> every <interval ms>
		dur, _ := strconv.Atoi(os.Args[3])
		gap, _ := strconv.Atoi(os.Args[4])
		f := reg[os.Args[2]]
		start := time.Now()
		for time.Since(start) < time.Duration(dur)*time.Millisecond {
			var buf bytes.Buffer
			ctx := templ.WithChildren(context.Background(), kids)
			err := func() (err error) {
				defer func() {
					if r := recover(); r != nil {
						err = fmt.Errorf("panic: %%v", r)
					}
				}()
				return f(x, y, u, h, true, at, c, xs).Render(ctx, &buf)
			}()
			es := ""
			if err != nil {
				es = strings.ReplaceAll(strings.ReplaceAll(err.Error(), "\n", " "), "\t", " ")
			}
			fmt.Printf("%%d\t%%s\t%%s\n", time.Since(start).Milliseconds(), base64.StdEncoding.EncodeToString(buf.Bytes()), es)
			time.Sleep(time.Duration(gap) * time.Millisecond)
		}
		return
	}
	var out strings.Builder
	for _, id := range strings.Split(string(idb), "\n") {
		if id == "" {
			continue
		}
		f, ok := reg[id]
		if !ok {
			panic("unknown template " + id)
		}
		var buf bytes.Buffer
		ctx := templ.WithChildren(context.Background(), kids)
		err := func() (err error) {
			defer func() {
				if r := recover(); r != nil {
					err = fmt.Errorf("panic: %%v", r)
				}
			}()
			return f(x, y, u, h, true, at, c, xs).Render(ctx, &buf)
		}()
		es := ""
		if err != nil {
			es = strings.ReplaceAll(err.Error(), "\n", " ")
			es = strings.ReplaceAll(es, "\t", " ")
		}
		fmt.Fprintf(&out, "%%s\t%%s\t%%s\n", id, base64.StdEncoding.EncodeToString(buf.Bytes()), es)
	}
	os.Stdout.WriteString(out.String())
}
`

func main() {
	if len(os.Args) < 3 || os.Args[1] != "run" {
		vhlib.Fatal("usage: c16 run <config.json>")
	}
	var cfg config
	cb, err := os.ReadFile(os.Args[2])
	if err != nil {
		vhlib.Fatal("%v", err)
	}
	if err := json.Unmarshal(cb, &cfg); err != nil {
		vhlib.Fatal("%v", err)
	}
	if cfg.PkgSize == 0 {
		cfg.PkgSize = 400
	}
	os.Unsetenv("TEMPL_DEV_MODE")
	rng := rand.New(rand.NewSource(cfg.Seed))
	batchSeed = cfg.Seed

	// ---- load the model's transitions ----------------------------------------------------------
	var edges []edge
	if err := vhlib.Each(cfg.Edges, func(line []byte) error {
		var e edge
		if err := json.Unmarshal(line, &e); err != nil {
			return err
		}
		edges = append(edges, e)
		return nil
	}); err != nil {
		vhlib.Fatal("%v", err)
	}
	emitted := len(edges)
	// four pools, by the emitting model's own decision: edits that only move static text across Go code (always
	// kept: the text file must be rewritten although its concatenated text is unchanged), transitions the model calls
	// unfaithful (only when the emission uses a defective HasChanged rule), faithful transitions without rebuild (these
	// exercise the development-mode rendering) and transitions with a rebuild (decision only)
	var boundary, keep, quiet, rebuild []edge
	for _, e := range edges {
		switch {
		case e.Boundary && !e.Go:
			boundary = append(boundary, e)
		case e.Sig != "faithful" && !e.Go:
			keep = append(keep, e)
		case !e.Go:
			quiet = append(quiet, e)
		default:
			rebuild = append(rebuild, e)
		}
	}
	sample := func(es []edge, n int) []edge {
		rng.Shuffle(len(es), func(i, j int) { es[i], es[j] = es[j], es[i] })
		if n > 0 && len(es) > n {
			return es[:n]
		}
		return es
	}
	keep = sample(keep, cfg.MaxUnfaithful)
	boundary = sample(boundary, cfg.MaxBoundary)
	if cfg.MaxCases > 0 {
		quiet = sample(quiet, cfg.MaxCases*2/3)
		rebuild = sample(rebuild, cfg.MaxCases/3)
	}
	pools := map[string]int{"text_moved_across_go_code": len(boundary), "model_unfaithful": len(keep), "model_faithful_no_rebuild": len(quiet), "model_rebuild": len(rebuild)}
	edges = append(append(append(boundary, keep...), quiet...), rebuild...)

	var texts []textCase
	if cfg.Texts != "" {
		if err := vhlib.Each(cfg.Texts, func(line []byte) error {
			var c struct {
				Op   string     `json:"op"`
				Lits [][]string `json:"lits"`
				File []string   `json:"file"`
			}
			if err := json.Unmarshal(line, &c); err != nil {
				return err
			}
			if c.Op == "case" {
				texts = append(texts, textCase{Lits: c.Lits, File: c.File})
			}
			return nil
		}); err != nil {
			vhlib.Fatal("%v", err)
		}
	}

	// ---- distinct templates ----------------------------------------------------------------------
	byKey := map[string]*tmpl{}
	var all []*tmpl
	add := func(items []item, nlits int, exprs []string) *tmpl {
		k := key(items)
		if t, ok := byKey[k]; ok {
			if nlits >= 0 && t.NLits < 0 {
				t.NLits, t.Exprs = nlits, exprs
			}
			return t
		}
		t := &tmpl{ID: len(all) + 1, Items: append([]item{}, items...), NLits: nlits, Exprs: exprs}
		if t.Items == nil {
			t.Items = []item{}
		}
		byKey[k] = t
		all = append(all, t)
		return t
	}
	for _, e := range edges {
		add(e.C, -1, nil)
		add(e.P, -1, nil)
		add(e.S, e.NLits, e.Exprs)
	}
	nAbstract := len(all)
	for _, tc := range texts {
		t := &tmpl{ID: len(all) + 1, Text: tc.Lits, NLits: -1}
		all = append(all, t)
	}
	if err := os.MkdirAll(cfg.Work, 0o755); err != nil {
		vhlib.Fatal("%v", err)
	}
	npkg := (len(all) + cfg.PkgSize - 1) / cfg.PkgSize
	for _, t := range all {
		t.Pkg = (t.ID - 1) / cfg.PkgSize
		t.Name = fmt.Sprintf("T%05d", t.ID)
		dir := filepath.Join(cfg.Work, fmt.Sprintf("p%02d", t.Pkg))
		if err := os.MkdirAll(dir, 0o755); err != nil {
			vhlib.Fatal("%v", err)
		}
		t.Path = filepath.Join(dir, fmt.Sprintf("t%05d.templ", t.ID))
		t.Src = source(t, rng)
	}
	// path shapes: each in its own directory and package
	nShapes := 0
	if cfg.Paths != "" {
		if err := vhlib.Each(cfg.Paths, func(line []byte) error {
			var pc pathCase
			if err := json.Unmarshal(line, &pc); err != nil {
				return err
			}
			if pc.Op != "case" {
				return nil
			}
			nShapes++
			dir := fmt.Sprintf("shapes/s%02d", nShapes)
			t := materialise(pc, nShapes, filepath.Join(cfg.Work, dir), "verifharness/"+cfg.WorkRel+"/"+dir)
			t.ID = len(all) + 1
			all = append(all, t)
			return nil
		}); err != nil {
			vhlib.Fatal("%v", err)
		}
	}

	// ---- generate every template with the real event handler (normal mode) -------------------------
	gen := generatecmd.NewFSEventHandler(logger, cfg.Work, false, []generator.GenerateOpt{}, false, false, generatecmd.FileWriter, false)
	drift := 0
	rejected := 0
	notGenerated := 0
	for _, t := range all {
		if _, perr := parser.ParseString(t.Src); perr != nil {
			if t.Text != nil {
				// a text case the parser does not accept is outside the property's quantifier
				t.Broken = perr.Error()
				rejected++
				continue
			}
			vhlib.Fatal("concretised template %s does not parse: %v\n%s", t.Name, perr, t.Src)
		}
		if _, err := handle(gen, t.Path, t.Src, 0); err != nil {
			// accepted by the parser, static text only differs from templates that generate: the generator
			// cannot produce code for this static text, so neither mode can render it
			t.Broken = err.Error()
			notGenerated++
			os.Remove(t.Path)
			vhlib.Fail("Generate.AcceptedTemplateNotGenerated", "a template the parser accepts cannot be generated (static text with quotes, backslashes, newlines, non-ASCII or non-printable bytes)",
				map[string]any{"template": t.Src, "error": err.Error()})
			continue
		}
		if t.NLits >= 0 {
			// the model's view of the generator output must agree with the real generator
			tf, err := parser.ParseString(t.Src)
			if err != nil {
				vhlib.Fatal("%v", err)
			}
			var b bytes.Buffer
			out, err := generator.Generate(tf, &b)
			if err != nil {
				vhlib.Fatal("%v", err)
			}
			var want []string
			for _, e := range t.Exprs {
				want = append(want, realExpr(t, e))
			}
			got := out.SourceMap.Expressions
			for i, e := range got {
				if strings.HasPrefix(e, t.Name+"(") {
					got = got[i+1:]
					break
				}
			}
			if len(out.Literals) != t.NLits || strings.Join(got, "\x00") != strings.Join(want, "\x00") {
				drift++
				if drift <= 3 {
					vhlib.Drift("generator output differs from the model's Generate", map[string]any{"template": t.Src, "model_nlits": t.NLits, "real_nlits": len(out.Literals), "model_exprs": want, "real_exprs": got})
				}
			}
		}
	}

	// ---- the program ---------------------------------------------------------------------------
	var imports, regs strings.Builder
	for p := 0; p < npkg; p++ {
		imports.WriteString(fmt.Sprintf("\tp%02d \"verifharness/%s/p%02d\"\n", p, cfg.WorkRel, p))
	}
	var ids []string
	for _, t := range all {
		if t.Broken != "" {
			continue
		}
		if t.Shape != "" {
			alias := strings.ToLower(t.Name)
			imports.WriteString(fmt.Sprintf("\t%s %q\n", alias, t.Import))
			regs.WriteString(fmt.Sprintf("\t%q: %s.%s,\n", t.Name, alias, t.Name))
		} else {
			regs.WriteString(fmt.Sprintf("\t%q: p%02d.%s,\n", t.Name, t.Pkg, t.Name))
		}
		ids = append(ids, t.Name)
	}
	drv := filepath.Join(cfg.Work, "drv")
	if err := os.MkdirAll(drv, 0o755); err != nil {
		vhlib.Fatal("%v", err)
	}
	if err := os.WriteFile(filepath.Join(drv, "main.go"), []byte(fmt.Sprintf(driverTemplate, imports.String(), regs.String(), xValue)), 0o644); err != nil {
		vhlib.Fatal("%v", err)
	}
	bin := filepath.Join(cfg.Work, "render.bin")
	t0 := time.Now()
	build := exec.Command("go", "build", "-o", bin, "./"+cfg.WorkRel+"/drv")
	build.Dir = strings.TrimSuffix(cfg.Work, cfg.WorkRel)
	if out, err := build.CombinedOutput(); err != nil {
		vhlib.Fatal("generated code does not compile: %v\n%s", err, string(out))
	}
	buildSecs := time.Since(t0).Seconds()

	// ---- fresh renderings ------------------------------------------------------------------------
	fresh, err := runProgram(bin, ids, false, "", cfg.Work)
	if err != nil {
		vhlib.Fatal("%v", err)
	}
	for _, t := range all {
		if t.Broken == "" {
			t.Fresh = fresh[t.Name].String()
		}
	}
	byName := map[string]*tmpl{}
	for _, t := range all {
		byName[t.Name] = t
	}
	if cfg.Corrupt && len(edges) > 0 {
		// binding self-test: one expected rendering is corrupted; the comparison below must notice
		victim := byKey[key(edges[len(edges)-1].S)]
		for _, e := range edges {
			if !e.Coded && e.Sig == "faithful" {
				victim = byKey[key(e.S)]
				break
			}
		}
		victim.Fresh = "corrupted|"
	}

	// ---- first clause: development mode with the template's own text file --------------------------
	fails := 0
	root0 := filepath.Join(cfg.Work, "txt-0")
	os.MkdirAll(root0, 0o755)
	os.Setenv("TEMPL_DEV_MODE_ROOT", root0)
	dev0 := generatecmd.NewFSEventHandler(logger, cfg.Work, true, []generator.GenerateOpt{}, false, false, generatecmd.FileWriter, false)
	textDrift := 0
	for _, t := range all {
		if t.Broken != "" {
			continue
		}
		r, err := handle(dev0, t.Path, t.Src, 1)
		if err != nil {
			vhlib.Fatal("development-mode generation of %s failed: %v", t.Name, err)
		}
		if !r.GoUpdated {
			vhlib.Fatal("first generation of %s did not request a build", t.Name)
		}
	}
	devAll, err := runProgram(bin, ids, true, root0, cfg.Work)
	if err != nil {
		vhlib.Fatal("%v", err)
	}
	sameChecked := 0
	shapesChecked, shapeDrift := 0, 0
	verbatimChecked := 0
	for _, t := range all {
		if t.Broken != "" {
			continue
		}
		sameChecked++
		if got := devAll[t.Name].String(); got != fresh[t.Name].String() {
			fails++
			if t.Shape != "" {
				vhlib.Fail("TextFileName.WriterReaderDisagree", "the running program does not find (or finds another) text file than the generator wrote for this way of reaching the template",
					map[string]any{"path_shape": t.Shape, "generator_was_given": t.Path, "canonical_template_file": t.File, "normal": decode(fresh[t.Name]), "dev": decode(devAll[t.Name]),
						"text_file_written": templruntime.GetDevModeTextFileName(t.Path)})
			} else {
				vhlib.Fail("DevEqualsNormal.TextFileRoundTrip", "development-mode rendering with the template's own text file differs from the normal rendering",
					map[string]any{"template": t.Src, "normal": decode(fresh[t.Name]), "dev": decode(devAll[t.Name])})
			}
		}
		if t.Shape != "" {
			shapesChecked++
			// model drift only: the name the generator wrote to must be the name of the specification's canonical file
			if templruntime.GetDevModeTextFileName(t.Path) != templruntime.GetDevModeTextFileName(t.File) {
				shapeDrift++
			}
		}
		if t.Text != nil {
			// the contents of an HTML comment are rendered verbatim: an oracle for the literal's bytes that is
			// independent of the (shared) escaping of the generated code and the text file
			var want strings.Builder
			for i, l := range t.Text {
				want.WriteString("<!--")
				for j, cls := range l {
					want.WriteString(classText(cls, t.ID+i+j))
				}
				want.WriteString("-->")
				if i+1 < len(t.Text) {
					want.WriteString(templ.EscapeString(xValue))
				}
			}
			verbatimChecked++
			if got := decode(fresh[t.Name]); got != want.String() {
				fails++
				vhlib.Fail("DevEqualsNormal.LiteralNotVerbatim", "static text of a comment is not rendered verbatim",
					map[string]any{"template": t.Src, "normal": got, "dev": decode(devAll[t.Name]), "want": want.String()})
			}
			// model drift only: the text file's lines against DevModeText's File
			txt, err := os.ReadFile(templruntime.GetDevModeTextFileName(t.Path))
			if err != nil {
				vhlib.Fatal("text file of %s missing: %v", t.Name, err)
			}
			if len(strings.Split(string(txt), "\n")) != len(t.Text) {
				textDrift++
			}
		}
	}
	if cfg.Corrupt {
		// restore nothing: the corrupted expectation stays for the transition replay below
	}

	// ---- second clause: transitions --------------------------------------------------------------
	type tcase struct {
		e     edge
		c, s  *tmpl
		p     *tmpl
		round int
		stale string // the text file does not hold the literals of the last generation (what it holds instead)
	}
	perC := map[string]int{}
	var cases []*tcase
	maxRound := 0
	for _, e := range edges {
		c := &tcase{e: e, c: byKey[key(e.C)], p: byKey[key(e.P)], s: byKey[key(e.S)]}
		perC[c.c.Name]++
		c.round = perC[c.c.Name]
		if c.round > maxRound {
			maxRound = c.round
		}
		cases = append(cases, c)
	}
	byRound := make([][]*tcase, maxRound+1)
	for _, c := range cases {
		byRound[c.round] = append(byRound[c.round], c)
	}
	// a template's source at C's path: same body, but the names of C (function, css class) are kept
	at := func(body *tmpl, where *tmpl) string {
		s := body.Src
		s = strings.ReplaceAll(s, body.Name+"(", where.Name+"(")
		s = strings.ReplaceAll(s, fmt.Sprintf("cc%05d", body.ID), fmt.Sprintf("cc%05d", where.ID))
		s = strings.ReplaceAll(s, fmt.Sprintf("package p%02d", body.Pkg), fmt.Sprintf("package p%02d", where.Pkg))
		return s
	}
	replayed, noRebuild, rebuilds, premiseFailed, manifest, notManifest := 0, 0, 0, 0, 0, 0
	realVsCoded, realVsHash := 0, 0
	txtChecked, staleTxt, txtDecisionDrift, boundaryReplayed := 0, 0, 0, 0
	skippedBroken := 0
	bySig := map[string]int{}
	manifestBySig := map[string]int{}
	samples := 0
	for r := 1; r <= maxRound; r++ {
		root := filepath.Join(cfg.Work, fmt.Sprintf("txt-%d", r))
		os.MkdirAll(root, 0o755)
		os.Setenv("TEMPL_DEV_MODE_ROOT", root)
		h := generatecmd.NewFSEventHandler(logger, cfg.Work, true, []generator.GenerateOpt{}, false, false, generatecmd.FileWriter, false)
		var check []*tcase
		var cids []string
		for _, c := range byRound[r] {
			replayed++
			if c.c.Broken != "" || c.p.Broken != "" || c.s.Broken != "" {
				skippedBroken++ // already reported as Generate.AcceptedTemplateNotGenerated
				continue
			}
			if _, err := handle(h, c.c.Path, at(c.c, c.c), 1); err != nil {
				vhlib.Fatal("%v", err)
			}
			if c.p != c.c {
				rp, err := handle(h, c.c.Path, at(c.p, c.c), 2)
				if err != nil {
					vhlib.Fatal("%v", err)
				}
				if rp.GoUpdated {
					// the real code asked for a rebuild where the model (as coded) did not: the premise of
					// this transition does not arise in the real session
					premiseFailed++
					continue
				}
			}
			rs, err := handle(h, c.c.Path, at(c.s, c.c), 3)
			if err != nil {
				vhlib.Fatal("%v", err)
			}
			if rs.GoUpdated != c.e.Coded {
				realVsCoded++
			}
			if rs.GoUpdated != c.e.Hash {
				realVsHash++
			}
			if rs.GoUpdated != c.e.Hash && (rs.GoUpdated != c.e.Coded || realVsCoded > 0) {
				vhlib.Drift("the real HasChanged decision differs from the model's rule",
					map[string]any{"previous_template": at(c.p, c.c), "saved_template": at(c.s, c.c), "real_GoUpdated": rs.GoUpdated, "model_coded": c.e.Coded, "model_codehash": c.e.Hash})
			}
			// the text file must hold the literals of this generation (eventhandler: TextUpdated / UpsertHash)
			txtChecked++
			if wantTxt, gotTxt := literalFile(at(c.s, c.c)), readTextFile(c.c.Path); gotTxt != wantTxt {
				c.stale = gotTxt
				staleTxt++
				if rs.TextUpdated == c.e.TxtUpd {
					vhlib.Fatal("text file of %s is stale although TextUpdated=%v as the model predicts", c.c.Name, rs.TextUpdated)
				}
			} else if rs.TextUpdated != c.e.TxtUpd {
				txtDecisionDrift++
			}
			if c.e.Boundary {
				boundaryReplayed++
			}
			if rs.GoUpdated {
				rebuilds++
				continue
			}
			noRebuild++
			check = append(check, c)
			cids = append(cids, c.c.Name)
		}
		if len(cids) == 0 {
			continue
		}
		dev, err := runProgram(bin, cids, true, root, cfg.Work)
		if err != nil {
			vhlib.Fatal("%v", err)
		}
		for _, c := range check {
			got := dev[c.c.Name].String()
			want := c.s.Fresh
			bySig[c.e.Sig]++
			rep := map[string]any{
				"compiled_template": c.c.Src, "previous_template": at(c.p, c.c), "saved_template": at(c.s, c.c),
				"GoUpdated": false, "dev_rendering": decode(dev[c.c.Name]), "fresh_rendering": decode(outcomeOf(want)),
				"model_signature": c.e.Sig,
			}
			if got != want {
				fails++
				manifest++
				manifestBySig[c.e.Sig]++
				sig := c.e.Sig
				if c.stale != "" {
					// root cause: the handler decided not to rewrite the text file although the literals changed
					sig = "TextFile.NotRewritten"
					if c.e.Boundary {
						sig = "TextFile.NotRewritten.TextMovedAcrossGoCode"
					}
					rep["text_file_holds"] = c.stale
				} else if c.e.Coded {
					// HasChanged as coded at the pinned commit asks for a rebuild here; the code under test did not
					sig = "HasChanged.WeakerThanCoded"
				} else if sig == "faithful" {
					sig = "NoRebuildMeansFaithful.UnexplainedDifference"
				}
				vhlib.Fail(sig, "no rebuild was requested for an edit, but the running program (development mode, updated text file) renders the saved template differently from a fresh build", rep)
			} else {
				if c.e.Sig != "faithful" {
					notManifest++
				}
				if samples < 4 && c.e.Sig == "faithful" && len(c.e.S) >= 2 {
					samples++
					vhlib.Sample(rep)
				}
			}
		}
	}
	// ---- continuous rendering across a text-only edit (runtime/watchmode.go: the cache of the text file) -------------
	// The program renders a template every streamGap ms (no pause of 100 ms, the cache's own time constant) for
	// streamDur ms; in the middle the real handler processes a text-only edit. The new static text must be seen:
	// every rendering later than streamSettle ms after the edit has to equal the fresh rendering of the saved template.
	const streamDur, streamGap, streamEditAt, streamSettle = 1500, 10, 400, 500
	streamRes := map[string]any{"checked": 0, "inconclusive": 0, "bound_ms": streamSettle, "render_every_ms": streamGap}
	{
		var picks []*tcase
		for _, c := range cases {
			if !c.e.Go && !c.e.Boundary && c.e.Sig == "faithful" && c.c == c.p && c.c.Broken == "" && c.s.Broken == "" && c.c.Fresh != c.s.Fresh && len(picks) < 3 {
				dup := false
				for _, q := range picks {
					dup = dup || q.c == c.c
				}
				if !dup {
					picks = append(picks, c)
				}
			}
		}
		root := filepath.Join(cfg.Work, "txt-stream")
		os.MkdirAll(root, 0o755)
		os.Setenv("TEMPL_DEV_MODE_ROOT", root)
		h := generatecmd.NewFSEventHandler(logger, cfg.Work, true, []generator.GenerateOpt{}, false, false, generatecmd.FileWriter, false)
		type proc struct {
			cmd   *exec.Cmd
			out   bytes.Buffer
			start time.Time
		}
		var procs []*proc
		for _, c := range picks {
			if _, err := handle(h, c.c.Path, at(c.c, c.c), 1); err != nil {
				vhlib.Fatal("%v", err)
			}
		}
		time.Sleep(150 * time.Millisecond) // the text files are older than the cache's time constant when the programs start
		for _, c := range picks {
			p := &proc{cmd: exec.Command(bin, "-stream", c.c.Name, strconv.Itoa(streamDur), strconv.Itoa(streamGap))}
			for _, kv := range os.Environ() {
				if !strings.HasPrefix(kv, "TEMPL_DEV_MODE") {
					p.cmd.Env = append(p.cmd.Env, kv)
				}
			}
			p.cmd.Env = append(p.cmd.Env, "TEMPL_DEV_MODE=true", "TEMPL_DEV_MODE_ROOT="+root)
			p.cmd.Stdout = &p.out
			p.start = time.Now()
			if err := p.cmd.Start(); err != nil {
				vhlib.Fatal("%v", err)
			}
			procs = append(procs, p)
		}
		time.Sleep(streamEditAt * time.Millisecond)
		var editedAt []time.Time
		for _, c := range picks {
			rs, err := handle(h, c.c.Path, at(c.s, c.c), 2)
			if err != nil {
				vhlib.Fatal("%v", err)
			}
			if rs.GoUpdated || !rs.TextUpdated {
				vhlib.Fatal("stream check: the edit of %s is not text-only for the real handler (%+v)", c.c.Name, rs)
			}
			editedAt = append(editedAt, time.Now())
		}
		for i, p := range procs {
			c := picks[i]
			if err := p.cmd.Wait(); err != nil {
				if fails > 0 {
					// the program already misbehaves in the plain comparisons above (reported there)
					streamRes["inconclusive"] = streamRes["inconclusive"].(int) + 1
					continue
				}
				vhlib.Fatal("stream program failed: %v", err)
			}
			edit := editedAt[i].Sub(p.start).Milliseconds() + 30 // process start-up: elapsed times of the program lag behind
			sawOld, late, lateStale, maxGap, prevT := false, 0, 0, int64(0), int64(-1)
			lastOut := ""
			for _, line := range strings.Split(p.out.String(), "\n") {
				parts := strings.SplitN(line, "\t", 3)
				if len(parts) != 3 {
					continue
				}
				t, _ := strconv.ParseInt(parts[0], 10, 64)
				o := normalise(outcome{Out: parts[1], Err: parts[2]}).String()
				if prevT >= 0 && t-prevT > maxGap {
					maxGap = t - prevT
				}
				prevT = t
				if t < edit-60 && o == c.c.Fresh {
					sawOld = true
				}
				if t > edit+streamSettle {
					late++
					if o != c.s.Fresh {
						lateStale++
						lastOut = o
					}
				}
			}
			if !sawOld || late < 5 {
				streamRes["inconclusive"] = streamRes["inconclusive"].(int) + 1
				continue
			}
			streamRes["checked"] = streamRes["checked"].(int) + 1
			streamRes["max_gap_ms"] = maxGap
			if lateStale > 0 {
				fails++
				vhlib.Fail("DevCache.StaleUnderContinuousRendering", "a program that renders continuously never shows a text-only edit: the development-mode cache does not re-read the text file",
					map[string]any{"compiled_template": c.c.Src, "saved_template": at(c.s, c.c), "renderings_later_than_ms_after_edit": streamSettle, "stale_renderings": lateStale, "of": late,
						"max_gap_between_renderings_ms": maxGap, "stale_rendering": decode(outcomeOf(lastOut)), "fresh_rendering": decode(outcomeOf(c.s.Fresh))})
			}
		}
	}

	sigs := []string{}
	for s := range bySig {
		sigs = append(sigs, s)
	}
	sort.Strings(sigs)
	vhlib.Summary(map[string]any{
		"edges_emitted": emitted, "edges_selected": len(edges), "selected_pools": pools, "edges_replayed": replayed,
		"templates": nAbstract, "text_cases": len(texts), "text_cases_rejected_by_parser": rejected,
		"dev_equals_normal_checked": sameChecked, "verbatim_checked": verbatimChecked, "accepted_not_generated": notGenerated,
		"packages": npkg, "build_seconds": buildSecs, "rounds": maxRound,
		"no_rebuild_checked": noRebuild, "rebuild_requested": rebuilds, "premise_failed": premiseFailed, "skipped_not_generated": skippedBroken,
		"generator_drift": drift, "text_file_drift": textDrift,
		"path_shapes_checked": shapesChecked, "path_shapes": nShapes, "path_shape_name_drift": shapeDrift,
		"text_file_checked_after_edit": txtChecked, "text_file_stale_after_edit": staleTxt, "text_updated_decision_drift": txtDecisionDrift,
		"text_moved_across_go_code_replayed": boundaryReplayed, "stream": streamRes,
		"real_differs_from_coded_rule": realVsCoded, "real_differs_from_codehash_rule": realVsHash,
		"no_rebuild_by_model_signature": bySig, "manifest_by_signature": manifestBySig,
		"unfaithful_manifest": manifest, "unfaithful_not_manifest_in_bytes": notManifest, "fails": fails,
	})
}

func outcomeOf(s string) outcome {
	i := strings.Index(s, "|")
	if i < 0 {
		return outcome{Out: s}
	}
	return outcome{Out: s[:i], Err: s[i+1:]}
}
