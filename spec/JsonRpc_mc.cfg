\* C18 conn: design check (safety): all interleavings of callers, notifiers, run loop, peer and cancellations.
CONSTANTS
  NC = 2
  NN = 1
  MaxPN = 1
  MaxPC = 1
  UseWriteMu = TRUE
  ChanCap = 1
  RegisterFirst = TRUE
INIT Init
NEXT Next
INVARIANTS TypeOK Matched NoInventedResponse FramesNeverInterleave MutexOK ReaderNeverBlocks PendingExact RegisteredBeforeSending PendingEmptyAtQuiescence
CHECK_DEADLOCK FALSE
