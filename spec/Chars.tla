------------------------------- MODULE Chars -------------------------------
(* Shared symbol partition of the input space (DESIGN.md 3.3).  SINGLE SOURCE OF TRUTH: the
   harnesses never hard-code the classes; TLC prints CharTable as JSON once per run
   (PrintT(<<"CHARS", ToJson(CharTable)>>)) and the harness classifies/concretises with THAT table.

   A symbol is an integer:
     0..127      each ASCII character is its own symbol (= its code point)
     128..138    classes of everything else (constants kXXX below)

   INTERFACE (stable: extend, never rename)
     Symbol, Ascii, ClassSyms
     cNUL cTAB cLF cFF cCR cSP cBANG cDQ cHASH cDOLLAR cPCT cAMP cSQ cLPAR cRPAR cSTAR cPLUS cCOMMA
     cDASH cDOT cSLASH cCOLON cSEMI cLT cEQ cGT cQMARK cAT cLBRK cBSL cRBRK cCARET cUSCORE cBTICK
     cLBRACE cPIPE cRBRACE cTILDE cDEL                                  named ASCII symbols
     kC1CTL kLS kPS kLONGS kKELVIN kBOM kFFFD kNA2 kNA3 kNA4 kBADBYTE   class symbols
     IsUpper(c) IsLower(c) IsAlpha(c) IsDigit(c) IsAlnum(c) IsHexDigit(c) HexVal(c) DigitVal(c)
     Lower(c)            ASCII lower-casing (identity elsewhere)
     FoldAscii(c)        Unicode simple case folding as far as it reaches ASCII: A-Z -> a-z,
                         U+017F LONG S -> "s", U+212A KELVIN -> "k" (strings.EqualFold)
     IsHtmlSpace(c)      TAB LF FF CR SPACE
     IsC0OrSpace(c)      U+0000..U+0020
     W(<<"s","c",...>>)  lower-case word as a sequence of symbols
     WU(<<"D","O",..>>)  upper-case word
     SymOfCp(n)          the symbol of code point n (n in 0..1114111; surrogates/out of range -> kFFFD)
     CharTable           the partition, for export
     SymName(c)          printable name, for labels                                              *)
EXTENDS Integers, Sequences, TLC

Ascii     == 0..127
kC1CTL    == 128   \* U+0080..U+009F
kLS       == 129   \* U+2028 LINE SEPARATOR
kPS       == 130   \* U+2029 PARAGRAPH SEPARATOR
kLONGS    == 131   \* U+017F LATIN SMALL LETTER LONG S   (EqualFold: = "s")
kKELVIN   == 132   \* U+212A KELVIN SIGN                 (EqualFold: = "k")
kBOM      == 133   \* U+FEFF
kFFFD     == 134   \* U+FFFD REPLACEMENT CHARACTER
kNA2      == 135   \* any other scalar encoded in 2 bytes of UTF-8 (U+00A0..U+07FF)
kNA3      == 136   \* any other scalar encoded in 3 bytes (U+0800..U+FFFF without surrogates)
kNA4      == 137   \* any scalar encoded in 4 bytes (U+10000..U+10FFFF)
kBADBYTE  == 138   \* a byte that is not part of a valid UTF-8 encoding (incl. encoded surrogates)
ClassSyms == 128..138
Symbol    == 0..138

cNUL == 0      cTAB == 9     cLF == 10     cFF == 12     cCR == 13     cSP == 32
cBANG == 33    cDQ == 34     cHASH == 35   cDOLLAR == 36 cPCT == 37    cAMP == 38    cSQ == 39
cLPAR == 40    cRPAR == 41   cSTAR == 42   cPLUS == 43   cCOMMA == 44  cDASH == 45   cDOT == 46
cSLASH == 47   cCOLON == 58  cSEMI == 59   cLT == 60     cEQ == 61     cGT == 62     cQMARK == 63
cAT == 64      cLBRK == 91   cBSL == 92    cRBRK == 93   cCARET == 94  cUSCORE == 95 cBTICK == 96
cLBRACE == 123 cPIPE == 124  cRBRACE == 125 cTILDE == 126 cDEL == 127

IsUpper(c)    == c \in 65..90
IsLower(c)    == c \in 97..122
IsAlpha(c)    == IsUpper(c) \/ IsLower(c)
IsDigit(c)    == c \in 48..57
IsAlnum(c)    == IsAlpha(c) \/ IsDigit(c)
IsHexDigit(c) == IsDigit(c) \/ c \in 65..70 \/ c \in 97..102
DigitVal(c)   == c - 48
HexVal(c)     == IF IsDigit(c) THEN c - 48 ELSE IF c \in 65..70 THEN c - 55 ELSE c - 87
Lower(c)      == IF IsUpper(c) THEN c + 32 ELSE c
FoldAscii(c)  == IF IsUpper(c) THEN c + 32
                 ELSE IF c = kLONGS THEN 115
                 ELSE IF c = kKELVIN THEN 107
                 ELSE c
IsHtmlSpace(c) == c \in {cTAB, cLF, cFF, cCR, cSP}
IsC0OrSpace(c) == c \in 0..32

LetterCode ==
    [x \in {"a","b","c","d","e","f","g","h","i","j","k","l","m","n","o","p","q","r","s","t","u","v","w","x","y","z"} |->
       CASE x = "a" -> 97  [] x = "b" -> 98  [] x = "c" -> 99  [] x = "d" -> 100 [] x = "e" -> 101
         [] x = "f" -> 102 [] x = "g" -> 103 [] x = "h" -> 104 [] x = "i" -> 105 [] x = "j" -> 106
         [] x = "k" -> 107 [] x = "l" -> 108 [] x = "m" -> 109 [] x = "n" -> 110 [] x = "o" -> 111
         [] x = "p" -> 112 [] x = "q" -> 113 [] x = "r" -> 114 [] x = "s" -> 115 [] x = "t" -> 116
         [] x = "u" -> 117 [] x = "v" -> 118 [] x = "w" -> 119 [] x = "x" -> 120 [] x = "y" -> 121
         [] x = "z" -> 122]
UpperCode ==
    [x \in {"A","B","C","D","E","F","G","H","I","J","K","L","M","N","O","P","Q","R","S","T","U","V","W","X","Y","Z"} |->
       CASE x = "A" -> 65 [] x = "B" -> 66 [] x = "C" -> 67 [] x = "D" -> 68 [] x = "E" -> 69
         [] x = "F" -> 70 [] x = "G" -> 71 [] x = "H" -> 72 [] x = "I" -> 73 [] x = "J" -> 74
         [] x = "K" -> 75 [] x = "L" -> 76 [] x = "M" -> 77 [] x = "N" -> 78 [] x = "O" -> 79
         [] x = "P" -> 80 [] x = "Q" -> 81 [] x = "R" -> 82 [] x = "S" -> 83 [] x = "T" -> 84
         [] x = "U" -> 85 [] x = "V" -> 86 [] x = "W" -> 87 [] x = "X" -> 88 [] x = "Y" -> 89
         [] x = "Z" -> 90]
W(s)  == [i \in 1..Len(s) |-> LetterCode[s[i]]]
WU(s) == [i \in 1..Len(s) |-> UpperCode[s[i]]]

(* Code point -> symbol.  Order matters: the singleton classes are tested before the length classes. *)
SymOfCp(n) ==
    IF n < 0 \/ n > 1114111 \/ n \in 55296..57343 THEN kFFFD
    ELSE IF n < 128 THEN n
    ELSE IF n \in 128..159 THEN kC1CTL
    ELSE IF n = 383 THEN kLONGS
    ELSE IF n = 8232 THEN kLS
    ELSE IF n = 8233 THEN kPS
    ELSE IF n = 8490 THEN kKELVIN
    ELSE IF n = 65279 THEN kBOM
    ELSE IF n = 65533 THEN kFFFD
    ELSE IF n < 2048 THEN kNA2
    ELSE IF n < 65536 THEN kNA3
    ELSE kNA4

(* The partition for export.  The harness classifies a decoded code point by the FIRST class whose
   ranges contain it (same order as SymOfCp); a byte that does not decode is BADBYTE.  canon is the
   canonical member used for concretisation, more are boundary members.                          *)
CharTable ==
    [ ascii   |-> [lo |-> 0, hi |-> 127],
      classes |-> <<
        [sym |-> kC1CTL,   name |-> "C1CTL",   ranges |-> << <<128, 159>> >>,     canon |-> 133,    more |-> <<128, 159>>],
        [sym |-> kLONGS,   name |-> "LONGS",   ranges |-> << <<383, 383>> >>,     canon |-> 383,    more |-> <<>>],
        [sym |-> kLS,      name |-> "LS",      ranges |-> << <<8232, 8232>> >>,   canon |-> 8232,   more |-> <<>>],
        [sym |-> kPS,      name |-> "PS",      ranges |-> << <<8233, 8233>> >>,   canon |-> 8233,   more |-> <<>>],
        [sym |-> kKELVIN,  name |-> "KELVIN",  ranges |-> << <<8490, 8490>> >>,   canon |-> 8490,   more |-> <<>>],
        [sym |-> kBOM,     name |-> "BOM",     ranges |-> << <<65279, 65279>> >>, canon |-> 65279,  more |-> <<>>],
        [sym |-> kFFFD,    name |-> "FFFD",    ranges |-> << <<65533, 65533>> >>, canon |-> 65533,  more |-> <<>>],
        [sym |-> kNA2,     name |-> "NA2",     ranges |-> << <<160, 2047>> >>,    canon |-> 233,    more |-> <<160, 173, 2047>>],
        [sym |-> kNA3,     name |-> "NA3",     ranges |-> << <<2048, 55295>>, <<57344, 65535>> >>,
                                                                                   canon |-> 8364,   more |-> <<2048, 55295, 57344, 65534, 65535, 8206>>],
        [sym |-> kNA4,     name |-> "NA4",     ranges |-> << <<65536, 1114111>> >>, canon |-> 128512, more |-> <<65536, 1114111>>],
        [sym |-> kBADBYTE, name |-> "BADBYTE", ranges |-> <<>>,                   canon |-> -1,     more |-> <<>>]
      >> ]

SymName(c) ==
    CASE c = kC1CTL -> "C1CTL" [] c = kLS -> "LS" [] c = kPS -> "PS" [] c = kLONGS -> "LONGS"
      [] c = kKELVIN -> "KELVIN" [] c = kBOM -> "BOM" [] c = kFFFD -> "FFFD" [] c = kNA2 -> "NA2"
      [] c = kNA3 -> "NA3" [] c = kNA4 -> "NA4" [] c = kBADBYTE -> "BADBYTE"
      [] OTHER -> ToString(c)
=============================================================================
