#!/usr/bin/env python3
"""C11 -- the buffered HTTP handler responds all-or-nothing (spec/Handler.tla).

MC   : TLC checks AllOrNothing / UntouchedWhileRendering / PooledBuffersAreEmpty / StreamedAsDocumented on
       handler.go transcribed step by step over a net/http ResponseWriter model, for every configuration
       (Status x ContentType x ErrorHandler x Streaming) x every component (k chunks, ok/fail) x sequences of
       MaxReq requests over one buffer pool. A failing component fails with one of four error classes (plain, wraps
       context.Canceled, wraps context.DeadlineExceeded, the request context really cancelled); handler.go treats them
       alike and FailureIsReported (error handler consulted / default 500, never a success status) is decided per class. The error-handler kind "nilhandler" (the configured ErrorHandler returns
       a nil http.Handler, handler.go calls ServeHTTP on it and panics) has the terminal outcome "aborted": nothing of
       the document and no status line are committed (NoDocumentAfterFailure, AbortedSendsNothing). Five negative
       configs (modelled bugs, incl. nilFallsThrough: a nil error handler result continues on the success path) must
       each be rejected.
GEN  : every terminal state (Finish edge: configuration, component, predicted response) is replayed on the
       real templ.Handler with httptest.ResponseRecorder AND through a real net/http server + client, for
       several chunk-size profiles around the buffer growth points, with a plain func component and with real
       generated code wrapped around it; status, Content-Type, X-Err and body are compared. A panic of the handler is
       recovered in the recorder transport and seen as a transport error / empty reply by the client of the server
       transport (net/http recovers it, logs it and closes the connection): both are the outcome "aborted".
"""
import json, os, sys
sys.path.insert(0, os.path.join(os.path.dirname(os.path.abspath(__file__)), "..", "lib"))
import vlib

EH_KINDS = ["unset", "statusbody", "bodyonly", "nothing", "headers", "nilhandler"]
ERR_CLASSES = ["plain", "canceled", "deadline", "reqcancelled"]
CTYPES = ["default", "htmlcharset", "json", "eventstream", "empty"]
NEGATIVES = ["headersFirst", "noReset", "bufferInErrorPath", "statusInErrorPath", "nilFallsThrough", "silentOnCanceled", "sseStreams"]


def main():
    ck = vlib.Check("C11", "model_checking")
    thorough = ck.tier == "thorough"
    maxk = 5 if thorough else 3
    maxreq = 3

    def cfg(name, variant=None):
        text = open(os.path.join(vlib.SPEC, name)).read().replace("MaxK = 3", "MaxK = %d" % maxk).replace("MaxReq = 3", "MaxReq = %d" % maxreq)
        if variant:
            text = text.replace('"headersFirst"', '"%s"' % variant)
        return text

    # --- MC -------------------------------------------------------------------------------------
    import concurrent.futures as cf
    pool = cf.ThreadPoolExecutor(max_workers=10)
    f_gen = pool.submit(vlib.tlc, "Handler", "gen.cfg", files={"gen.cfg": cfg("Handler_gen.cfg")}, workers=1, timeout=900)
    f_negs = {v: pool.submit(vlib.tlc, "Handler", "neg-%s.cfg" % v, files={"neg-%s.cfg" % v: cfg("Handler_neg.cfg", v)}, workers=2, timeout=300)
              for v in NEGATIVES}
    mc = vlib.tlc("Handler", "mc.cfg", files={"mc.cfg": cfg("Handler_mc.cfg")}, workers=6, timeout=900,
                  coverage=thorough)
    if not mc.ok:
        raise vlib.InfraError("Handler model does not satisfy its invariants (%s): spec and code model disagree" % mc.violated)
    if thorough and mc.coverage_zero:
        raise vlib.InfraError("spec actions never taken: %s" % mc.coverage_zero)
    ck.add_tlc(mc, "Handler_mc MaxK=%d MaxReq=%d" % (maxk, maxreq))
    for v in NEGATIVES:
        neg = f_negs[v].result()
        if neg.violated != "AllOrNothing":
            raise vlib.InfraError("negative config Variant=%s was not rejected (%s): the invariant is vacuous" % (v, neg.violated))
    ck.set("negative_configs_rejected", NEGATIVES)

    # --- GEN: every terminal state replayed on the real handler ---------------------------------
    gen = f_gen.result()
    edges = gen.tagged("EDGE")
    nhalf = 3 * len(CTYPES) * len(EH_KINDS) * (maxk + 1) * (1 + len(ERR_CLASSES))     # per streaming setting
    # per configuration: request 1 on an empty pool, later requests (streamed: pool empty or not; buffered: not empty)
    expected = nhalf * (1 + 2 * (maxreq - 1)) + nhalf * maxreq
    if not gen.ok or len(edges) != expected:
        raise vlib.InfraError("terminal-state emission incomplete: %d Finish edges, expected %d" % (len(edges), expected))
    if gen.distinct != mc.distinct:
        raise vlib.InfraError("emission run explored %d states, MC run %d" % (gen.distinct, mc.distinct))
    ck.add_tlc(gen, "Handler_gen (terminal states)")
    aborted = [e for e in edges if e["outcome"] == "aborted"]
    if not aborted or any(not (e["cfg"]["fail"] and e["cfg"]["eh"] == "nilhandler" and e["final"]["aborted"]) for e in aborted) \
            or any(e["final"]["status"] != 0 or e["final"]["body"] for e in aborted if not e["cfg"]["stream"]) \
            or any(e["final"]["aborted"] != (e["cfg"]["fail"] and e["cfg"]["eh"] == "nilhandler") for e in edges):
        raise vlib.InfraError("the specification does not predict 'aborted, nothing committed' exactly for failed renders with a nil error handler result")
    partial = [e for e in edges if e["outcome"] == "partial"]
    if not partial or any(not e["cfg"]["stream"] for e in partial):
        raise vlib.InfraError("the specification does not distinguish streamed (partial allowed) from buffered mode")
    sc = vlib.scratch()
    epath = vlib.write_ndjson(os.path.join(sc, "finish.ndjson"), edges)

    hd = vlib.harness_dir()
    vlib.templ_generate(os.path.join(hd, "c11"))
    binp = vlib.go_build("./c11", "c11")

    # binding self-test: corrupt one predicted field of a buffered case -> the harness must report exactly that case
    bad = [dict(e) for e in edges if not e["cfg"]["stream"] and e["cfg"]["ctype"] == "default" and e["cfg"]["k"] >= 1
           and (not e["cfg"]["fail"] or e["cfg"]["ecls"] == "canceled")][:200]
    k = next(j for j, e in enumerate(bad) if not e["cfg"]["stream"] and not e["cfg"]["fail"] and e["cfg"]["k"] >= 1)
    bad[k] = json.loads(json.dumps(bad[k]))
    bad[k]["final"]["status"] = 202
    bpath = vlib.write_ndjson(os.path.join(sc, "corrupt.ndjson"), bad)
    p = vlib.run([binp, "replay", bpath, "1", "1"], check=False)
    probe = vlib.Check("C11", "model_checking")
    probe.known = []
    got = []
    probe.violation = lambda sig, what, case: got.append(case)
    vlib.harness_results(probe, p)
    if not any(c["spec"]["status"] == 202 for c in got):
        raise vlib.InfraError("binding self-test: a corrupted prediction was not reported by the harness")
    ck.set("binding_selftest", "corrupted status prediction reported in %d runs of 1 case" % len([c for c in got if c["spec"]["status"] == 202]))

    rounds = 4 if thorough else 2
    p = vlib.run([binp, "replay", epath, str(ck.seed), str(rounds)], check=False, timeout=1500)
    s = vlib.harness_results(ck, p)
    if s["cases"] != len(edges):
        raise vlib.InfraError("harness replayed %d of %d terminal states" % (s["cases"], len(edges)))
    if s["transports"].get("recorder", 0) < len(edges) or s["transports"].get("server", 0) < len(edges):
        raise vlib.InfraError("a transport was not exercised for every case: %s" % s["transports"])
    classes = [""] + ["." + c for c in ERR_CLASSES if c != "plain"]
    need = {"Buffered.Success", "Streamed.Success"} | \
           {"%s.DefaultError%s" % (m, c) for m in ("Buffered", "Streamed") for c in classes} | \
           {"%s.ErrorHandler.%s%s" % (m, e, c) for m in ("Buffered", "Streamed") for e in EH_KINDS if e != "unset" for c in classes}
    if set(s["branches"]) != need:
        raise vlib.InfraError("handler branches exercised: %s" % sorted(s["branches"]))
    # fail closed: the aborted outcome really was produced by panics of the handler, on both transports
    n_ab = len(aborted)
    if s["aborted_runs"] < 2 * n_ab or s["server_aborts"] < n_ab or s["server_panics_logged"] < s["server_aborts"]:
        if ck._nviol == 0 and not ck.known_hit:
            raise vlib.InfraError("aborted outcome not exercised as predicted: %d aborted terminal states, %d aborted runs, %d on the server "
                                  "transport, %d panics logged by net/http" % (n_ab, s["aborted_runs"], s["server_aborts"], s["server_panics_logged"]))
    ck.set("aborted_requests", {"terminal_states": n_ab, "runs": s["aborted_runs"], "server_transport": s["server_aborts"],
                                "panics_logged_by_net_http": s["server_panics_logged"]})
    ck.set("terminal_states_replayed", s["cases"])
    ck.set("real_requests", s["runs"])
    ck.set("requests_by_transport", s["transports"])
    ck.set("generated_component_requests", s["generated_component_runs"])
    ck.set("spec_outcomes", s["outcomes"])
    ck.set("branches", s["branches"])
    ck.set("traces_validated_against_impl", s["cases"])
    ck.set("exhaustive", True)
    ck.set("bounds", {"MaxK": maxk, "MaxReq": maxreq, "status": [0, 201, 404], "content_type": CTYPES, "error_handler": len(EH_KINDS),
                      "streaming": 2, "error_classes": ERR_CLASSES, "chunk_size_profiles": 4, "rounds": rounds})
    ck.set("rule", "every Status{unset,201,404} x ContentType{not set, text/html; charset=utf-8, application/json, text/event-stream, empty string} x ErrorHandler{unset,status+body,body only,nothing,headers,returns nil handler} "
                   "x Streaming x component(k<=MaxK chunks, ok / fails with a plain error, an error wrapping context.Canceled, one wrapping "
                   "context.DeadlineExceeded, or ctx.Err() of a really cancelled request context) x request index 1..MaxReq x pool state; each replayed with 4 chunk-size "
                   "profiles through ResponseRecorder and a real net/http server+client, in emitted order and in seeded shuffled orders "
                   "(request sequences over the real buffer pool)")
    ck.assume("net/http ResponseWriter rules as modelled: first Write implies 200, header map frozen at WriteHeader, http.Error sets text/plain and 500")
    ck.assume("a panic of ServeHTTP is a terminal outcome: net/http recovers it, logs it and closes the connection without finishing the "
              "response (observed through the real server transport); in buffered mode nothing has been committed at that point")
    ck.assume("content types htmlcharset / json / empty differ from the default only in the header value: replayed with one chunk profile; "
              "default and text/event-stream get every profile, the generated wrapper and the shuffled rounds")
    ck.assume("error class reqcancelled: the request context is cancelled before the handler renders; the response is still observed "
              "(recorder / a server-side cancelled context); a mismatch without document bytes for that class is drift, not a violation")
    ck.assume("the component writes directly to the io.Writer it is given (func component); real generated code around it is exercised in buffered mode")
    ck.assume("streamed mode is specified as documented (partial output allowed); a streamed mismatch is model drift, not a violation of C11")
    ck.finish()


def guarded():
    try:
        main()
    except (vlib.InfraError, SystemExit):
        raise
    except Exception as e:  # a bug in the check itself is a machinery failure, never a verdict
        import traceback
        raise vlib.InfraError("check crashed: %s\n%s" % (e, traceback.format_exc()))


vlib.main(guarded)
