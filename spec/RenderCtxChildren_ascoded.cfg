\* C13: the components as coded at the pinned commit (nothing repaired) -- TLC must find the leak.
CONSTANTS
  Kinds = {"c1", "c0", "c2", "fn", "onceA", "onceF", "flush", "join", "raw"}
  FirstKinds = {"c1", "c0", "c2", "fn", "onceA", "onceF", "flush", "join", "raw"}
  MaxNodes = 3
  MaxDepth = 3
  MaxOut = 120
  Repaired = {}
  BlockFlushes = TRUE
  GenClears = TRUE
  EmitEdges = FALSE
INIT Init
NEXT Next
VIEW View
INVARIANTS TypeOK ImplEqualsIdeal
CHECK_DEADLOCK FALSE
