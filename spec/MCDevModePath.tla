---------------------------- MODULE MCDevModePath ----------------------------
(* The path shapes of DevModePath. Paths are relative to the directory the harness creates for the shape;
   rel = TRUE: the harness hands the generator a RELATIVE name (relative to its working directory).          *)
EXTENDS DevModePath
S(name, links, g, b, rel) == [name |-> name, links |-> links, g |-> g, b |-> b, rel |-> rel]
ShapesDef == {
    S("plain", {}, <<"app", "card.templ">>, <<"app", "card_templ.go">>, FALSE),
    S("relative-name", {}, <<"app", "card.templ">>, <<"app", "card_templ.go">>, TRUE),
    S("dotdot", {}, <<"other", "..", "app", "card.templ">>, <<"app", "card_templ.go">>, FALSE),
    \* the .templ file is a symbolic link to a shared component; the generated Go file is a regular file next to the link
    S("symlinked-file", { << <<"app", "card.templ">>, <<"shared", "card.templ">> >> }, <<"app", "card.templ">>, <<"app", "card_templ.go">>, FALSE),
    S("symlinked-file-relative-name", { << <<"app", "card.templ">>, <<"shared", "card.templ">> >> }, <<"app", "card.templ">>, <<"app", "card_templ.go">>, TRUE),
    \* the project is reached through a symbolic link to its directory: generator through the link, compiler in the real directory
    S("symlinked-dir", { << <<"lnk">>, <<"real">> >> }, <<"lnk", "app", "card.templ">>, <<"real", "app", "card_templ.go">>, FALSE),
    \* ... and the other way round
    S("symlinked-dir-compiler", { << <<"lnk">>, <<"real">> >> }, <<"real", "app", "card.templ">>, <<"lnk", "app", "card_templ.go">>, FALSE),
    S("symlinked-dir-both", { << <<"lnk">>, <<"real">> >> }, <<"lnk", "app", "card.templ">>, <<"lnk", "app", "card_templ.go">>, FALSE),
    \* both: a linked component inside a project reached through a link
    S("symlinked-dir-and-file", { << <<"lnk">>, <<"real">> >>, << <<"real", "app", "card.templ">>, <<"real", "shared", "card.templ">> >> },
      <<"lnk", "app", "card.templ">>, <<"real", "app", "card_templ.go">>, FALSE),
    \* a chain of links
    S("symlink-chain", { << <<"app", "card.templ">>, <<"mid", "card.templ">> >>, << <<"mid", "card.templ">>, <<"shared", "card.templ">> >> },
      <<"app", "card.templ">>, <<"app", "card_templ.go">>, FALSE) }
=============================================================================
