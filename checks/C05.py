#!/usr/bin/env python3
"""C05 -- dynamic CSS values cannot escape their declaration (spec/CssTok.tla, SinksCss.tla, SinksCssCases.tla).

MC   : closed product automaton per (property class x context): the value sanitiser of safehtml/style.go as a
       streaming acceptor with one labelled branch per accept path x CssTok (CSS Syntax L3 in declaration-value
       position, block/function nesting bounded at depth 3) x RAWTEXT `</style` detection (css component) or
       html escaping as coded with one decode (style attribute). Input symbols are not stored: all lengths.
       Run for the repaired sanitisers (must hold), for the classes that hold as pinned (regular, enum, name),
       for font-family and background-image as pinned (TLC is EXPECTED to report OneDeclaration) and for
       three negative variants TLC must reject.
GEN  : TLC prints values of <= MaxTok tokens of each class's CSS-adversarial alphabet with the model's verdict in
       both contexts; the harness replays them, exhaustive token / character sequences, break-out shapes, seeded
       random values and a per-scalar class-table conformance on the real safehtml.SanitizeCSS, templ.SanitizeCSS,
       SanitizeStyleAttributeValues (map, KeyValue) and the rendered css component / style attribute.
VAL  : real outputs are judged by the spec's consumer (Go port; single key for CSS, x/net/html second key for
       the end of the <style> element / attribute); a seeded sample of recorded lines is re-judged by TLC.
"""
import json, os, sys, threading
sys.path.insert(0, os.path.join(os.path.dirname(os.path.abspath(__file__)), "..", "lib"))
import vlib

NEG = ["SinksCss_neg_semicolon.cfg", "SinksCss_neg_noguard.cfg", "SinksCss_neg_attr0.cfg"]
NEG_RULE = "SinksCss_neg_kvraw.cfg"
EXPECTED = ["SinksCss_mc_pinned_font.cfg", "SinksCss_mc_pinned_bg.cfg"]


def background(fn):
    box = {}

    def run():
        try:
            box["v"] = fn()
        except BaseException as e:
            box["e"] = e
    t = threading.Thread(target=run)
    t.start()

    def join():
        t.join()
        if "e" in box:
            raise box["e"]
        return box["v"]
    return join


def main():
    ck = vlib.Check("C05", "model_checking")
    thorough = ck.tier == "thorough"
    sc = vlib.scratch()

    def build():
        d = vlib.harness_dir()
        vlib.templ_generate(os.path.join(d, "c05"))
        return vlib.go_build("./c05", "c05")
    build_j = background(build)
    mc_fixed_j = background(lambda: vlib.tlc("MCSinksCss", "SinksCss_mc_fixed.cfg", workers=8, timeout=1800, xmx="8g"))
    binp = build_j()
    # which variant of the model does the real code conform to? (pinned defects / proposed repairs)
    probe = vlib.run([binp, "probe"]).stdout.decode().split()
    fontfix, bgfix, single = [x == "true" for x in probe[:3]]
    level = int(probe[3])      # HTML escaping levels between sanitiser and document, measured on the rendered attribute
    ck.set("model_variant", {"FontFix": fontfix, "BgFix": bgfix, "AttrEscapes": level})
    vlib.log("real code: font-family repaired=%s background-image repaired=%s escaping levels of the style attribute=%d" % (fontfix, bgfix, level))

    def variant(text):
        return (text.replace("FontFix = FALSE", "FontFix = %s" % ("TRUE" if fontfix else "FALSE"))
                .replace("BgFix = FALSE", "BgFix = %s" % ("TRUE" if bgfix else "FALSE"))
                .replace("AttrEscapes = 2", "AttrEscapes = %d" % level))
    env = vlib.goenv()
    env["C05_FONTFIX"] = "1" if fontfix else "0"
    env["C05_BGFIX"] = "1" if bgfix else "0"
    env["C05_ATTR_ESCAPES"] = str(level)
    maxtok = 3 if thorough else 2
    text = variant(open(os.path.join(vlib.SPEC, "SinksCss_cases.cfg")).read().replace("MaxTok = 2", "MaxTok = %d" % maxtok))
    tracecfg = variant(open(os.path.join(vlib.SPEC, "SinksCss_trace.cfg")).read())
    cases_j = background(lambda: vlib.tlc("MCSinksCssCases", "cases.cfg", files={"cases.cfg": text}, workers=6, timeout=2400, xss="512m", xmx="8g"))
    mc_safe_j = background(lambda: vlib.tlc("MCSinksCss", "SinksCss_mc_pinned_safe.cfg", workers=2, timeout=900))
    exp_j = {n: background(lambda n=n: vlib.tlc("MCSinksCss", n, workers=1, timeout=900)) for n in EXPECTED}
    neg_j = {n: background(lambda n=n: vlib.tlc("MCSinksCss", n, workers=1, timeout=900)) for n in NEG}

    cases = cases_j()
    if not cases.ok:
        raise vlib.InfraError("case generation: a prediction carries an unknown signature (%s)" % cases.violated)
    clist = cases.tagged("CASE")
    syms = cases.tagged("SYMS")
    toks = cases.tagged("TOKENS")
    if len(clist) != cases.generated - 5 or not syms or not toks or sum(1 for c in clist if c["op"] == "argform") < 1000:
        raise vlib.InfraError("case emission incomplete: %d cases for %d states" % (len(clist), cases.generated))
    ck.add_tlc(cases, "SinksCss_cases MaxTok=%d" % maxtok)
    d = os.path.join(sc, "c05data")
    os.makedirs(d)
    vlib.write_ndjson(os.path.join(d, "cases.ndjson"), clist)
    json.dump(syms[0], open(os.path.join(d, "syms.json"), "w"))
    json.dump(toks[0], open(os.path.join(d, "tokens.json"), "w"))

    toklen, charlen, nrand, vallines = (4, 5, 40000, 30000) if thorough else (3, 4, 3000, 5000)
    p = vlib.run([binp, "run", d, str(ck.seed), str(toklen), str(charlen), str(nrand), str(vallines)], check=False, timeout=3000, env=env)
    vlib.log("harness done")
    s = vlib.harness_results(ck, p)
    if s["tlc_cases"] != len(clist):
        raise vlib.InfraError("harness consumed %d of %d cases" % (s["tlc_cases"], len(clist)))
    def infra(msg):
        # a tree that breaks the property is reported as such (exit 1), whatever else looks odd about it
        if ck._nviol:
            ck.notes.append("not raised because violations were found: " + msg[:600])
        else:
            raise vlib.InfraError(msg)
    if s["disagree"]:
        infra("two-key rule (HTML level): spec RAWTEXT/attribute model and x/net/html disagree on %d real outputs, e.g. %s" % (
            s["disagree"], json.dumps(s["disagree_examples"])[:1500]))
    if s["table_checked"] < 13 * 1112064 or s["evaluations"] < 3 * s["values"]:
        raise vlib.InfraError("coverage too small: table %d, evaluations %d for %d values" % (s["table_checked"], s["evaluations"], s["values"]))

    # --- VAL -----------------------------------------------------------------------------------------------------
    trace = open(os.path.join(d, "trace.ndjson")).read()
    nlines = trace.count("\n")
    if nlines < min(vallines // 2, 500):
        raise vlib.InfraError("trace too short: %d lines" % nlines)
    val = vlib.tlc("MCTraceSinksCss", "trace.cfg", files={"trace.ndjson": trace, "trace.cfg": tracecfg}, workers=1, timeout=3000, xss="512m")
    vres = val.tagged("VAL")
    if not val.ok or len(vres) != 1 or vres[0]["n"] != nlines:
        raise vlib.InfraError("trace validation did not consume the trace")
    if vres[0]["mism"]:
        raise vlib.InfraError("Go port disagrees with the specification on recorded outputs: %s" % json.dumps(vres[0]["mism"])[:1000])
    ck.add_tlc(val, "TraceSinksCss (real outputs)")
    ck.set("trace_lines_validated_by_tlc", nlines)
    ck.set("trace_lines_violating", len(vres[0]["fails"]))

    # --- binding self-test ---------------------------------------------------------------------------------------------
    d2 = os.path.join(sc, "c05self")
    os.makedirs(d2)
    vlib.write_ndjson(os.path.join(d2, "cases.ndjson"), clist[:60])
    json.dump(syms[0], open(os.path.join(d2, "syms.json"), "w"))
    json.dump(toks[0], open(os.path.join(d2, "tokens.json"), "w"))
    p2 = vlib.run([binp, "run", d2, str(ck.seed), "0", "0", "0", "600", "corrupt"], check=False, timeout=600, env=env)
    s2 = None
    for line in p2.stdout.decode(errors="replace").splitlines():
        if line.startswith("{") and '"kind":"summary"' in line:
            s2 = json.loads(line)
    if p2.returncode != 0 or not s2 or s2["pred_mismatch"] < 1:
        infra("binding self-test: a corrupted prediction was not reported by the harness")
    val2 = vlib.tlc("MCTraceSinksCss", "trace.cfg", files={"trace.ndjson": open(os.path.join(d2, "trace.ndjson")).read(), "trace.cfg": tracecfg},
                    workers=1, timeout=600, xss="512m")
    v2 = val2.tagged("VAL")
    if len(v2) != 1 or not any(m["port"]["ev"] == "Corrupted" for m in v2[0]["mism"]):
        infra("binding self-test: a corrupted logged verdict was not rejected by the trace spec")
    ck.set("binding_selftest", "corrupted prediction reported by harness; corrupted logged verdict rejected by TLC")

    # --- MC results ------------------------------------------------------------------------------------------------------
    mc_fixed = mc_fixed_j()
    if not mc_fixed.ok:
        raise vlib.InfraError("SinksCss with the proposed repairs violates %s: the model is wrong" % mc_fixed.violated)
    ck.add_tlc(mc_fixed, "SinksCss_mc_fixed (all classes x contexts, repaired sanitisers)")
    mc_safe = mc_safe_j()
    if not mc_safe.ok:
        raise vlib.InfraError("regular/enum/name as pinned violate %s" % mc_safe.violated)
    ck.add_tlc(mc_safe, "SinksCss_mc_pinned_safe (regular, enum, name as pinned)")
    for n, j in exp_j.items():
        r = j()
        if r.violated != "OneDeclaration":
            raise vlib.InfraError("%s: expected TLC to report OneDeclaration on the pinned model, got %s" % (n, r.violated))
        ck.add_tlc(r, n + " (expected counterexample)")
    ck.set("model_as_pinned_violates", "OneDeclaration for font-family (QuotedSegment) and background-image (Url* branches), both contexts; style attribute double escape")
    for n, j in neg_j.items():
        r = j()
        if r.violated != "OneDeclaration":
            raise vlib.InfraError("negative config %s was not rejected (got %s)" % (n, r.violated))
    r = vlib.tlc("MCSinksCss", NEG_RULE, workers=1, timeout=600)
    if r.violated != "ArgRule":
        raise vlib.InfraError("negative config %s was not rejected (got %s)" % (NEG_RULE, r.violated))
    ck.set("negative_configs_rejected", NEG + [NEG_RULE])

    ck.set("traces_validated_against_impl", s["evaluations"])
    ck.set("evaluations", s["evaluations"])
    ck.set("distinct_nontrivial", s["distinct_outputs"])
    ck.set("rule", "distinct (class, context, text seen by the CSS parser) triples")
    ck.set("values", s["values"])
    ck.set("evaluations_by_sink", s["by_sink"])
    ck.set("tlc_cases", len(clist))
    ck.set("table_conformance_calls", s["table_checked"])
    ck.set("table_conformance_misses", s["table_misses"])
    ck.set("real_accepts_model_rejects", s["real_accepts_model_rejects"])
    ck.set("model_accepts_real_rejects", s["model_accepts_real_rejects"])
    ck.set("fails_by_signature", s["fails_by_sig"])
    ck.set("bounds", {"MaxTok": maxtok, "token_len": toklen, "char_len": charlen, "random_values": nrand, "css_nesting_depth": 3,
                      "symbols": s["symbols"]})
    ck.assume("raw style strings, SafeCSS and SafeCSSProperty are author-trusted and out of scope")
    ck.assume("single key for CSS: no independent CSS tokenizer is available offline; the consumer is spec/CssTok.tla (Go port pinned to it by TLC trace validation); x/net/html is the second key only for the end of the <style> element / style attribute")
    ck.assume("CSS block/function nesting is bounded at depth 3 (deeper nesting is reported as event TooDeep, i.e. treated as unsafe)")
    ck.assume("net/url features not modelled ('%' escapes, authority after '//') are treated as accepted by the model; the binding takes the real verdict")
    ck.assume("identifiers written with CSS escapes are conservatively treated as foreign function names / foreign scheme letters")
    ck.assume("the transition cover of the closed automaton is replaced by exhaustive token sequences: the pinned model's permissive branches make its graph > 10^7 states")
    ck.finish()


vlib.main(main)
