\* C18 conn: NEGATIVE: the call id is drawn in two steps (atomic add, then atomic load) -- must violate UniqueIds (two concurrent calls share an id).
CONSTANTS
  NC = 2
  NN = 0
  MaxPN = 0
  MaxPC = 0
  MaxStray = 0
  UseWriteMu = TRUE
  ChanCap = 1
  RegisterFirst = TRUE
  AtomicAlloc = FALSE
  IdDecode = "strict"
  IdVocab = "small"
  KindShift = 0
  NullResult = "ok"
INIT Init
NEXT Next
INVARIANTS TypeOK UniqueIds
CHECK_DEADLOCK FALSE
