\* C16 path identity of the text file, ReaderRule = coded (as coded)
CONSTANTS
  Shapes <- ShapesDef
  ReaderRule = "coded"
  WriterRule = "coded"
  EmitCases = TRUE
INIT Init
NEXT Next
VIEW View
ACTION_CONSTRAINT Emit
INVARIANTS WriterReaderAgree NameIsCanonical
CHECK_DEADLOCK FALSE
