------------------------------ MODULE TraceSse ------------------------------
(* C19 trace validation: executions of the real sse.Handler recorded by harness/c19 (stress mode, verif
   hook events + the harness's own client/writer events) are replayed against Sse.tla. Every log line is
   exactly one action of the spec (same action definitions, same state), so the search is linear.

   Log order vs. effect: the log is totally ordered by the logger's mutex. "cancel" is logged before
   cancel() is called; hook events are logged where the hook sits (register/send/spawn/unregister inside
   m, "unregister" BEFORE the channel is closed, "run" before the send statement); "wstart"/"wend" are
   logged inside the handler's Write, so between two of them the handler is in the spec's "writing"
   state. In all these cases the logged position is at or before the real effect and nothing that the
   spec makes depend on the effect can be logged in between (argued per action in BUILD notes of C19).

   Many short episodes are concatenated; an episode that is not a behaviour of the spec is recorded in
   `failed` and skipped, so one TLC run validates them all and names every offender.               *)
EXTENDS Sse

VARIABLES i,        \* next line of the trace
          early,    \* clients that left on their own schedule (not obliged to have received everything)
          failed,   \* <<episode, line, event>> of every episode the spec rejected
          panics    \* <<episode, branch>> of every episode that ended in a panic the spec explains

Trace == ndJsonDeserialize("trace.ndjson")
N == Len(Trace)
L == Trace[i]

tvars == <<vars, lbl, i, early, failed, panics>>

ToSet(s) == {s[k] : k \in 1..Len(s)}

ResetSse ==
    /\ pc' = [c \in Clients |-> "new"] /\ cancelled' = [c \in Clients |-> FALSE]
    /\ wr' = [c \in Clients |-> WNone] /\ pings' = [c \in Clients |-> 0]
    /\ requests' = {} /\ ch' = [c \in Clients |-> None] /\ done' = [c \in Clients |-> FALSE]
    /\ dl' = [c \in Clients |-> [b \in B |-> None]] /\ got' = [c \in Clients |-> {}]
    /\ targets' = [b \in B |-> {}] /\ m' = "free" /\ bpc' = "idle" /\ sent' = 0 /\ bcur' = None
    /\ panicked' = FALSE /\ lbl' = [a |-> "reset"] /\ early' = {}

Same == UNCHANGED <<vars, lbl>>

\* an unlogged final step explains the crash: the exit hook was logged, the close happened, the process died
\* before the unregister line was written
UnloggedClosePanics == \E c \in Clients : pc[c] = "exiting" /\ Closes /\ \E b \in B : dl[c][b] = "sending"

\* what the harness guarantees at the end of an episode that did not crash
EndOk == /\ \A c \in Clients : pc[c] \in {"new", "gone"}
         /\ \A c \in Clients, b \in B : dl[c][b] \notin {"spawned", "sending", "queued"}
         /\ \A c \in Clients, b \in B : (c \in targets[b] /\ c \notin early) => b \in got[c]   \* Delivered
         /\ ~panicked /\ bpc = "idle" /\ m = "free"

\* one log line = one action of Sse
Event ==
    /\ CASE panicked /\ L.e # "panic" -> Same /\ UNCHANGED <<early, panics>>   \* other goroutines log on while the process dies
         [] L.e = "register"   -> Register(L.c) /\ UNCHANGED <<early, panics>>
         [] L.e = "wstart"     -> (IF L.b = 0 THEN Ping(L.c) ELSE Deliver(L.c, L.b)) /\ UNCHANGED <<early, panics>>
         [] L.e = "wend"       -> (IF L.ok THEN WriteDone(L.c) ELSE WriteFail(L.c)) /\ UNCHANGED <<early, panics>>
         [] L.e = "cancel"     -> /\ Cancel(L.c)
                                  /\ early' = IF L.stay THEN early ELSE early \cup {L.c}
                                  /\ UNCHANGED panics
         [] L.e = "exit"       -> (IF pc[L.c] = "exiting" THEN Same ELSE ExitCtx(L.c)) /\ UNCHANGED <<early, panics>>
         [] L.e = "unregister" -> Unregister(L.c) /\ UNCHANGED <<early, panics>>
         [] L.e = "block"      -> BLock /\ sent + 1 = L.b /\ UNCHANGED <<early, panics>>
         \* L.ok = FALSE: the process died while Send was still in its loop, only some spawn lines were written
         [] L.e = "bspawn"     -> /\ BSpawn
                                  /\ IF L.ok THEN requests = ToSet(L.targets) ELSE ToSet(L.targets) \subseteq requests
                                  /\ UNCHANGED <<early, panics>>
         [] L.e = "run"        -> Run(L.c, L.b) /\ UNCHANGED <<early, panics>>
         [] L.e = "abandon"    -> Abandon(L.c, L.b) /\ UNCHANGED <<early, panics>>
         [] L.e = "panic"      -> /\ panicked \/ UnloggedClosePanics
                                  /\ panics' = Append(panics, <<L.ep, IF panicked THEN lbl.branch ELSE "Unregister.CloseWithBlockedSender">>)
                                  /\ ResetSse
         [] L.e = "end"        -> EndOk /\ ResetSse /\ UNCHANGED panics
         [] OTHER              -> FALSE
    /\ i' = i + 1
    /\ UNCHANGED failed

\* the spec has no step for this line: record the episode, skip to the next one
Reject ==
    /\ ~ENABLED Event
    /\ failed' = Append(failed, <<L.ep, i, L.e, L.c, L.b>>)
    /\ i' = L.nx
    /\ ResetSse
    /\ UNCHANGED panics

TraceInit == Init /\ i = 1 /\ early = {} /\ failed = <<>> /\ panics = <<>>
TraceNext == i <= N /\ (Event \/ Reject)
TraceSpec == TraceInit /\ [][TraceNext]_tvars

TraceView == <<vars, i, early, failed, panics>>

\* evaluated in every state; prints the verdict when the whole log has been consumed
Report == (i = N + 1) => PrintT(<<"VERDICT", ToJson([consumed |-> N, failed |-> failed, panics |-> panics])>>)
=============================================================================
