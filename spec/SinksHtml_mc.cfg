\* C01 design check: escaper x tokenizer, closed for all input lengths.
CONSTANTS
  EscOverride <- NoOverride
  EmitEdges = FALSE
INIT Init
NEXT Next
VIEW View
INVARIANTS TypeOK InContext Verbatim NeutralAfterFeed SuffixTokenises
CHECK_DEADLOCK FALSE
