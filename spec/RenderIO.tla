------------------------------- MODULE RenderIO -------------------------------
(* C10 -- rendering is exact and fail-stop.

   A sequence of Runs renders of one program into fresh writers, sharing the runtime buffer pool.
   The model follows the code that templ's generator emits for a component, one critical step per
   action, on top of a transcription of bufio.Writer (which runtime.Buffer wraps):

     generated component   CtxCheck, AcquireBuffer (runtime.GetBuffer: existing vs pooled + Reset),
                           ReadChildren, WriteLit, EvalExpr, WriteExpr, EnterCall.., ReturnCall,
                           Exit (return err / return nil), DeferredFlush + DeferredPut
                           (runtime.ReleaseBuffer: flush, Put; adopt the flush error iff none is set)
     hand-written parts    templ.Flush (render children, flush), templ.Join, a leaf component that
                           writes bytes with Write([]byte) or returns an error
     bufio.Writer          BW (Write / WriteString incl. the large-write shortcut), BFlush (sticky error,
                           io.ErrShortWrite, compaction of unwritten data)
     underlying writer     UW: accepts bytes until the planned fault offset k, then fails in one of the
                           modes  err (partial n, error) / short (partial n, nil) / zero (0, nil);
                           once it has failed every later call returns (0, error)

   Programs are the data of the harness combinator `interp(items)` (harness/c10/interp.templ): every
   component of a program is one instance of that generated template.  An op is a record
   [k, n, a, b]:  L n  literal of n bytes | E n  expression of n bytes | leaf n  hand-written
   component | call a | cb a b  (@a { @b }) | slot  ({ children... }) | flush a  (@templ.Flush() { @a })
   | join a b  (@templ.Join(a, b)) | hcb n a  (@hand { @a } where hand is a HAND-WRITTEN component that
   renders templ.GetChildren(ctx): n = 0 into the writer it was given, n = 1 into a writer of its own
   -- a collector that may fail -- and then forwards what that writer received);
   X n  an expression of one of the other KINDS the generator has a separate error path for, with the literal
   text around it: n = 1  <i title={ e }></i>  (attribute), 2  <script>var x = {{ e }}</script>  (script, outside
   a string literal), 3  <script>var y = "{{ e }}"</script>  (script, inside a string literal);
   "kids"/"bflush" are the two steps of templ.Flush, "okids"/"fwd" those of the collecting component.

   Every frame knows the io.Writer it was called with (a *runtime.Buffer of the render, or a plain
   writer): a generated block closure that is handed a plain writer acquires, flushes and releases a
   pooled buffer of its own, nested inside the render that holds another one.

   Bytes are one-character strings, so `sink` is literally the expected output.               *)
EXTENDS Integers, Sequences, FiniteSets, TLC, Json

CONSTANTS Caps,        \* buffer capacities explored (runtime.DefaultBufferSize)
          ProgSet,     \* programs explored (MC: every program of the grammar up to MaxOps/MaxDepth)
          MaxOps, MaxDepth, LitSizes, ExprSizes, LeafSizes,
          XKinds,      \* expression kinds besides the text expression: subset of {1, 2, 3} (see X above)
          HandKinds,   \* hand-written callees of a call with block: subset of {0, 1} (see hcb above)
          SideKs,      \* offsets at which the collecting component's own writer fails
          Runs,        \* renders per behaviour: all but the last must be given a fault, the last none (Runs > 1)
          Modes,       \* writer fault modes
          Pairs,       \* TRUE: also plans with a writer fault AND a failing expression / leaf
          SWs,         \* is the underlying writer an io.StringWriter (bufio's WriteString shortcut)
          PoolAny,     \* TRUE: Get returns any pooled object or a new one; FALSE: a pooled one if there is one
          SameWriter,  \* TRUE: all renders of a behaviour go to ONE writer value, which recovers (and is emptied) between them;
                       \* FALSE: every render has a writer of its own
          Bug,         \* "none" or the name of a seeded defect (negative configs)
          Emit         \* TRUE: print every terminal behaviour for replay on the real code

VARIABLES cfg,        \* [cap, sw, prog, doc, nev, nleaf] -- fixed per behaviour
          run, phase, plan,
          stack,      \* frames of the components being rendered, innermost last
          ret,        \* error returned by the call that just finished ("nil" = nil)
          bufs, cur, pool, nfresh,   \* runtime.Buffer objects, the SET of those held by frames of this render, sync.Pool
          W,          \* per writer: bytes accepted, failed?, sink length at each http.Flusher.Flush
          slot,       \* the children slot of the render's context value
          cancelled, evals, leafs,
          first,      \* the first error that was produced in this render ("nil" = none yet)
          late,       \* an expression was evaluated after an error had been produced (must stay FALSE)
          pev,        \* pool events of this render as the verif hooks report them (acquire/existing/flush:<err>/release)
          hist,       \* outcomes of the finished renders
          lbl         \* name of the last action (not part of the fingerprint)

vars == <<cfg, run, phase, plan, stack, ret, bufs, cur, pool, nfresh, W, slot, cancelled, evals, leafs, first, late, pev, hist>>
View == vars

-----------------------------------------------------------------------------
(* programs *)
Op(k, n, a, b) == [k |-> k, n |-> n, a |-> a, b |-> b]
Nil == <<>>

LeafOps == {Op("L", n, Nil, Nil) : n \in LitSizes} \cup {Op("E", n, Nil, Nil) : n \in ExprSizes}
           \cup {Op("leaf", n, Nil, Nil) : n \in LeafSizes} \cup {Op("slot", 0, Nil, Nil)}
           \cup {Op("X", n, Nil, Nil) : n \in XKinds}

RECURSIVE Seqs(_, _)
OpsOfSize(d, s) ==
    IF s = 1 THEN LeafOps
    ELSE IF d <= 1 THEN {}
    ELSE {Op("call", 0, a, Nil) : a \in Seqs(d - 1, s - 1)}
         \cup {Op("flush", 0, a, Nil) : a \in Seqs(d - 1, s - 1)}
         \cup {Op("hcb", n, a, Nil) : n \in HandKinds, a \in Seqs(d - 1, s - 1)}
         \cup UNION {{Op("cb", 0, a, b) : a \in Seqs(d - 1, i), b \in Seqs(d - 1, s - 1 - i)} : i \in 1..(s - 2)}
         \cup UNION {{Op("join", 0, a, b) : a \in Seqs(d - 1, i), b \in Seqs(d - 1, s - 1 - i)} : i \in 1..(s - 2)}
\* all op sequences of total size exactly n and nesting depth <= d
Seqs(d, n) == IF n = 0 THEN {Nil}
              ELSE UNION {{<<o>> \o r : o \in OpsOfSize(d, s), r \in Seqs(d, n - s)} : s \in 1..n}
\* the collecting component has ONE writer of its own per render in this model: no collector inside a collected block
RECURSIVE HasOwn(_)
HasOwn(ops) == \E i \in 1..Len(ops) : (ops[i].k = "hcb" /\ ops[i].n = 1) \/ HasOwn(ops[i].a) \/ HasOwn(ops[i].b)
RECURSIVE NoNestedOwn(_)
NoNestedOwn(ops) == \A i \in 1..Len(ops) :
                       /\ (ops[i].k = "hcb" /\ ops[i].n = 1) => ~HasOwn(ops[i].a)
                       /\ NoNestedOwn(ops[i].a) /\ NoNestedOwn(ops[i].b)
GrammarProgs == {p \in UNION {Seqs(MaxDepth, n) : n \in 1..MaxOps} : NoNestedOwn(p)}

\* the other expression kinds: literal before, value as the generated code writes it, literal after
XPre(n)  == CASE n = 1 -> <<"<","i"," ","t","i","t","l","e","=","\"">>
              [] n = 2 -> <<"<","s","c","r","i","p","t",">","v","a","r"," ","x"," ","="," ">>
              [] n = 3 -> <<"<","s","c","r","i","p","t",">","v","a","r"," ","y"," ","="," ","\"">>
XVal(n)  == CASE n = 1 -> <<"A">> [] n = 2 -> <<"\"","A","\"">> [] n = 3 -> <<"A">>
XPost(n) == CASE n = 1 -> <<"\"",">","<","/","i",">">>
              [] n = 2 -> <<"<","/","s","c","r","i","p","t",">">>
              [] n = 3 -> <<"\"","<","/","s","c","r","i","p","t",">">>
\* an X op is executed as: literal, expression (evaluate, error handler, write), literal
Expansion(o) == <<Op("Lx", o.n, Nil, Nil), Op("E", 10 + o.n, Nil, Nil), Op("Lx", 20 + o.n, Nil, Nil)>>
Chars == <<"a", "b", "c", "d", "e", "f", "g", "h", "i", "j", "k">>
LitText(n) == CASE n = 1 -> SubSeq(Chars, 1, 1) [] n = 2 -> SubSeq(Chars, 2, 3)
                [] n = 3 -> SubSeq(Chars, 4, 6) [] n = 5 -> SubSeq(Chars, 7, 11)
ExprText(n) == CASE n = 1 -> <<"A">> [] n = 2 -> <<"B", "C">> [] n = 4 -> <<"D", "E", "F", "G">>
                 [] n > 10 -> XVal(n - 10) [] n = 0 -> <<>>
LxText(n) == IF n > 20 THEN XPost(n - 20) ELSE XPre(n)
LeafText(n) == SubSeq(<<"w", "x", "y", "z">>, 1, n)

NoChild == [has |-> FALSE, body |-> Nil]
Block(b) == [has |-> TRUE, body |-> b]

(* Denotation: the document a program produces when nothing fails, and how many expressions /
   leaf components it evaluates.  Threads the children slot exactly as the context value does
   (a generated component reads and clears it; so does templ.Flush since the fix "Flush must clear
   the children it renders from the context").                                               *)
RECURSIVE DOps(_, _, _)
DInterp(ops, s) == DOps(ops, s, NoChild)              \* entry: mine := slot; slot := none
DEmpty(s) == [out |-> <<>>, slot |-> s, ne |-> 0, nl |-> 0]
DThen(x, y) == [out |-> x.out \o y.out, slot |-> y.slot, ne |-> x.ne + y.ne, nl |-> x.nl + y.nl]
DOps(ops, mine, s) ==
    IF ops = <<>> THEN DEmpty(s)
    ELSE LET o == Head(ops)
             h == CASE o.k = "L"    -> [out |-> LitText(o.n), slot |-> s, ne |-> 0, nl |-> 0]
                    [] o.k = "E"    -> [out |-> ExprText(o.n), slot |-> s, ne |-> 1, nl |-> 0]
                    [] o.k = "leaf" -> [out |-> LeafText(o.n), slot |-> s, ne |-> 0, nl |-> 1]
                    [] o.k = "X"    -> [out |-> XPre(o.n) \o XVal(o.n) \o XPost(o.n), slot |-> s, ne |-> 1, nl |-> 0]
                    [] o.k = "call" -> DInterp(o.a, s)
                    [] o.k = "cb"   -> DInterp(o.a, Block(o.b))
                    [] o.k = "slot" -> IF mine.has THEN DInterp(mine.body, s) ELSE DEmpty(s)
                    [] o.k = "flush" -> DInterp(o.a, NoChild)
                    [] o.k = "hcb"  -> DInterp(o.a, NoChild)      \* both hand-written callees take the block out of the slot
                    [] o.k = "join" -> LET x == DInterp(o.a, s) IN DThen(x, DInterp(o.b, x.slot))
         IN DThen(h, DOps(Tail(ops), mine, h.slot))
Denote(p) == DInterp(p, NoChild)

RECURSIVE MaxWrite(_)
MaxWrite(ops) == IF ops = <<>> THEN 0
                 ELSE LET o == Head(ops)
                          m == IF o.k \in {"L", "E", "leaf"} THEN o.n
                               ELSE IF o.k = "X" THEN Len(XPre(o.n))
                               ELSE LET x == MaxWrite(o.a) y == MaxWrite(o.b) IN IF x > y THEN x ELSE y
                          r == MaxWrite(Tail(ops))
                      IN IF m > r THEN m ELSE r

-----------------------------------------------------------------------------
(* fault plans *)
NoW == [k |-> -1, m |-> "none"]
NoL == [k |-> "none", j |-> 0]
NoS == [k |-> -1, m |-> "none"]                      \* fault of the collecting component's own writer
SFaults == {[k |-> k, m |-> "err"] : k \in SideKs}
WFaults(n) == {[k |-> k, m |-> m] : k \in 0..(n - 1), m \in Modes} \cup {[k |-> n, m |-> "err"]}
LFails(c) == {[k |-> "expr", j |-> j] : j \in 1..c.nev} \cup {[k |-> "leaf", j |-> j] : j \in 1..c.nleaf}
LFaults(c) == LFails(c) \cup {[k |-> "cancel", j |-> 0]} \cup {[k |-> "cancelat", j |-> j] : j \in 1..c.nev}
FaultPlans(c) == {[w |-> w, l |-> NoL, s |-> NoS] : w \in WFaults(Len(c.doc))}
                 \cup {[w |-> NoW, l |-> l, s |-> NoS] : l \in LFaults(c)}
                 \cup (IF Pairs THEN {[w |-> w, l |-> l, s |-> NoS] : w \in WFaults(Len(c.doc)), l \in LFails(c)} ELSE {})
                 \cup (IF HasOwn(c.prog) THEN {[w |-> NoW, l |-> NoL, s |-> f] : f \in SFaults} ELSE {})
NoPlan == [w |-> NoW, l |-> NoL, s |-> NoS]

-----------------------------------------------------------------------------
(* the underlying writer and bufio.Writer *)
CleanBuf(w) == [data |-> <<>>, err |-> "nil", wr |-> w]
NewW == [sink |-> <<>>, dead |-> FALSE, uf |-> <<>>, side |-> FALSE]
NewSideW == [sink |-> <<>>, dead |-> FALSE, uf |-> <<>>, side |-> TRUE]

\* one Write/WriteString call on writer state ws under writer-fault f
InjName(ws) == IF ws.side THEN "sinj" ELSE "inj"     \* the two writers fail with different errors
UW(ws, chunk, f) ==
    IF ws.dead THEN [ws |-> ws, n |-> 0, err |-> InjName(ws)]
    ELSE IF f.m = "none" \/ Len(ws.sink) + Len(chunk) <= f.k
         THEN [ws |-> [ws EXCEPT !.sink = @ \o chunk], n |-> Len(chunk), err |-> "nil"]
    ELSE LET room == f.k - Len(ws.sink)
             part == [ws EXCEPT !.sink = @ \o SubSeq(chunk, 1, room), !.dead = TRUE]
         IN CASE f.m = "err"   -> [ws |-> part, n |-> room, err |-> InjName(ws)]
              [] f.m = "short" -> [ws |-> part, n |-> room, err |-> "nil"]
              [] f.m = "zero"  -> [ws |-> [ws EXCEPT !.dead = TRUE], n |-> 0, err |-> "nil"]

\* bufio.Writer.Flush
BFlush(bs, ws, f) ==
    IF bs.err # "nil" THEN [bs |-> bs, ws |-> ws, err |-> bs.err]
    ELSE IF bs.data = <<>> THEN [bs |-> bs, ws |-> ws, err |-> "nil"]
    ELSE LET r == UW(ws, bs.data, f)
             e == IF r.n < Len(bs.data) /\ r.err = "nil" THEN "short" ELSE r.err
         IN IF e # "nil"
            THEN [bs |-> [bs EXCEPT !.data = SubSeq(@, r.n + 1, Len(@)), !.err = e], ws |-> r.ws, err |-> e]
            ELSE [bs |-> [bs EXCEPT !.data = <<>>], ws |-> r.ws, err |-> "nil"]

\* bufio.Writer.Write / WriteString; direct = the large-write shortcut is available
\* (always for Write([]byte); for WriteString iff the underlying writer is an io.StringWriter)
RECURSIVE BW(_, _, _, _, _, _)
BW(bs, ws, s, direct, cap, f) ==
    IF Len(s) > cap - Len(bs.data) /\ bs.err = "nil"
    THEN IF bs.data = <<>> /\ direct
         THEN LET r == UW(ws, s, f)
              IN BW([bs EXCEPT !.err = r.err], r.ws, SubSeq(s, r.n + 1, Len(s)), direct, cap, f)
         ELSE LET room == cap - Len(bs.data)
                  fl == BFlush([bs EXCEPT !.data = @ \o SubSeq(s, 1, room)], ws, f)
              IN BW(fl.bs, fl.ws, SubSeq(s, room + 1, Len(s)), direct, cap, f)
    ELSE IF bs.err # "nil" THEN [bs |-> bs, ws |-> ws, err |-> bs.err]
    ELSE [bs |-> [bs EXCEPT !.data = @ \o s], ws |-> ws, err |-> "nil"]

-----------------------------------------------------------------------------
(* frames *)
\* a writer reference: a *runtime.Buffer object (t = "buf") or a plain io.Writer (t = "w")
BufRef(b) == [t |-> "buf", id |-> b]
WRef(w) == [t |-> "w", id |-> w]
SideW == Runs + run                    \* the collecting component's own writer (a new value in every render)
NBufs == 2 * Runs + 2                  \* buffer objects that can exist (renders and blocks rendered into the side writer may each make new ones)

\* wr = the writer the component was called with; fb = the buffer it writes to (after GetBuffer)
Frame(chk, acq, ops, wr) == [pc |-> IF chk THEN "ctx" ELSE IF acq THEN "acq" ELSE "ops",
                             chk |-> chk, acq |-> acq, ops |-> ops, mine |-> NoChild, wr |-> wr,
                             fb |-> IF acq THEN 0 ELSE wr.id,
                             owns |-> FALSE, err |-> "nil", be |-> "nil"]
InterpFrame(ops, wr) == Frame(TRUE, TRUE, ops, wr)                            \* an instance of the generated template
BlockFrame(body, wr) == Frame(FALSE, TRUE, <<Op("call", 0, body, Nil)>>, wr)  \* the generated closure of a { ... } block
JoinFrame(a, b, wr)  == Frame(FALSE, FALSE, <<Op("call", 0, a, Nil), Op("call", 0, b, Nil)>>, wr)
FlushFrame(wr)       == Frame(FALSE, FALSE, <<Op("kids", 0, Nil, Nil), Op("bflush", 0, Nil, Nil)>>, wr)
\* hand-written callees of a call with block (always called with the caller's buffer)
PassFrame(wr)        == Frame(FALSE, FALSE, <<Op("kids", 0, Nil, Nil)>>, wr)
CollectFrame(wr)     == Frame(FALSE, FALSE, <<Op("okids", 0, Nil, Nil), Op("fwd", 0, Nil, Nil)>>, wr)

Top == stack[Len(stack)]
SetTop(f) == [stack EXCEPT ![Len(stack)] = f]
Push(f, g) == Append(SetTop(f), g)          \* caller frame becomes f, callee g is entered
Pop == SubSeq(stack, 1, Len(stack) - 1)

\* the fault applies to this render's writer only; a buffer that (through a bug) still points at an
\* older writer writes there unhindered
\* the writer value render number r is given
WId(r) == IF SameWriter THEN 1 ELSE r
FaultOf(w) == IF w = WId(run) THEN plan.w ELSE IF w = SideW THEN plan.s ELSE NoW
\* what the top frame passes on as io.Writer: the buffer it writes to
Down == BufRef(Top.fb)
First(e) == IF first = "nil" THEN e ELSE first

-----------------------------------------------------------------------------
Init == /\ \E cap \in Caps, p \in ProgSet :
             LET d == Denote(p) IN
             \E sw \in (IF MaxWrite(p) > cap THEN SWs ELSE {FALSE}) :
                cfg = [cap |-> cap, sw |-> sw, prog |-> p, doc |-> d.out, nev |-> d.ne, nleaf |-> d.nl]
        /\ run = 1 /\ phase = "pick" /\ plan = NoPlan
        /\ stack = <<>> /\ ret = "nil"
        /\ bufs = [i \in 1..NBufs |-> CleanBuf(0)] /\ cur = {} /\ pool = {} /\ nfresh = 0
        /\ W = [i \in 1..(2 * Runs) |-> IF i > Runs THEN NewSideW ELSE NewW]
        /\ slot = NoChild /\ cancelled = FALSE /\ evals = 0 /\ leafs = 0
        /\ first = "nil" /\ late = FALSE /\ pev = <<>> /\ hist = <<>>
        /\ lbl = "Init"

UNCH(vs) == UNCHANGED vs

\* Render(ctx, w) is called: the fault plan of this render is chosen
StartRender ==
    /\ phase = "pick"
    /\ \E p \in (IF Runs = 1 THEN FaultPlans(cfg) \cup {NoPlan}
                 ELSE IF run < Runs THEN FaultPlans(cfg) ELSE {NoPlan}) :
          /\ plan' = p
          /\ cancelled' = (p.l.k = "cancel")
    /\ phase' = "run"
    /\ stack' = <<InterpFrame(cfg.prog, WRef(WId(run)))>>
    /\ ret' = "nil" /\ slot' = NoChild /\ evals' = 0 /\ leafs' = 0 /\ first' = "nil" /\ late' = FALSE
    /\ pev' = <<>>
    /\ lbl' = "StartRender"
    \* a collecting component makes its writer anew; a writer that is rendered to again has recovered and is observed afresh
    /\ W' = [W EXCEPT ![SideW] = NewSideW, ![WId(run)] = NewW]
    /\ UNCH(<<cfg, run, bufs, cur, pool, nfresh, hist>>)

Running == phase = "run" /\ stack # <<>>

\* if ctx.Err() != nil { return ctx.Err() }   -- before any buffer is acquired
CtxCheck ==
    /\ Running /\ Top.pc = "ctx"
    /\ IF cancelled
       THEN /\ stack' = Pop /\ ret' = "ctx" /\ first' = First("ctx")
       ELSE /\ stack' = SetTop([Top EXCEPT !.pc = "acq"]) /\ UNCH(<<ret, first>>)
    /\ lbl' = "CtxCheck"
    /\ UNCH(<<pev, cfg, run, phase, plan, bufs, cur, pool, nfresh, W, slot, cancelled, evals, leafs, late, hist>>)

\* templruntime.GetBuffer(w): the writer is already a *Buffer (nested component) or a pooled/new one is Reset
AcquireBuffer ==
    /\ Running /\ Top.pc = "acq"
    /\ IF Top.wr.t = "buf"
       THEN /\ stack' = SetTop([Top EXCEPT !.pc = "acquired", !.fb = Top.wr.id])
            /\ UNCH(<<bufs, cur, pool, nfresh>>)
       ELSE \E b \in (IF PoolAny \/ pool = {} THEN pool \cup (IF nfresh < NBufs THEN {nfresh + 1} ELSE {}) ELSE pool) :
            LET fresh == b = nfresh + 1 IN
            \* "noreset": pooled buffers are not Reset; "resetunlesssame": not when b.Underlying is the writer already
            /\ bufs' = [bufs EXCEPT ![b] = IF fresh \/ (Bug # "noreset" /\ ~(Bug = "resetunlesssame" /\ @.wr = Top.wr.id))
                                            THEN CleanBuf(Top.wr.id) ELSE @]
            /\ cur' = cur \cup {b} /\ pool' = pool \ {b}
            /\ nfresh' = IF fresh THEN nfresh + 1 ELSE nfresh
            \* "blocknorelease": the closure of a block has no deferred release (it never owns what it acquired)
            /\ stack' = SetTop([Top EXCEPT !.pc = "acquired", !.fb = b,
                                            !.owns = ~(Bug = "blocknorelease" /\ ~Top.chk)])
    /\ pev' = Append(pev, IF Top.wr.t = "buf" THEN "existing" ELSE "acquire")
    /\ lbl' = "AcquireBuffer"
    /\ UNCH(<<cfg, run, phase, plan, ret, W, slot, cancelled, evals, leafs, first, late, hist>>)

\* children := templ.GetChildren(ctx); ctx = templ.ClearChildren(ctx)   (generated templates only, not block closures)
ReadChildren ==
    /\ Running /\ Top.pc = "acquired"
    /\ IF Top.chk
       THEN /\ stack' = SetTop([Top EXCEPT !.pc = "ops", !.mine = slot]) /\ slot' = NoChild
       ELSE /\ stack' = SetTop([Top EXCEPT !.pc = "ops"]) /\ UNCH(slot)
    /\ lbl' = "ReadChildren"
    /\ UNCH(<<pev, cfg, run, phase, plan, ret, bufs, cur, pool, nfresh, W, cancelled, evals, leafs, first, late, hist>>)

AtOp(k) == Running /\ Top.pc = "ops" /\ Top.ops # <<>> /\ Head(Top.ops).k = k
O == Head(Top.ops)
Advance(f) == [f EXCEPT !.ops = Tail(@)]
Fail(f, e) == [f EXCEPT !.pc = "exit", !.err = e]

\* a write through the render's buffer; result r = [bs, ws, err]
DoWrite(text, direct) == BW(bufs[Top.fb], W[bufs[Top.fb].wr], text, direct, cfg.cap, FaultOf(bufs[Top.fb].wr))
ApplyWrite(r) == /\ bufs' = [bufs EXCEPT ![Top.fb] = r.bs]
                 /\ W' = [W EXCEPT ![bufs[Top.fb].wr] = r.ws]

\* templruntime.WriteString(buffer, i, "literal"); if err != nil { return err }
\* an X op: literal, expression, literal (bookkeeping step, nothing happens in the code)
Expand ==
    /\ AtOp("X")
    /\ stack' = SetTop([Top EXCEPT !.ops = Expansion(O) \o Tail(@)])
    /\ lbl' = "Expand"
    /\ UNCH(<<pev, cfg, run, phase, plan, ret, bufs, cur, pool, nfresh, W, slot, cancelled, evals, leafs, first, late, hist>>)

WriteLit ==
    /\ (AtOp("L") \/ AtOp("Lx"))
    /\ LET r == DoWrite(IF O.k = "L" THEN LitText(O.n) ELSE LxText(O.n), cfg.sw) IN
       /\ ApplyWrite(r)
       /\ IF r.err # "nil" /\ Bug # "nochecklit"
          THEN stack' = SetTop(Fail(Top, r.err))
          ELSE stack' = SetTop(Advance(Top))
       /\ first' = IF r.err # "nil" THEN First(r.err) ELSE first
    /\ lbl' = "WriteLit"
    /\ UNCH(<<pev, cfg, run, phase, plan, ret, cur, pool, nfresh, slot, cancelled, evals, leafs, late, hist>>)

\* v, err = templ.JoinStringErrs(expr); if err != nil { return templ.Error{...} }
EvalExpr ==
    /\ AtOp("E")
    /\ evals' = evals + 1
    /\ late' = (late \/ first # "nil")
    /\ IF plan.l.k = "expr" /\ plan.l.j = evals + 1
       THEN IF Bug = "noexprcheckinlit" /\ O.n = 13
            \* no error handler for a script expression inside a string literal: the error is overwritten by the
            \* result of the write of the (empty) value that follows
            THEN /\ stack' = SetTop([Top EXCEPT !.pc = "wexpr", !.ops = <<Op("E", 0, Nil, Nil)>> \o Tail(@)])
                 /\ UNCH(<<first, cancelled>>)
            ELSE /\ stack' = SetTop(Fail(Top, "expr")) /\ first' = First("expr") /\ UNCH(cancelled)
       ELSE /\ stack' = SetTop([Top EXCEPT !.pc = "wexpr"]) /\ UNCH(first)
            /\ cancelled' = (cancelled \/ (plan.l.k = "cancelat" /\ plan.l.j = evals + 1))
    /\ lbl' = "EvalExpr"
    /\ UNCH(<<pev, cfg, run, phase, plan, ret, bufs, cur, pool, nfresh, W, slot, leafs, hist>>)

\* _, err = buffer.WriteString(templ.EscapeString(v)); if err != nil { return err }
WriteExpr ==
    /\ Running /\ Top.pc = "wexpr"
    /\ LET r == DoWrite(ExprText(O.n), cfg.sw) IN
       /\ ApplyWrite(r)
       /\ IF r.err # "nil"
          THEN stack' = SetTop(Fail(Top, r.err))
          ELSE stack' = SetTop([Advance(Top) EXCEPT !.pc = "ops"])
       /\ first' = IF r.err # "nil" THEN First(r.err) ELSE first
    /\ lbl' = "WriteExpr"
    /\ UNCH(<<pev, cfg, run, phase, plan, ret, cur, pool, nfresh, slot, cancelled, evals, leafs, late, hist>>)

\* a hand-written component: returns an error, or writes its bytes with w.Write([]byte)
CallLeaf ==
    /\ AtOp("leaf")
    /\ leafs' = leafs + 1
    /\ IF plan.l.k = "leaf" /\ plan.l.j = leafs + 1
       THEN /\ ret' = "comp" /\ first' = First("comp") /\ UNCH(<<bufs, W>>)
       ELSE LET r == DoWrite(LeafText(O.n), TRUE) IN
            /\ ApplyWrite(r) /\ ret' = r.err
            /\ first' = IF r.err # "nil" THEN First(r.err) ELSE first
    /\ stack' = SetTop([Top EXCEPT !.pc = "ret"])
    /\ lbl' = "CallLeaf"
    /\ UNCH(<<pev, cfg, run, phase, plan, cur, pool, nfresh, slot, cancelled, evals, late, hist>>)

\* err = c.Render(ctx, buffer)   /   c.Render(templ.WithChildren(ctx, block), buffer)
EnterCall ==
    /\ \/ /\ AtOp("call") /\ stack' = Push([Top EXCEPT !.pc = "ret"], InterpFrame(O.a, Down)) /\ UNCH(slot)
       \/ /\ AtOp("cb") /\ stack' = Push([Top EXCEPT !.pc = "ret"], InterpFrame(O.a, Down)) /\ slot' = Block(O.b)
       \/ /\ AtOp("flush") /\ stack' = Push([Top EXCEPT !.pc = "ret"], FlushFrame(Down)) /\ slot' = Block(O.a)
       \/ /\ AtOp("join") /\ stack' = Push([Top EXCEPT !.pc = "ret"], JoinFrame(O.a, O.b, Down)) /\ UNCH(slot)
       \/ /\ AtOp("hcb") /\ slot' = Block(O.a)
          /\ stack' = Push([Top EXCEPT !.pc = "ret"], IF O.n = 0 THEN PassFrame(Down) ELSE CollectFrame(Down))
    /\ ret' = "nil"
    /\ lbl' = "EnterCall"
    /\ UNCH(<<pev, cfg, run, phase, plan, bufs, cur, pool, nfresh, W, cancelled, evals, leafs, first, late, hist>>)

\* { children... } renders the block this template instance received (templ.NopComponent if none);
\* templ.Flush takes templ.GetChildren(ctx) out of the context value (read, then ClearChildren) and renders it
RenderChildren ==
    /\ \/ /\ AtOp("slot")
          /\ IF Top.mine.has THEN stack' = Push([Top EXCEPT !.pc = "ret"], BlockFrame(Top.mine.body, Down))
                             ELSE stack' = SetTop([Top EXCEPT !.pc = "ret"])
          /\ UNCH(<<slot, W>>)
       \/ /\ AtOp("kids")                       \* templ.Flush / the pass-through component: children into the given writer
          /\ IF slot.has THEN stack' = Push([Top EXCEPT !.pc = "ret"], BlockFrame(slot.body, Down))
                         ELSE stack' = SetTop([Top EXCEPT !.pc = "ret"])
          /\ slot' = NoChild /\ UNCH(W)
       \/ /\ AtOp("okids")                      \* the collecting component: children into a new writer of its own
          /\ IF slot.has THEN stack' = Push([Top EXCEPT !.pc = "ret"], BlockFrame(slot.body, WRef(SideW)))
                         ELSE stack' = SetTop([Top EXCEPT !.pc = "ret"])
          /\ slot' = NoChild /\ W' = [W EXCEPT ![SideW] = NewSideW]
    /\ ret' = "nil"
    /\ lbl' = "RenderChildren"
    /\ UNCH(<<pev, cfg, run, phase, plan, bufs, cur, pool, nfresh, cancelled, evals, leafs, first, late, hist>>)

\* runtime.Buffer.Flush on the render's buffer, then http.Flusher.Flush of the underlying writer
RuntimeFlush == LET w == bufs[Top.fb].wr
                    r == BFlush(bufs[Top.fb], W[w], FaultOf(w))
                IN [bs |-> r.bs, err |-> r.err, w |-> w,
                    ws |-> IF r.err = "nil" THEN [r.ws EXCEPT !.uf = Append(@, Len(r.ws.sink))] ELSE r.ws]

\* templ.Flush after its children: w.Flush()
FlushOp ==
    /\ AtOp("bflush")
    /\ LET r == RuntimeFlush IN
       /\ bufs' = [bufs EXCEPT ![Top.fb] = r.bs]
       /\ W' = [W EXCEPT ![r.w] = r.ws]
       /\ IF r.err # "nil" THEN stack' = SetTop(Fail(Top, r.err)) ELSE stack' = SetTop(Advance(Top))
       /\ first' = IF r.err # "nil" THEN First(r.err) ELSE first
    /\ lbl' = "FlushOp"
    /\ UNCH(<<pev, cfg, run, phase, plan, ret, cur, pool, nfresh, slot, cancelled, evals, leafs, late, hist>>)

\* the collecting component forwards what its own writer received: w.Write(collected)
Forward ==
    /\ AtOp("fwd")
    /\ LET r == DoWrite(W[SideW].sink, TRUE) IN
       /\ ApplyWrite(r)
       /\ IF r.err # "nil" THEN stack' = SetTop(Fail(Top, r.err)) ELSE stack' = SetTop(Advance(Top))
       /\ first' = IF r.err # "nil" THEN First(r.err) ELSE first
    /\ lbl' = "Forward"
    /\ UNCH(<<pev, cfg, run, phase, plan, ret, cur, pool, nfresh, slot, cancelled, evals, leafs, late, hist>>)

\* if err != nil { return err }  after a call
ReturnCall ==
    /\ Running /\ Top.pc = "ret"
    /\ IF ret # "nil" /\ Bug # "nocheckcall"
       THEN stack' = SetTop(Fail(Top, ret))
       ELSE stack' = SetTop([Advance(Top) EXCEPT !.pc = "ops"])
    /\ ret' = "nil"
    /\ lbl' = "ReturnCall"
    /\ UNCH(<<pev, cfg, run, phase, plan, bufs, cur, pool, nfresh, W, slot, cancelled, evals, leafs, first, late, hist>>)

\* return nil at the end of the template
ReturnNil ==
    /\ Running /\ Top.pc = "ops" /\ Top.ops = <<>>
    /\ stack' = SetTop([Top EXCEPT !.pc = "exit", !.err = "nil"])
    /\ lbl' = "ReturnNil"
    /\ UNCH(<<pev, cfg, run, phase, plan, ret, bufs, cur, pool, nfresh, W, slot, cancelled, evals, leafs, first, late, hist>>)

\* leaving a frame: the owner of the buffer runs its deferred release, everybody else just returns
Exit ==
    /\ Running /\ Top.pc = "exit"
    /\ IF Top.owns
       THEN /\ stack' = SetTop([Top EXCEPT !.pc = "release"]) /\ UNCH(ret)
       ELSE /\ stack' = Pop /\ ret' = Top.err
    /\ lbl' = "Exit"
    /\ UNCH(<<pev, cfg, run, phase, plan, bufs, cur, pool, nfresh, W, slot, cancelled, evals, leafs, first, late, hist>>)

\* runtime.ReleaseBuffer, first half: err = b.Flush()
DeferredFlush ==
    /\ Running /\ Top.pc = "release"
    /\ LET r == RuntimeFlush IN
       /\ bufs' = [bufs EXCEPT ![Top.fb] = r.bs]
       /\ W' = [W EXCEPT ![r.w] = r.ws]
       /\ stack' = SetTop([Top EXCEPT !.pc = "put", !.be = r.err])
       /\ first' = IF r.err # "nil" THEN First(r.err) ELSE first
    /\ pev' = Append(pev, "flush:" \o RuntimeFlush.err)
    /\ lbl' = "DeferredFlush"
    /\ UNCH(<<cfg, run, phase, plan, ret, cur, pool, nfresh, slot, cancelled, evals, leafs, late, hist>>)

\* second half: bufferPool.Put(b); then the deferred func adopts the flush error iff none is set
DeferredPut ==
    /\ Running /\ Top.pc = "put"
    /\ pool' = pool \cup {Top.fb} /\ cur' = cur \ {Top.fb}
    /\ ret' = CASE Bug = "dropflusherr" -> Top.err
                [] Bug = "alwaysadopt"  -> Top.be
                [] OTHER -> IF Top.err = "nil" THEN Top.be ELSE Top.err
    /\ stack' = Pop
    /\ pev' = Append(pev, "release")
    /\ lbl' = "DeferredPut"
    /\ UNCH(<<cfg, run, phase, plan, bufs, nfresh, W, slot, cancelled, evals, leafs, first, late, hist>>)

\* Render has returned to the caller
EndRender ==
    /\ phase = "run" /\ stack = <<>>
    /\ hist' = Append(hist, [plan |-> plan, res |-> ret, sink |-> W[WId(run)].sink, fired |-> W[WId(run)].dead, sfired |-> W[SideW].dead, left |-> Cardinality(cur),
                             uf |-> W[WId(run)].uf, pev |-> pev, evals |-> evals, leafs |-> leafs, first |-> first])
    /\ IF run = Runs THEN phase' = "done" /\ UNCH(run) ELSE phase' = "pick" /\ run' = run + 1
    /\ lbl' = "EndRender"
    /\ UNCH(<<pev, cfg, plan, stack, ret, bufs, cur, pool, nfresh, W, slot, cancelled, evals, leafs, first, late>>)

Next == \/ StartRender \/ Expand \/ CtxCheck \/ AcquireBuffer \/ ReadChildren \/ WriteLit \/ EvalExpr \/ WriteExpr
        \/ CallLeaf \/ EnterCall \/ RenderChildren \/ FlushOp \/ Forward \/ ReturnCall \/ ReturnNil \/ Exit
        \/ DeferredFlush \/ DeferredPut \/ EndRender

Spec == Init /\ [][Next]_vars

-----------------------------------------------------------------------------
(* properties *)
IsPrefix(s, t) == Len(s) <= Len(t) /\ SubSeq(t, 1, Len(s)) = s

\* the bytes a writer has accepted are a prefix of the full document -- always, for every writer
Prefix == \A i \in 1..Runs : IsPrefix(W[i].sink, cfg.doc)

\* did the logical fault of the plan actually happen in the finished render h
LFired(h) == \/ h.plan.l.k = "cancel"
             \/ h.plan.l.k = "expr" /\ h.evals >= h.plan.l.j
             \/ h.plan.l.k = "leaf" /\ h.leafs >= h.plan.l.j

NilMeansComplete == \A i \in 1..Len(hist) : hist[i].res = "nil" => hist[i].sink = cfg.doc

FaultMeansError == \A i \in 1..Len(hist) : LET h == hist[i] IN
                      /\ (h.fired \/ LFired(h)) => h.res # "nil"
                      /\ h.res = h.first                      \* the cause is the first error produced
                      /\ h.sfired => h.res # "nil"
                      /\ h.res \in {"nil", "inj", "short", "expr", "comp", "ctx", "sinj"}
                      /\ h.res = "sinj" => h.sfired
                      /\ h.res \in {"inj", "short"} => h.fired
                      /\ h.res = "expr" => h.plan.l.k = "expr"
                      /\ h.res = "comp" => h.plan.l.k = "leaf"
                      /\ h.res = "ctx" => h.plan.l.k \in {"cancel", "cancelat"}

\* a render without a fault succeeds whatever happened before it (with NilMeansComplete: it is exact)
LaterRendersUnaffected == \A i \in 1..Len(hist) :
                             (hist[i].plan = NoPlan) => hist[i].res = "nil"

\* at acquisition the buffer is empty, has no error and writes to this render's writer
NoCarryOver == (Running /\ Top.pc = "acquired" /\ Top.owns) =>
                   bufs[Top.fb] = CleanBuf(Top.wr.id)

\* exactly one frame -- the outermost -- owns the buffer and releases it; nobody holds a pooled buffer
OneOwnerFlushes ==
    /\ cur \cap pool = {}
    \* every held buffer has exactly one owning frame (the one that acquired it, which will flush and release it)
    /\ phase = "run" => /\ \A b \in cur : Cardinality({i \in 1..Len(stack) : stack[i].owns /\ stack[i].fb = b}) = 1
                        /\ \A i \in 1..Len(stack) : stack[i].owns => stack[i].fb \in cur
                        \* the render's own buffer belongs to the outermost frame
                        /\ \A i \in 2..Len(stack) : stack[i].owns => stack[i].wr.t = "w"
    \* when Render has returned nothing is held any more
    /\ phase # "run" => cur = {}

\* nothing is evaluated after an error has been produced
FailStop == ~late

TypeOK == /\ run \in 1..Runs /\ phase \in {"pick", "run", "done"}
          /\ cur \subseteq 1..NBufs /\ pool \subseteq 1..NBufs
          /\ Len(stack) <= 24

(* every terminal behaviour, for the replay on real generated code *)
PrintCase == (Emit /\ phase = "done") =>
                PrintT(<<"CASE", ToJson([cap |-> cfg.cap, sw |-> cfg.sw, same |-> SameWriter, prog |-> cfg.prog, doc |-> cfg.doc,
                                         nev |-> cfg.nev, nleaf |-> cfg.nleaf, runs |-> hist])>>)
=============================================================================
