--------------------------- MODULE TraceParseCursor ---------------------------
(* C06 binding (VAL) for totality: loop-top events recorded from the REAL parser through the verif
   hook (hooks/C06-parser-loops.diff), written by harness/c06:

     {k:"in",  id, n}            a parse of an input of n bytes starts
     {k:"top", id, f, l, i}      control is at the top of loop l, invocation (frame) f, cursor at i

   The events of nested invocations interleave and loop exits are not logged, so the trace spec keeps
   one frame record per invocation id instead of ParseCursor's stack; the step itself is
   ParseCursor's LoopTop: its contract TopOK (the cursor has advanced since the previous top of the
   same invocation) and bookkeeping AtTop, with the invariants CursorInBounds and TopBound
   (at most n+1 tops per invocation) evaluated at every step.  n is the length of the CALLER's
   input (what was passed to parser.ParseString), so a cursor beyond it is a position outside the
   input.  `entered` counts how often one loop is started at one index during one parse (exits are
   not logged, so zero-width invocations are counted too, hence the larger TraceReparseLimit).                                                                    *)
EXTENDS ParseCursor, Json

CONSTANT TraceReparseLimit   \* ReparseBound for real parses: ordered alternatives start attributesParser /
                             \* expressionParser at one index a few times (corpus maximum 4); nesting must not multiply it

VARIABLES i, frames, n, cur, nbad
tvars == <<i, frames, n, cur, nbad>>

Trace == ndJsonDeserialize("trace.ndjson")
Len_ == Len(Trace)

TInit == Init /\ i = 1 /\ frames = <<>> /\ n = 0 /\ cur = -1 /\ nbad = 0

Begin(e) == /\ e.k = "in"
            /\ cur' = e.id /\ n' = e.n /\ frames' = <<>>
            /\ idx' = 0 /\ entered' = <<>>
            /\ UNCHANGED nbad

FrameOf(e) == IF e.f \in DOMAIN frames THEN frames[e.f] ELSE Frame(e.l)

TopViolations(e) ==
    LET f == FrameOf(e) IN
       (IF TopOK(f, e.i) THEN {} ELSE {"NoProgress"})
  \cup (IF 0 <= e.i /\ e.i <= n THEN {} ELSE {"CursorInBounds"})
  \cup (IF AtTop(f, e.i).tops <= n + 1 THEN {} ELSE {"TopBound"})
  \cup (IF f.tops = 0 /\ Count(entered, <<e.l, e.i>>) + 1 = TraceReparseLimit + 1 THEN {"ReparseBound"} ELSE {})

Top(e) == /\ e.k = "top"
          /\ e.id = cur
          /\ LET v == TopViolations(e) IN
             /\ IF v # {} THEN PrintT(<<"BAD", ToJson([id |-> cur, loop |-> e.l, idx |-> e.i, sigs |-> v])>>) ELSE TRUE
             /\ nbad' = nbad + (IF v # {} THEN 1 ELSE 0)
          /\ frames' = (e.f :> AtTop(FrameOf(e), e.i)) @@ frames
          /\ idx' = e.i                                   \* the model's cursor follows the logged one
          /\ entered' = IF FrameOf(e).tops = 0 THEN Bump(entered, <<e.l, e.i>>) ELSE entered
          /\ UNCHANGED <<n, cur>>

TNext == /\ i <= Len_
         /\ (Begin(Trace[i]) \/ Top(Trace[i]))
         /\ i' = i + 1
         /\ UNCHANGED <<stack, started, done>>           \* the per-invocation records replace the stack (see above)
         /\ (Trace[i].k = "in" \/ Trace[i].k = "top")
         /\ TLCSet(7, i)

AllConsumed == TLCGet(7) = Len_
Summary == i = Len_ + 1 => PrintT(<<"DONE", ToJson([events |-> Len_, bad |-> nbad])>>)
=============================================================================
