\* C18 framing: bounded system, every variant x every truncation point x chunkings.
CONSTANTS
  Cap = 40
  Msgs <- SmallMsgs
  MaxMsgs = 2
  LenMode = "bytes"
  IdDecode = "strict"
  NullResult = "ok"
  Variants <- VariantsDef
  ChunkMax = 2
  AllCuts = TRUE
INIT Init
NEXT Next
VIEW View
INVARIANTS TypeOK ReadIsPrefixOfSent LengthCountsBytes Lossless MalformedGivesError LenientIsSafe NeverWaitsAfterEOF NeverWaitsAfterCompleteFrame ChunkingIrrelevant IdsPreserved PayloadsPreserved
CHECK_DEADLOCK FALSE
