\* C20 as coded: the text/html gate is a case-sensitive prefix test (TEXT/HTML pages get no script): TLC must reject HtmlGetsExactlyOneScript.
CONSTANTS
  UnsupportedRule = "pass"
  HeadRule = "pass"
  StatusRule = "pass"
  CtRule = "casesensitive"
  ParseRule = "scripting"
  CspRule = "policylist"
  LengthRule = "set"
  EmitCases = FALSE
INIT Init
NEXT Next
INVARIANTS TypeOK PassThroughIsIdentity HtmlGetsExactlyOneScript DocumentOnlyAppendedTo LengthMatchesBody EncodingHeaderDescribesBody HeadIsUntouched
CHECK_DEADLOCK FALSE
