\* C06 trace validation of recorded ranges and error positions.
INIT Init
NEXT Next
INVARIANTS Summary
POSTCONDITION AllConsumed
CHECK_DEADLOCK FALSE
