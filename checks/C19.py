#!/usr/bin/env python3
"""C19 -- live-reload broadcast is reliable and survives client churn (spec/Sse.tla).

MC   : TLC checks NoPanic, BroadcasterNeverBlocks, OthersUnaffected, NoLeak (invariants) and Delivered,
       SendReturns, NoLeakLive (liveness under fairness) on the repaired design ("done": per-client done
       channel), all interleavings of 2 clients x 2 back-to-back broadcasts x cancel at every point x one
       slow reader (3 clients in thorough). Three negative configs must be rejected: the design as coded
       at the pinned commit ("close": NoPanic), the naive repair ("noclose": NoLeak) and Send holding m
       across the send ("lockedsend": BroadcasterNeverBlocks).
GEN  : which design the tree under test implements is decided by REAL behaviour: TLC's shortest behaviour
       into the Panic state of the "close" design is replayed through the verif hook; if the process dies
       with "send on closed channel" the tree is "close", else "done". Then every race-free transition of
       that design's replay model is covered by complete TLC behaviours (init -> terminal state) and each
       is replayed step by step on the real handler in race-instrumented subprocesses: the harness
       connects/cancels clients, stalls/fails their writes, calls Send, releases each delivery goroutine
       and each exiting handler through the blocking hook in the prescribed order; observed: hook events,
       events written per client, process exit status, goroutine count at quiescence.
VAL  : seeded stress of the real handler (Go scheduler + seeded yields decide), every step logged and
       validated by TLC against TraceSse.tla; plus churn over a real HTTP server (outcomes only).
The verdict always comes from the real code: a panic that the spec attributes to closing the events
channel under pending deliveries carries the root-cause signature ROOT (known finding until the fix is
committed); any other failure is a different signature.
"""
import atexit, collections, json, os, random, signal, subprocess, sys, threading, time
sys.path.insert(0, os.path.join(os.path.dirname(os.path.abspath(__file__)), "..", "lib"))
import vlib

ROOT = "Unregister.ClosesEventsChannelWithPendingDelivery"
SSE = "cmd/templ/generatecmd/sse"


def cfg_text(name, **subst):
    text = open(os.path.join(vlib.SPEC, name)).read()
    for k, v in subst.items():
        import re
        text, n = re.subn(r"(?m)^(\s*%s\s*=\s*).*$" % k, lambda m: m.group(1) + v, text)
        if n != 1:
            raise vlib.InfraError("cfg %s: constant %s not found" % (name, k))
    return text


def no_props(text):
    return "\n".join(l for l in text.splitlines() if not l.startswith("PROPERTIES"))


# ------------------------------------------------------------------------------------------------
# schedules: cover every emitted edge by complete behaviours init -> terminal state
# ------------------------------------------------------------------------------------------------
def build_graph(E):
    key = lambda s: json.dumps(s, sort_keys=True)
    ids, states, edges = {}, {}, []
    out = collections.defaultdict(list)

    def nid(s):
        k = key(s)
        if k not in ids:
            ids[k] = len(ids)
            states[ids[k]] = s
        return ids[k]
    for e in E:
        a, b = nid(e["from"]), nid(e["to"])
        edges.append((a, e["lbl"], b))
        out[a].append(len(edges) - 1)
    init = edges[0][0]
    parent = {init: None}
    q = collections.deque([init])
    while q:
        u = q.popleft()
        for ei in out[u]:
            v = edges[ei][2]
            if v not in parent:
                parent[v] = ei
                q.append(v)
    rev = collections.defaultdict(list)
    for i, (a, l, b) in enumerate(edges):
        rev[b].append(i)
    term = [n for n in states if not out[n]]
    toterm = {n: None for n in term}
    q = collections.deque(term)
    while q:
        v = q.popleft()
        for ei in rev[v]:
            u = edges[ei][0]
            if u not in toterm:
                toterm[u] = ei
                q.append(u)
    if len(parent) != len(states) or len(toterm) != len(states):
        raise vlib.InfraError("replay graph: unreachable states or states without a path to a terminal state")
    return states, edges, out, parent, toterm, init


def path_to(edges, parent, u):
    p = []
    while parent[u] is not None:
        p.append(parent[u])
        u = edges[parent[u]][0]
    p.reverse()
    return p


def build_schedules(E, rng):
    states, edges, out, parent, toterm, init = build_graph(E)
    covered = [False] * len(edges)
    order = list(range(len(edges)))
    rng.shuffle(order)
    scheds = []
    for e0 in order:
        if covered[e0]:
            continue
        path = path_to(edges, parent, edges[e0][0]) + [e0]
        u = edges[e0][2]
        while out[u]:
            unc = [ei for ei in out[u] if not covered[ei]]
            ei = rng.choice(unc) if unc else toterm[u]
            path.append(ei)
            covered[ei] = True
            u = edges[ei][2]
        for ei in path:
            covered[ei] = True
        scheds.append({"id": len(scheds), "steps": [edges[ei][1] for ei in path], "final": states[u], "edges": path})
    return scheds, len(edges), len(states)


def shortest_panic(E):
    states, edges, out, parent, toterm, init = build_graph(E)
    best = None
    for n, s in states.items():
        if s["panicked"]:
            p = path_to(edges, parent, n)
            if best is None or len(p) < len(best[0]):
                best = (p, n)
    if best is None:
        raise vlib.InfraError("the close design has no panic state in the replay model")
    return {"id": 0, "steps": [edges[ei][1] for ei in best[0]], "final": states[best[1]]}


# ------------------------------------------------------------------------------------------------
# driving expendable subject processes
# ------------------------------------------------------------------------------------------------
SELFTEST_EP = 999999
MAX_BAD = 3   # a failing case costs a timeout: after this many in one chain the rest is not run (exit 1 anyway)


_children = set()
_children_lock = threading.Lock()


def _kill_children():
    with _children_lock:
        for p in list(_children):
            try:
                p.kill()
            except Exception:
                pass


atexit.register(_kill_children)
for _sig in (signal.SIGTERM, signal.SIGINT, signal.SIGHUP):
    signal.signal(_sig, lambda *a: sys.exit(2))   # -> atexit: no subject process survives the check


class Budget:
    """Shared by all subject chains of one stage: stop starting work after `max_bad` cases in which the real code
    did not do what the spec says (each of them cost a timeout) or after `wall` seconds."""

    def __init__(self, max_bad, wall):
        self.max_bad, self.deadline, self.bad, self.lock = max_bad, time.time() + wall, 0, threading.Lock()

    def note_bad(self, n=1):
        with self.lock:
            self.bad += n

    def exhausted(self):
        return self.bad >= self.max_bad or time.time() > self.deadline

    def remaining(self):
        return max(5.0, self.deadline - time.time())


def run_subject(binp, args_for, lo, hi, budget=None):
    """Run items lo..hi-1 in subject processes, restarting after each death. args_for(i) -> argv tail.
    Returns ({i: record}, fail_records, summary, restarts). Every wait is bounded: a subject that outlives the
    budget is killed."""
    res, fails, summary, restarts = {}, [], None, 0
    budget = budget or Budget(MAX_BAD, 3000)
    i = lo
    while i < hi:
        if budget.exhausted():
            res["aborted"] = {"outcome": "aborted"}
            break
        p = subprocess.Popen([binp] + args_for(i), stdout=subprocess.PIPE, stderr=subprocess.PIPE)
        with _children_lock:
            _children.add(p)
        try:
            out, errb = p.communicate(timeout=budget.remaining() + 60)
        except subprocess.TimeoutExpired:
            p.kill()
            out, errb = p.communicate()
            res["aborted"] = {"outcome": "aborted", "why": "wall budget"}
        finally:
            with _children_lock:
                _children.discard(p)
        p.stdout_bytes, p.stderr_bytes = out, errb
        restarts += 1
        cur = step = None
        for line in p.stdout_bytes.decode(errors="replace").splitlines():
            if not line.startswith("{"):
                continue
            try:
                r = json.loads(line)
            except ValueError:
                continue
            k = r.get("kind")
            if k == "begin":
                cur, step = r["i"], None
            elif k == "step":
                step = r["k"]
            elif k == "result":
                res[r["i"]] = r
                cur = None
                if r.get("outcome") in ("fail", "drift"):
                    budget.note_bad()
            elif k == "fail":
                fails.append(r)
            elif k == "summary":
                summary = r
        err = p.stderr_bytes.decode(errors="replace")
        if "aborted" in res:
            break
        if "HARNESS-ERROR" in err or p.returncode == 4:
            raise vlib.InfraError("c19 harness: " + err[-2000:])
        if cur is not None:
            msg = [l for l in err.splitlines() if l.startswith("panic:") or l.startswith("fatal error:")]
            res[cur] = {"i": cur, "outcome": "died", "rc": p.returncode, "step": step,
                        "msg": msg[0] if msg else "exit status %s: %s" % (p.returncode, err[-400:]),
                        "race": "WARNING: DATA RACE" in err, "stack_in_send": "sse.(*Handler).Send" in err}
            i = cur + 1
        elif p.returncode == 0 and summary is not None:
            if "WARNING: DATA RACE" in err:
                res["race"] = {"outcome": "race", "msg": err[:1500]}
            break
        elif p.returncode == 3 and res:
            i = max(k for k in res if isinstance(k, int)) + 1
        elif p.returncode == 66:
            res["race"] = {"outcome": "race", "msg": err[:1500]}
            break
        else:
            raise vlib.InfraError("c19 subject ended unexpectedly rc=%s: %s" % (p.returncode, err[-1500:]))
    return res, fails, summary, restarts


def replay_parallel(binp, scheds, shards, sc, tmo, budget=None):
    """Replay schedules in `shards` parallel subject chains. Returns list of (schedule, record)."""
    parts = [scheds[k::shards] for k in range(shards)]
    results = [None] * shards
    errors = []

    def work(k):
        try:
            path = os.path.join(sc, "sched-%d.ndjson" % k)
            with open(path, "w") as fh:
                for s in parts[k]:
                    fh.write(json.dumps({"id": s["id"], "steps": s["steps"], "final": s["final"],
                                         "stall_at": s.get("stall_at", -1), "stall_ms": s.get("stall_ms", 0)}) + "\n")
            res, _, _, restarts = run_subject(binp, lambda i: ["replay", path, str(i), str(tmo)], 0, len(parts[k]), budget)
            results[k] = (res, restarts)
        except Exception as e:  # noqa
            errors.append(e)
    ths = [threading.Thread(target=work, args=(k,)) for k in range(shards) if parts[k]]
    for t in ths:
        t.start()
    for t in ths:
        t.join()
    if errors:
        raise errors[0] if isinstance(errors[0], vlib.InfraError) else vlib.InfraError(repr(errors[0]))
    out, restarts = [], 0
    for k in range(shards):
        if not parts[k]:
            continue
        res, rs = results[k]
        restarts += rs
        for j, s in enumerate(parts[k]):
            if j not in res:
                if "aborted" in res:
                    continue
                raise vlib.InfraError("schedule %d was emitted but not replayed" % s["id"])
            out.append((s, res[j]))
        if "race" in res:
            out.append((None, res["race"]))
    return out, restarts


def stall_point(s):
    """Index of a WriteDone(c) before which a delivery to c is blocked in its send (released, not yet received)
    while c stays connected and later receives it: the place where a slow reader's stall can be stretched."""
    sending, cancelled = collections.defaultdict(set), set()
    for j, l in enumerate(s["steps"]):
        a = l["a"]
        if a == "run" and not l.get("panic"):
            sending[l["c"]].add(l["b"])
        elif a == "deliver":
            sending[l["c"]].discard(l["b"])
        elif a == "cancel":
            cancelled.add(l["c"])
        elif a == "wdone" and sending[l["c"]] and l["c"] not in cancelled:
            c, bs = l["c"], set(sending[l["c"]])
            later = {x["b"] for x in s["steps"][j + 1:] if x["a"] == "deliver" and x["c"] == c}
            if bs & later and set(s["final"]["got"][c]) & bs & later:
                return j
    return None


def short(steps):
    def one(l):
        a = l["a"]
        if a in ("run", "deliver", "abandon"):
            return "%s(%s,b%d)" % (a, l["c"], l["b"])
        if a in ("bspawn", "block"):
            return "%s(b%d)" % (a, l["b"])
        return "%s(%s)" % (a, l.get("c", ""))
    return " ".join(one(l) for l in steps)


def judge(ck, design, s, r, counts):
    """Compare the real outcome of one replayed schedule with the spec's prediction."""
    predicted_panic = s["final"]["panicked"]
    case = {"design_of_tree": design, "schedule": short(s["steps"]), "spec_final": {k: s["final"][k] for k in ("pc", "got", "dl", "panicked")},
            "real": {k: r.get(k) for k in ("outcome", "msg", "step", "sig", "what", "rc")},
            "reproduce": "write the schedule (steps+final) as one ndjson line and run: c19 replay <file> 0  (harness/c19, -race -tags verif)"}
    o = r["outcome"]
    if o == "ok":
        counts["ok"] += 1
        return
    if o == "died":
        closed = "send on closed channel" in r.get("msg", "")
        if predicted_panic and closed and r.get("step") == len(s["steps"]) - 1:
            counts["panic_as_predicted"] += 1
            branch = s["steps"][-1].get("branch", "")
            counts["branch:" + branch] += 1
            ck.violation(ROOT, "the watch process dies with 'panic: send on closed channel' (" + branch + ") on schedule: " + short(s["steps"]), case)
        elif closed:
            counts["panic_unpredicted_step"] += 1
            ck.violation("Panic.SendOnClosedChannel.NotWhereSpecSays", "process died with send on closed channel at step %s; the spec's design model does not panic there: %s" % (r.get("step"), short(s["steps"])), case)
        else:
            counts["died_other"] += 1
            ck.violation("Crash." + r.get("msg", "?")[:60], "the process died during schedule: " + short(s["steps"]), case)
        return
    if o == "fail":
        counts["fail"] += 1
        ck.violation(r["sig"], r["what"] + " -- schedule: " + short(s["steps"][: (r.get("step", -1) + 1) or None]), case)
        return
    if o == "drift":
        counts["drift"] += 1
        if counts["drift"] <= 5:
            ck.notes.append("model drift: %s [%s]" % (r.get("what"), short(s["steps"])))
        return
    raise vlib.InfraError("unknown outcome %r" % (r,))


# ------------------------------------------------------------------------------------------------
# trace preparation for TraceSse
# ------------------------------------------------------------------------------------------------
def prepare_trace(raw_lines, died_eps, aborted_eps):
    """Group by episode; merge send+spawn lines into block+bspawn; classify dend; add terminators and nx."""
    eps = collections.OrderedDict()
    for l in raw_lines:
        eps.setdefault(l["ep"], []).append(l)
    out = []
    kinds = collections.Counter()
    for ep, lines in eps.items():
        if ep in aborted_eps:
            continue
        ended = any(l["e"] == "end" for l in lines)
        if not ended and ep not in died_eps:
            raise vlib.InfraError("trace: episode %d has no end line and the process did not die in it" % ep)
        delivered = {(l["c"], l["b"]) for l in lines if l["e"] == "wstart" and l["b"] > 0}
        spawn = collections.defaultdict(list)
        for l in lines:
            if l["e"] == "spawn":
                spawn[l["b"]].append(l["c"])
        returned = {l["b"] for l in lines if l["e"] == "sent"}
        cur = []
        for l in lines:
            e = l["e"]
            if e in ("spawn", "sent"):
                continue
            if e == "send":
                # a Send that was cut off by the death of the process may have logged only some of its spawns
                cur.append(dict(l, e="block"))
                cur.append(dict(l, e="bspawn", targets=sorted(spawn[l["b"]]), ok=(l["b"] in returned or ended)))
                continue
            if e == "dend":
                if (l["c"], l["b"]) in delivered or not ended:
                    continue
                cur.append(dict(l, e="abandon"))
                continue
            cur.append(l)
        if not ended:
            cur.append({"ep": ep, "e": "panic", "c": "", "b": 0, "ok": False, "stay": False, "targets": []})
        for l in cur:
            kinds[l["e"]] += 1
        out.append(cur)
    # binding self-test: a copy of a complete episode with its first register line removed must be rejected
    donor = next((cur for cur in out if cur[-1]["e"] == "end" and sum(1 for l in cur if l["e"] == "wstart" and l["b"] > 0) > 0), None)
    if donor is None:
        raise vlib.InfraError("stress trace has no complete episode with a delivery")
    k = next(i for i, l in enumerate(donor) if l["e"] == "register")
    out.append([dict(l, ep=SELFTEST_EP) for i, l in enumerate(donor) if i != k])
    flat = []
    pos = 1
    for cur in out:
        nx = pos + len(cur)
        for l in cur:
            flat.append(dict(l, nx=nx))
        pos = nx
    return flat, kinds, len(out)  # includes the self-test episode


def main():
    ck = vlib.Check("C19", "model_checking")
    thorough = ck.tier == "thorough"
    rng = random.Random(ck.seed)
    sc = vlib.scratch()

    # --- the hook must be in the tree (never pretend) ---------------------------------------------
    hook = os.path.join(vlib.REPO, SSE, "verifhook_on.go")
    src = open(os.path.join(vlib.REPO, SSE, "server.go")).read()
    if not os.path.exists(hook) or 'verifEvent("gate"' not in src or 'verifEvent("exit"' not in src:
        raise vlib.InfraError("verif hook of C19 is not applied to %s (apply /verif/hooks/C19-sse-gate.diff)" % vlib.REPO)

    # --- long-lived clients on the real serving path, in the background while everything else runs ----
    binp = vlib.go_build("./c19", "c19", race=True)
    idle_s, ll_clients = (35, 3) if thorough else (13, 2)
    ll = subprocess.Popen([binp, "longlived", str(idle_s), str(ll_clients)], stdout=subprocess.PIPE, stderr=subprocess.PIPE)
    with _children_lock:
        _children.add(ll)

    def collect_longlived():
        try:
            out, errb = ll.communicate(timeout=idle_s + 120)
        except subprocess.TimeoutExpired:
            ll.kill()
            raise vlib.InfraError("long-lived client run did not finish")
        finally:
            with _children_lock:
                _children.discard(ll)
        err = errb.decode(errors="replace")
        summ = None
        for line in out.decode(errors="replace").splitlines():
            if not line.startswith("{"):
                continue
            r = json.loads(line)
            if r.get("kind") == "fail":
                ck.violation(r["sig"], "long-lived client: " + r["what"], r["case"])
            elif r.get("kind") == "summary":
                summ = r
        if "HARNESS-ERROR" in err or (summ is None and "panic:" not in err):
            raise vlib.InfraError("c19 longlived: rc=%s %s" % (ll.returncode, err[-1500:]))
        if summ is None:
            msg = [l for l in err.splitlines() if l.startswith("panic:")]
            ck.violation(ROOT if "send on closed channel" in err else "Crash." + (msg[0] if msg else "?")[:60],
                         "long-lived client: the process died: " + (msg[0] if msg else ""), {"served_by": "StartProxy"})
            return
        if "WARNING: DATA RACE" in err:
            ck.violation("DataRace", "the race detector reported a data race while long-lived clients were connected", {"report": err[:1500]})
        if not ck._nviol and (summ["pings"] < ll_clients * (idle_s // 5) or summ["received"] != ll_clients):
            raise vlib.InfraError("long-lived client run too thin: %r" % summ)
        ck.set("long_lived_clients", {"clients": summ["clients"], "connected_idle_s": summ["idle_s"], "pings_read": summ["pings"],
                                      "received_broadcast": summ["received"], "served_by": "(*generatecmd.Generate).StartProxy"})

    # --- MC ----------------------------------------------------------------------------------------
    base = open(os.path.join(vlib.SPEC, "Sse_mc.cfg")).read()
    mc = vlib.tlc("Sse", "s.cfg", files={"s.cfg": no_props(base)}, workers=8, timeout=600)
    if not mc.ok:
        raise vlib.InfraError("repaired design violates %s in the model" % mc.violated)
    ck.add_tlc(mc, "Sse_mc safety: done design, 2 clients x 2 broadcasts, 1 ping, c1 slow")
    live = vlib.tlc("Sse", "l.cfg", files={"l.cfg": base if thorough else cfg_text("Sse_mc.cfg", MaxPings="0")},
                    workers=8, timeout=900)
    if not live.ok:
        raise vlib.InfraError("repaired design violates liveness %s in the model" % live.violated)
    ck.add_tlc(live, "Sse_mc liveness (Delivered, SendReturns, NoLeakLive), MaxPings=%d" % (1 if thorough else 0))
    if thorough:
        big = vlib.tlc("Sse", "b.cfg", files={"b.cfg": no_props(cfg_text("Sse_mc.cfg", Clients='{"c1", "c2", "c3"}'))},
                       workers=16, timeout=1500, xmx="8g")
        if not big.ok:
            raise vlib.InfraError("repaired design violates %s with 3 clients" % big.violated)
        ck.add_tlc(big, "Sse_mc safety: 3 clients x 2 broadcasts")
    negs = {}
    neglist = (("Sse_close.cfg", "NoPanic"), ("Sse_noclose.cfg", "NoLeak"), ("Sse_locked.cfg", "BroadcasterNeverBlocks"),
               ("Sse_serial.cfg", "OthersUnaffected"), ("Sse_serial_live.cfg", "DeliveredDespiteStalledClient"),
               ("Sse_timeoutdrop.cfg", "DeliveredAtQuiescence"), ("Sse_timeoutdrop_live.cfg", "Delivered"),
               ("Sse_servercut.cfg", "LiveClientStaysRegistered"))
    negres, negerr = {}, []

    def negrun(cfg):
        try:
            negres[cfg] = vlib.tlc("Sse", cfg, workers=1, timeout=300)
        except Exception as e:  # noqa
            negerr.append(e)
    ths = [threading.Thread(target=negrun, args=(cfg,)) for cfg, _ in neglist]   # independent small runs, side by side
    for t in ths:
        t.start()
    for t in ths:
        t.join()
    if negerr:
        raise negerr[0] if isinstance(negerr[0], vlib.InfraError) else vlib.InfraError(repr(negerr[0]))
    for cfg, inv in neglist:
        r = negres[cfg]
        if r.violated != inv and not (inv in ("Delivered", "DeliveredDespiteStalledClient") and r.violated == "TemporalProperty"):
            raise vlib.InfraError("negative config %s was not rejected with %s (got %s)" % (cfg, inv, r.violated))
        negs[cfg] = inv
        if cfg == "Sse_close.cfg":
            cex = [st[1].get("lbl", "") for st in vlib.counterexample_states(r.out)]
            ck.set("tlc_counterexample_as_coded", cex)
    ck.set("negative_configs_rejected", negs)

    # --- which design is the tree? decided by replaying TLC's panic behaviour on the real code ------
    gen_close = vlib.tlc("Sse", "g.cfg", files={"g.cfg": cfg_text("Sse_gen.cfg", Design='"close"')}, workers=1, timeout=900)
    edges_close = gen_close.tagged("EDGE")
    if not gen_close.ok or len(edges_close) != gen_close.generated - 1:
        raise vlib.InfraError("edge emission incomplete (close): %d edges, %d generated" % (len(edges_close), gen_close.generated))
    probe = shortest_panic(edges_close)
    out, _ = replay_parallel(binp, [probe], 1, sc, 4)
    pr = out[0][1]
    if pr["outcome"] == "died" and "send on closed channel" in pr.get("msg", ""):
        design = "close"
    elif pr["outcome"] in ("drift", "fail", "ok"):
        design = "done"
    else:
        raise vlib.InfraError("probe schedule ended unexpectedly: %r" % (pr,))
    ck.set("design_of_tree", design)
    ck.set("probe_schedule", short(probe["steps"]))
    vlib.log("tree implements design", design, "(probe:", pr["outcome"], pr.get("msg", pr.get("what", "")), ")")

    if design == "close":
        gen, edges = gen_close, edges_close
    else:
        gen = vlib.tlc("Sse", "g.cfg", files={"g.cfg": cfg_text("Sse_gen.cfg", Design='"done"')}, workers=1, timeout=900)
        edges = gen.tagged("EDGE")
        if not gen.ok or len(edges) != gen.generated - 1:
            raise vlib.InfraError("edge emission incomplete: %d edges, %d generated" % (len(edges), gen.generated))
    ck.add_tlc(gen, "Sse_gen (edge emission, design=%s)" % design)

    # --- GEN: cover every edge with complete behaviours, replay -----------------------------------
    scheds, nedges, nstates = build_schedules(edges, rng)
    panicking = [s for s in scheds if s["final"]["panicked"]]
    calm = [s for s in scheds if not s["final"]["panicked"]]
    if thorough:
        chosen = scheds
    else:
        # each panicking schedule costs a process (~0.3 s): quick replays a seeded sample of them
        rng.shuffle(panicking)
        chosen = calm + panicking[:64]
    covered = set()
    for s in chosen:
        covered.update(s["edges"])
    vlib.log("replaying %d of %d schedules (%d edges of %d)" % (len(chosen), len(scheds), len(covered), nedges))
    # a case in which the real code does not take a step the spec says is enabled costs a timeout: after a dozen of
    # them (or the wall budget) nothing more is started; the verdict is then exit 1 (violations) or exit 2 (only drift)
    budget = Budget(12, 1500 if thorough else 240)
    out, restarts = replay_parallel(binp, chosen, 12 if thorough else 8, sc, 20 if thorough else 10, budget)
    counts = collections.Counter()
    for s, r in out:
        if s is None:
            ck.violation("DataRace", "the race detector reported a data race during schedule replay", {"report": r["msg"]})
            continue
        judge(ck, design, s, r, counts)
    nrep = sum(1 for s, _ in out if s is not None)
    if nrep != len(chosen) and not counts["fail"]:
        raise vlib.InfraError("replayed %d of %d schedules (%d cases of model drift, budget %s)" % (
            nrep, len(chosen), counts["drift"], "exhausted" if budget.exhausted() else "left"))
    # binding self-test: a schedule whose predicted outcome is corrupted must be reported by the harness
    # (only meaningful while the tree behaves: with violations on the table the verdict is exit 1 anyway)
    if not ck._nviol:
        victim = next((x for x in calm if any(len(g) < 2 for g in x["final"]["got"].values())), None)
        if victim is None:
            raise vlib.InfraError("no schedule suitable for the binding self-test")
        bad = json.loads(json.dumps(victim))
        cname = next(c for c, g in bad["final"]["got"].items() if len(g) < 2)
        bad["final"]["got"][cname] = [1, 2]
        st, _ = replay_parallel(binp, [bad], 1, sc, 10)
        if st[0][1].get("outcome") != "fail" or st[0][1].get("sig") != "Deliver.NotReceived":
            raise vlib.InfraError("binding self-test: corrupted prediction (client %s got [1,2]) was not reported: %r" % (cname, st[0][1]))
        ck.set("binding_selftest_schedule", "corrupted prediction reported: " + st[0][1]["what"])
    # --- long-stall family: the same behaviours with one stalled write stretched in REAL time -----------
    # (a delivery that gives up after a while -- design "timeoutdrop" -- only shows when the handler is busy that long)
    stall_ms = 2700
    cand = [(x, stall_point(x)) for x in calm]
    cand = [(x, j) for x, j in cand if j is not None]
    rng.shuffle(cand)
    # (the stall must stay well below the handler's 5 s ping period, which runs from its first ping: a later tick
    #  is outside the replay model)
    nstall = 36 if thorough else 8
    picked = [dict(x, stall_at=j, stall_ms=stall_ms) for x, j in cand[:nstall]]
    if len(picked) < 4:
        raise vlib.InfraError("only %d schedules with a delivery pending across a write: long-stall family too thin" % len(picked))
    if not ck._nviol:
        so, _ = replay_parallel(binp, picked, 12 if thorough else 8, sc, 20 if thorough else 10)
        scounts = collections.Counter()
        for x, r in so:
            if x is None:
                ck.violation("DataRace", "the race detector reported a data race during the long-stall replay", {"report": r["msg"]})
                continue
            r = dict(r)
            if r.get("outcome") == "fail":
                r["what"] = "(write stalled for %d ms of real time before step %d) %s" % (x["stall_ms"], x["stall_at"], r.get("what", ""))
            judge(ck, design, x, r, scounts)
        nso = sum(1 for x, _ in so if x is not None)
        if nso != len(picked) and not scounts["fail"]:
            raise vlib.InfraError("long-stall family: replayed %d of %d" % (nso, len(picked)))
        ck.set("long_stall_schedules", len(picked))
        ck.set("long_stall_ms", sorted({x["stall_ms"] for x in picked}))
        ck.set("long_stall_outcomes", dict(scounts))
        counts.update({"drift": scounts["drift"]})
    acts = collections.Counter(l["a"] for s in chosen for l in s["steps"])
    need = {"reg", "wdone", "wfail", "cancel", "exitctx", "unreg", "bspawn", "run", "deliver"} | ({"abandon"} if design == "done" else set())
    if not need <= set(acts):
        raise vlib.InfraError("replayed schedules never take actions %s" % sorted(need - set(acts)))
    for s in chosen[:2]:
        ck.sample({"schedule": short(s["steps"]), "spec_final_got": s["final"]["got"], "spec_panics": s["final"]["panicked"]})
    ck.set("schedules_total", len(scheds))
    ck.set("schedules_replayed", nrep)
    ck.set("edges_total", nedges)
    ck.set("edges_replayed", len(covered))
    ck.set("replay_steps", sum(len(s["steps"]) for s in chosen))
    ck.set("replay_outcomes", dict(counts))
    ck.set("subject_processes", restarts)
    ck.set("model_drift_cases", counts["drift"])
    if ck._nviol:
        collect_longlived()
        ck.notes.append("violations found by schedule replay: stress / trace validation / HTTP churn not run")
        ck.set("traces_validated_against_impl", nrep)
        ck.finish()

    # --- VAL: seeded stress, every step logged, validated by TraceSse ---------------------------------
    episodes = (6000 if design == "done" else 1500) if thorough else 250   # every death of a "close" tree costs a process
    tpath = os.path.join(sc, "stress-trace.ndjson")
    res, fails, summary, restarts2 = run_subject(
        binp, lambda i: ["stress", str(ck.seed), str(i), str(episodes), tpath], 0, episodes)
    died_eps = {i for i, r in res.items() if isinstance(i, int) and r["outcome"] == "died"}
    aborted = {i for i, r in res.items() if isinstance(i, int) and r["outcome"] == "fail"}
    for f in fails:
        ck.violation(f["sig"], "stress: " + f["what"], f["case"])
    if "race" in res:
        ck.violation("DataRace", "the race detector reported a data race during stress", {"report": res["race"]["msg"]})
    for i in sorted(died_eps):
        r = res[i]
        if "send on closed channel" not in r.get("msg", ""):
            ck.violation("Crash." + r.get("msg", "?")[:60], "stress: the process died in episode %d" % i,
                         {"episode": i, "seed": ck.seed, "msg": r.get("msg")})
    raw = []
    if os.path.exists(tpath):
        with open(tpath) as fh:
            for line in fh:
                line = line.strip()
                if line:
                    try:
                        raw.append(json.loads(line))
                    except ValueError:
                        pass  # a line cut short by the death of the process
    flat, kinds, neps = prepare_trace(raw, died_eps, aborted)
    if neps < episodes - len(aborted) or kinds["register"] < episodes or kinds["bspawn"] < neps // 2 or kinds["run"] < neps // 2:
        raise vlib.InfraError("stress trace too thin: %d episodes, events %s" % (neps, dict(kinds)))
    tv = vlib.tlc("TraceSse", "t.cfg", files={"t.cfg": cfg_text("Sse_trace.cfg", Design='"%s"' % design),
                                             "trace.ndjson": "".join(json.dumps(l) + "\n" for l in flat)},
                  workers=1, timeout=1500)
    verdicts = tv.tagged("VERDICT")
    if not verdicts or verdicts[-1]["consumed"] != len(flat):
        raise vlib.InfraError("trace validation did not consume the whole log: %s" % (tv.out[-1500:],))
    ck.add_tlc(tv, "TraceSse (%d log lines, %d episodes)" % (len(flat), neps))
    v = verdicts[-1]
    explained = {p[0]: p[1] for p in v["panics"]}
    if not any(f[0] == SELFTEST_EP for f in v["failed"]):
        raise vlib.InfraError("binding self-test: the corrupted episode (register line removed) was accepted by TraceSse")
    v["failed"] = [f for f in v["failed"] if f[0] != SELFTEST_EP]
    ck.set("binding_selftest_trace", "episode with a removed register line rejected")
    neps -= 1
    for ep_id, line, ev, c, b in v["failed"]:
        ep_lines = [l for l in flat if l["ep"] == ep_id]
        ck.violation("Trace.Rejected." + ev, "stress episode %d: the recorded execution is not a behaviour of the spec at event %s(%s,%s)" % (ep_id, ev, c, b),
                     {"episode": ep_id, "seed": ck.seed, "rejected_line": line, "events": [(l["e"], l["c"], l["b"]) for l in ep_lines][:80]})
    for i in sorted(died_eps):
        if "send on closed channel" in res[i].get("msg", "") and i in explained:
            counts["stress_panics_explained"] += 1
            ck.violation(ROOT, "stress: the process died with 'panic: send on closed channel' in episode %d; the spec (design close) reaches Panic through %s on the recorded trace" % (i, explained[i]),
                         {"episode": i, "seed": ck.seed, "spec_branch": explained[i], "reproduce": "c19 stress %d %d %d trace.ndjson" % (ck.seed, i, i + 1)})
    ck.set("stress_episodes", episodes)
    ck.set("stress_episodes_validated", neps - len(v["failed"]))
    ck.set("stress_events", dict(kinds))
    ck.set("stress_process_deaths", len(died_eps))

    # --- churn over a real HTTP server --------------------------------------------------------------
    rounds = 400 if thorough else 60
    nres, nfails, nsum, _ = run_subject(binp, lambda i: ["net", str(ck.seed + i), str(rounds)], 0, 1)
    for f in nfails:
        ck.violation(f["sig"], "net: " + f["what"], f["case"])
    died_net = [r for k, r in nres.items() if isinstance(k, int) and r["outcome"] == "died"]
    for r in died_net:
        if design == "close" and "send on closed channel" in r.get("msg", "") and r.get("stack_in_send"):
            ck.violation(ROOT, "net: the process died with 'panic: send on closed channel' in sse.Handler.Send's delivery goroutine while real HTTP clients were disconnecting",
                         {"round": r.get("i"), "seed": ck.seed, "msg": r.get("msg")})
        else:
            ck.violation("Crash." + r.get("msg", "?")[:60], "net: the process died", {"msg": r.get("msg")})
    if "race" in nres:
        ck.violation("DataRace", "the race detector reported a data race under real HTTP churn", {"report": nres["race"]["msg"]})
    if nsum is not None:
        ck.set("net_rounds", nsum["rounds"])
        ck.set("net_clients_registered", nsum["registered"])
        ck.set("net_deliveries", nsum["deliveries"])
        ck.set("net_stayers_received", nsum["stayers_received"])
        if nsum["registered"] < rounds or nsum["deliveries"] < rounds:
            raise vlib.InfraError("net churn too thin: %r" % nsum)
    elif not died_net:
        raise vlib.InfraError("net churn produced no summary")

    collect_longlived()
    ck.set("traces_validated_against_impl", len(chosen) + neps)
    ck.set("exhaustive", len(chosen) == len(scheds))
    ck.set("bounds", {"clients": 2, "broadcasts": 2, "mc_clients_thorough": 3, "stress_clients": "2..4", "stress_broadcasts": "1..3"})
    ck.set("rule", "every transition of the race-free replay model of the tree's design (2 clients x 2 broadcasts, cancel/stall/fail at every point) "
                   "lies on a replayed complete behaviour" + ("" if len(chosen) == len(scheds) else " (this run: all behaviours that end without a panic + a seeded sample of 64 panicking ones)"))
    ck.assume("schedules in which a handler's select has two ready cases at once (Go picks at random) are not driven deterministically; they are covered by MC and by the validated stress traces")
    ck.assume("timer ticks after the time-0 ping (every 5 s) do not occur within a replayed schedule; MC explores them (MaxPings)")
    ck.assume("slow readers in real time: %d replayed behaviours keep one write stalled for %s ms while a delivery to that client is pending "
              "and require the event afterwards; a delivery that gives up only after a longer wait than that cannot be observed" % (len(picked), "/".join(str(x) for x in sorted({x["stall_ms"] for x in picked}))))
    ck.assume("LiveClientStaysRegistered is bound on the real serving path ((*Generate).StartProxy, real TCP): %d clients stay connected "
              "and idle for %d s before a broadcast; a server-side cut that happens later than that (e.g. a 60 s deadline) is not observed" % (ll_clients, idle_s))
    ck.assume("a stalled browser is a Write that does not return; a departed browser is a cancelled request context plus failing writes")
    ck.finish()


vlib.main(main)
