------------------------------- MODULE FmtCmd -------------------------------
(* `templ fmt <dir>` (cmd/templ/fmtcmd: Run, Formatter.Run, format; cmd/templ/processor: Process) as a state
   machine over the files of a directory.  C09 closes with "format-on-save and `templ fmt -fail` in CI agree after a
   single run": this module states what a run does to the directory and what it reports, for every combination of
   file kinds and flags, and TLC checks the clause on it.  Bound to the code by replaying EVERY transition of the
   explored graph through the real fmtcmd.Run on a real directory (harness/fmtcmd), with 1 and with 4 workers.

   File kinds (what the file holds when the run starts):
     "fixed"    a .templ file that is a fixed point of the formatter
     "loose"    a valid .templ file that formatting changes
     "invalid"  a .templ file that does not parse
     "other"    not a .templ file (its content is a loose template: must be left alone)
     "skipped"  a loose .templ file below a directory the walker skips (node_modules, vendor, .x, _x)

   One action, Run(fail, tostdout).  As coded:
     * every .templ file outside skipped directories is read and parsed; invalid ones are reported, not touched;
     * a valid file is rewritten (atomically: a new file replaces it) iff formatting changes it and -stdout is off;
       a fixed file is never rewritten (its identity and modification time stay);
     * with -stdout every valid file is printed, formatted, and nothing is written;
     * -fail does NOT make the run read-only: loose files are still rewritten, and the run fails when any file
       changed -- that failure takes precedence over parse errors;
     * only the first path argument is used (Run takes args.Files[0]).                                          *)
EXTENDS Naturals, FiniteSets

CONSTANTS
    \* @type: Set(Str);
    Files,       \* names of the files in the directory
    \* @type: Int;
    MaxRuns,     \* runs per behaviour
    \* @type: Bool;
    RunRewrites  \* TRUE: as coded.  FALSE: a defective design in which an in-place run reports but does not write
                       \* (negative configuration: must be rejected by AfterOneRunFailAgrees)

Kinds == {"fixed", "loose", "invalid", "other", "skipped"}

VARIABLES
    \* @type: Str -> {kind: Str, rewrites: Int};
    disk,      \* [Files -> [kind, rewrites]]: what each file holds, how often it has been replaced
    \* @type: Int;
    runs,      \* runs so far
    \* @type: Bool;
    inplace,   \* some run so far was an in-place run (no -stdout)
    \* @type: {ev: Str, fail: Bool, tostdout: Bool, pre: Str -> {kind: Str, rewrites: Int}, post: Str -> {kind: Str, rewrites: Int}, exit: Str, changed: Set(Str), broken: Set(Str), printed: Set(Str)};
    last       \* what the last run did and reported (ev = "none" before the first run)
vars == <<disk, runs, inplace, last>>

Init == /\ disk \in [Files -> [kind : Kinds, rewrites : {0}]]
        /\ runs = 0
        /\ inplace = FALSE
        /\ last = [ev |-> "none", fail |-> FALSE, tostdout |-> FALSE, pre |-> disk, post |-> disk,
                   exit |-> "none", changed |-> {}, broken |-> {}, printed |-> {}]

Seen     == {f \in Files : disk[f].kind \in {"fixed", "loose", "invalid"}}   \* what the walker hands to the workers
Changed  == {f \in Seen : disk[f].kind = "loose"}
Broken   == {f \in Seen : disk[f].kind = "invalid"}
Printed  == {f \in Seen : disk[f].kind \in {"fixed", "loose"}}

Exit(fail) == IF fail /\ Changed # {} THEN "notformatted"
              ELSE IF Broken # {} THEN "failed"
              ELSE "ok"

Run(fail, tostdout) ==
    /\ runs < MaxRuns
    /\ runs' = runs + 1
    /\ inplace' = (inplace \/ ~tostdout)
    /\ disk' = IF tostdout \/ ~RunRewrites THEN disk
               ELSE [f \in Files |-> IF f \in Changed THEN [kind |-> "fixed", rewrites |-> disk[f].rewrites + 1]
                                     ELSE disk[f]]
    /\ last' = [ev |-> "run", fail |-> fail, tostdout |-> tostdout, pre |-> disk, post |-> disk',
                exit |-> Exit(fail), changed |-> Changed, broken |-> Broken,
                printed |-> IF tostdout THEN Printed ELSE {}]

Next == \E fail \in BOOLEAN, tostdout \in BOOLEAN : Run(fail, tostdout)
Spec == Init /\ [][Next]_vars

-----------------------------------------------------------------------------
TypeOK == /\ disk \in [Files -> [kind : Kinds, rewrites : 0..MaxRuns]]
          /\ runs \in 0..MaxRuns

\* C09's closing clause: once the directory has been formatted in place, `templ fmt -fail` finds nothing to change:
\* it never reports "not formatted" (it may still report files that do not parse)
AfterOneRunFailAgrees == inplace => Exit(TRUE) # "notformatted"

\* a file is replaced at most once: the second run finds a fixed point
RewrittenAtMostOnce == \A f \in Files : disk[f].rewrites <= 1

\* only loose files that the walker sees are ever replaced; everything else keeps its identity
OnlyLooseFilesAreReplaced ==
    [][\A f \in Files : disk[f].kind # "loose" => disk'[f] = disk[f]]_vars

\* -stdout never writes
StdoutRunsWriteNothing == [][(last'.ev = "run" /\ last'.tostdout) => disk' = disk]_vars

\* the report is consistent with what happened: "ok" means nothing was broken, and with -fail nothing changed
OkMeansClean == (last.ev = "run" /\ last.exit = "ok") => (last.broken = {} /\ (last.fail => last.changed = {}))

-----------------------------------------------------------------------------
(* Unbounded argument (Apalache, any number of files and runs): IndInv holds initially and is preserved by every
   step, and it implies the three state invariants above.
     apalache-mc check --init=Init    --inv=IndInv --length=0 FmtCmd.tla    (initial states satisfy IndInv)
     apalache-mc check --init=IndInit --inv=IndInv --length=1 FmtCmd.tla    (IndInv is inductive)
     apalache-mc check --init=IndInit --inv=IndImplies --length=0 FmtCmd.tla                                   *)
IndInv == /\ disk \in [Files -> [kind : Kinds, rewrites : {0, 1}]]
          /\ runs \in Nat
          /\ inplace \in BOOLEAN
          /\ \A f \in Files : disk[f].rewrites = 1 => disk[f].kind = "fixed"    \* a replaced file is a fixed point
          /\ inplace => \A f \in Files : disk[f].kind # "loose"                  \* an in-place run leaves nothing loose
IndInit == /\ IndInv
           /\ last = [ev |-> "none", fail |-> FALSE, tostdout |-> FALSE, pre |-> disk, post |-> disk,
                      exit |-> "none", changed |-> {}, broken |-> {}, printed |-> {}]
IndImplies == AfterOneRunFailAgrees /\ RewrittenAtMostOnce
\* the step relation without the bound on the number of runs
NextUnbounded == \E fail \in BOOLEAN, tostdout \in BOOLEAN :
    /\ runs' = runs + 1
    /\ inplace' = (inplace \/ ~tostdout)
    /\ disk' = IF tostdout \/ ~RunRewrites THEN disk
               ELSE [f \in Files |-> IF f \in Changed THEN [kind |-> "fixed", rewrites |-> disk[f].rewrites + 1]
                                     ELSE disk[f]]
    /\ last' = [ev |-> "run", fail |-> fail, tostdout |-> tostdout, pre |-> disk, post |-> disk',
                exit |-> Exit(fail), changed |-> Changed, broken |-> Broken,
                printed |-> IF tostdout THEN Printed ELSE {}]

View == <<disk, runs, inplace>>     \* `last` only reports; it is not part of the state that matters
=============================================================================
