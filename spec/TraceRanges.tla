----------------------------- MODULE TraceRanges -----------------------------
(* C06 binding (VAL) for positions: records written by harness/c06 from the REAL parser.

     {k:"f", id, n, ll}            an input: byte length and the byte length of every line (without its
                                   newline), computed by the harness by scanning the text
     {k:"r", f, r:{t, h, a, b, v, s}}  a position record of input f:
          t = "expr"   parser.Expression: a/b = Range.From/To as <<index, line, col>>, v = Value,
                       s = the source bytes at [From.Index, From.Index+len(Value))
          t = "name"   NameRange of an element / attribute: v = Name, s = source bytes [From.Index, To.Index)
          t = "range"  any other parser.Range of the tree
          t = "err"    the position carried by a parse.ParseError (a only)

   The position algebra of SourceMapPos.tla / SourceMapOps.tla in closed form: the start of line k is
   the sum of the lengths of the lines before it plus their newlines; (index, line, col) is a
   position of the text iff line exists, col <= length of the line and index = LineStart(line) + col.
   Property clauses (C06): every recorded position and every error position lies within
   [0, len(input)] of the caller's input (PositionInInput) -- in particular positions taken at the
   end of the input, with or without a final newline / CR --, line/col agree with the byte index
   (PositionConsistent), ranges are ordered, the text at From begins with Value (also for the last
   node of the file), name ranges cover exactly the name.                                        *)
EXTENDS Integers, Sequences, TLC, Json

VARIABLES i, fid, n, starts, lens, nbad
vars == <<i, fid, n, starts, lens, nbad>>

Trace == ndJsonDeserialize("trace.ndjson")
N == Len(Trace)

\* LineStarts(ll)[k] = byte offset of the start of line k (1-based k)
RECURSIVE StartsFrom(_, _, _)
StartsFrom(ll, k, off) == IF k > Len(ll) THEN <<>> ELSE <<off>> \o StartsFrom(ll, k + 1, off + ll[k] + 1)
LineStarts(ll) == StartsFrom(ll, 1, 0)

\* p == <<index, line, col>> (0-based line).  n and the line table are those of the CALLER's input
\* (the string handed to parser.ParseString), not of any copy the parser may work on.
InInput(p) == 0 <= p[1] /\ p[1] <= n
PosOK(p) == /\ 0 <= p[2] /\ p[2] < Len(starts)
            /\ 0 <= p[3] /\ p[3] <= lens[p[2] + 1]
            /\ p[1] = starts[p[2] + 1] + p[3]
PosViolation(p) == IF ~InInput(p) THEN {"PositionInInput"} ELSE IF ~PosOK(p) THEN {"PositionConsistent"} ELSE {}

Violations(r) ==
    IF PosViolation(r.a) # {} THEN PosViolation(r.a)
    ELSE IF r.t = "err" THEN {}
    ELSE IF PosViolation(r.b) # {} THEN PosViolation(r.b)
    ELSE IF r.a[1] > r.b[1] THEN {"RangeOrdered"}
    ELSE IF r.t = "expr" /\ r.s # r.v THEN {"TextAtFromIsValue"}
    ELSE IF r.t = "name" /\ r.s # r.v THEN {"NameRangeCoversName"}
    ELSE {}

Init == i = 1 /\ fid = -1 /\ n = 0 /\ starts = <<>> /\ lens = <<>> /\ nbad = 0

File(e) == /\ e.k = "f"
           /\ fid' = e.id /\ n' = e.n /\ lens' = e.ll /\ starts' = LineStarts(e.ll)
           /\ UNCHANGED nbad

Record(e) == /\ e.k = "r"
             /\ e.f = fid                                  \* records follow their input
             /\ LET v == Violations(e.r) IN
                /\ IF v # {} THEN PrintT(<<"BAD", ToJson([line |-> i, f |-> fid, sigs |-> v, t |-> e.r.t, h |-> e.r.h])>>) ELSE TRUE
                /\ nbad' = nbad + (IF v # {} THEN 1 ELSE 0)
             /\ UNCHANGED <<fid, n, starts, lens>>

Next == /\ i <= N
        /\ (File(Trace[i]) \/ Record(Trace[i]))
        /\ i' = i + 1
        /\ TLCSet(7, i)

Spec == Init /\ [][Next]_vars
AllConsumed == TLCGet(7) = N
Summary == i = N + 1 => PrintT(<<"DONE", ToJson([events |-> N, bad |-> nbad])>>)
=============================================================================
