// c06 explores the totality of templ's parser and the faithfulness of the positions it records.
//
//	c06 run <repo> <outdir> <seed> <tier>     explore: corpus, truncations, structure-aware mutations
//	c06 single <file> <timeout-seconds>       parse one input; on timeout dump the goroutines (exit 3)
//
// Every input is parsed by the exported entry point parser.ParseString on the CALLER's string; every
// position the parser reports (errors, ranges, loop-top cursors) is judged against that string, in
// a worker with recover and a watchdog.  Input families: corpus, byte-wise truncations, seeded
// token mutations, "ends" (inputs cut exactly at the end of a construct, with no final newline / a
// final newline / a final CR / CRLF), "nest" (one construct kind nested d levels deep).  Panics are reported as violations with the recovered
// stack.  A watchdog timeout is only reported as a suspect; checks/C06.py confirms it with `single`.
// With the verif hook of hooks/C06-parser-loops.diff applied to the repository (build tag c06hook)
// every loop top of the parser is observed: a loop top that does not advance the cursor aborts the
// parse at once (non-termination), and sampled event sequences are written for TraceParseCursor.tla.
// Positions of parse errors and, for inputs that parse + generate + gofmt, every Expression /
// NameRange / Range of the tree are written for TraceRanges.tla (all of them are also checked
// here; the check script requires TLC and the harness to agree).
package main

import (
	"bufio"
	"encoding/json"
	"errors"
	"fmt"
	"go/format"
	"hash/fnv"
	"math/rand"
	"os"
	"path/filepath"
	"reflect"
	"regexp"
	"runtime"
	"sort"
	"strconv"
	"strings"
	"sync"
	"sync/atomic"
	"time"

	"github.com/a-h/parse"
	"github.com/a-h/templ/generator"
	"github.com/a-h/templ/parser/v2"

	"verifharness/vhlib"
)

type input struct {
	kind   string // corpus | trunc | mut:<op>
	origin string
	data   string
}

type outcome struct {
	in       input
	tf       parser.TemplateFile
	err      error
	panicked any
	stack    string
	timeout  bool
	noprog   *noProgress
	events   []topEvent
	oob      *topEvent
}

// ---------------------------------------------------------------------------------------------
// corpus

var txtarSep = regexp.MustCompile(`(?m)^-- .* --\r?\n`)
var fuzzStr = regexp.MustCompile(`(?m)^string\((.*)\)$`)

func collectCorpus(repo string) []input {
	var out []input
	add := func(origin, data string) {
		out = append(out, input{kind: "corpus", origin: origin, data: data})
	}
	filepath.Walk(repo, func(p string, info os.FileInfo, err error) error {
		if err != nil {
			return nil
		}
		if info.IsDir() {
			if info.Name() == ".git" || info.Name() == "node_modules" {
				return filepath.SkipDir
			}
			return nil
		}
		rel, _ := filepath.Rel(repo, p)
		dir := filepath.Dir(rel)
		switch {
		case strings.HasSuffix(p, ".templ"):
			b, _ := os.ReadFile(p)
			add(rel, string(b))
		case (strings.HasSuffix(p, ".txt") || strings.HasSuffix(p, ".txtar")) && strings.Contains(dir, "testdata") && info.Size() < 1<<20:
			b, _ := os.ReadFile(p)
			parts := txtarSep.Split(string(b), -1)
			for i, part := range parts {
				if strings.TrimSpace(part) != "" {
					add(fmt.Sprintf("%s#%d", rel, i), part)
				}
			}
		case strings.Contains(rel, "testdata/fuzz/") && strings.Contains(rel, "parser/v2"):
			b, _ := os.ReadFile(p)
			for i, m := range fuzzStr.FindAllStringSubmatch(string(b), -1) {
				if s, err := strconv.Unquote(m[1]); err == nil {
					add(fmt.Sprintf("%s#%d", rel, i), s)
				}
			}
		}
		return nil
	})
	sort.Slice(out, func(i, j int) bool { return out[i].origin < out[j].origin })
	return out
}

// ---------------------------------------------------------------------------------------------
// structure-aware mutations

var vocabulary = []string{
	"{", "}", "{{", "}}", "(", ")", "[", "]", "<", ">", "</", "/>", "\"", "'", "`", "if ", "else", "} else {", "else if ",
	"for ", "switch ", "case ", "default:", "templ ", "css ", "script ", "package ", "package main\n", "@", "{!", "...", "?=", "=", "={",
	"<!--", "-->", "--", "//", "/*", "*/", "<script>", "</script>", "<style>", "</style>", "\n", "\r\n", " ", "\t", "é", "世", "𝑥", "\\",
	":", ";", "{ children... }", "<div>", "</div>", "<br>", "</br>", "<input/>", "<!DOCTYPE html>", "\x00", "\xff", "\xc3", "�",
	"templ x() {\n", "templ (", "css x() {\n", "script x() {\n", "func(", "range ", ":=", "\"\"", "{ \"a\" }", "{{ a := 1 }}", "@x() {\n", "<a href={ ", " class={ ",
}

var tokenRe = regexp.MustCompile(`[A-Za-z_][A-Za-z0-9_]*|[0-9]+|\r\n|[ \t]+|\n|\{\{|\}\}|</|/>|<!--|-->|\.\.\.|\?=|//|/\*|\*/|:=|[\x80-\xff]+|.`)

func tokens(s string) []string { return tokenRe.FindAllString(s, -1) }

type mutator struct {
	name string
	fn   func(r *rand.Rand, toks []string) []string
}

func pick(r *rand.Rand, toks []string, pred func(string) bool) int {
	var idx []int
	for i, t := range toks {
		if pred(t) {
			idx = append(idx, i)
		}
	}
	if len(idx) == 0 {
		return -1
	}
	return idx[r.Intn(len(idx))]
}

func splice(toks []string, i, del int, ins ...string) []string {
	out := make([]string, 0, len(toks)+len(ins))
	out = append(out, toks[:i]...)
	out = append(out, ins...)
	out = append(out, toks[i+del:]...)
	return out
}

func isBracket(t string) bool {
	switch t {
	case "{", "}", "{{", "}}", "(", ")", "<", ">", "</", "/>", "[", "]":
		return true
	}
	return false
}
func isQuote(t string) bool { return t == "\"" || t == "'" || t == "`" }

var mutators = []mutator{
	{"delete", func(r *rand.Rand, t []string) []string { i := r.Intn(len(t)); return splice(t, i, 1) }},
	{"duplicate", func(r *rand.Rand, t []string) []string { i := r.Intn(len(t)); return splice(t, i, 0, t[i]) }},
	{"insert", func(r *rand.Rand, t []string) []string {
		return splice(t, r.Intn(len(t)+1), 0, vocabulary[r.Intn(len(vocabulary))])
	}},
	{"replace", func(r *rand.Rand, t []string) []string {
		return splice(t, r.Intn(len(t)), 1, vocabulary[r.Intn(len(vocabulary))])
	}},
	{"swap", func(r *rand.Rand, t []string) []string {
		if len(t) < 2 {
			return t
		}
		i := r.Intn(len(t) - 1)
		return splice(t, i, 2, t[i+1], t[i])
	}},
	{"unbalance-bracket", func(r *rand.Rand, t []string) []string {
		i := pick(r, t, isBracket)
		if i < 0 {
			return t
		}
		if r.Intn(2) == 0 {
			return splice(t, i, 1)
		}
		return splice(t, i, 0, t[i])
	}},
	{"unbalance-quote", func(r *rand.Rand, t []string) []string {
		i := pick(r, t, isQuote)
		if i < 0 {
			return splice(t, r.Intn(len(t)+1), 0, "\"")
		}
		if r.Intn(2) == 0 {
			return splice(t, i, 1)
		}
		return splice(t, i, 0, t[i])
	}},
	{"unbalance-tag", func(r *rand.Rand, t []string) []string {
		i := pick(r, t, func(s string) bool { return s == "</" || s == "<" || s == "/>" || s == ">" })
		if i < 0 {
			return t
		}
		switch r.Intn(3) {
		case 0:
			return splice(t, i, 1)
		case 1:
			if i+1 < len(t) {
				return splice(t, i+1, 1, "zz") // rename the tag
			}
		}
		return splice(t, i, 1, []string{"<", "</", ">", "/>"}[r.Intn(4)])
	}},
	{"multibyte-before-expression", func(r *rand.Rand, t []string) []string {
		i := pick(r, t, func(s string) bool { return s == "{" || s == "{{" || s == "@" || s == "if" || s == "for" })
		if i < 0 {
			return t
		}
		mb := []string{"é", "世界", "𝑥", "é世𝑥", " "}[r.Intn(5)]
		if r.Intn(2) == 0 && i+1 < len(t) {
			return splice(t, i+1, 0, mb) // inside, in front of the Go code
		}
		return splice(t, i, 0, mb)
	}},
	{"crlf-one", func(r *rand.Rand, t []string) []string {
		i := pick(r, t, func(s string) bool { return s == "\n" })
		if i < 0 {
			return t
		}
		return splice(t, i, 1, "\r\n")
	}},
	{"crlf-all", func(r *rand.Rand, t []string) []string {
		out := make([]string, len(t))
		for i, s := range t {
			if s == "\n" {
				s = "\r\n"
			}
			out[i] = s
		}
		return out
	}},
	{"case-flip", func(r *rand.Rand, t []string) []string {
		i := pick(r, t, func(s string) bool { return s != "" && (s[0] >= 'a' && s[0] <= 'z' || s[0] >= 'A' && s[0] <= 'Z') })
		if i < 0 {
			return t
		}
		if strings.ToUpper(t[i]) != t[i] {
			return splice(t, i, 1, strings.ToUpper(t[i]))
		}
		return splice(t, i, 1, strings.ToLower(t[i]))
	}},
	{"delete-span", func(r *rand.Rand, t []string) []string {
		i := r.Intn(len(t))
		n := 1 + r.Intn(8)
		if i+n > len(t) {
			n = len(t) - i
		}
		return splice(t, i, n)
	}},
	{"truncate-and-close", func(r *rand.Rand, t []string) []string {
		i := r.Intn(len(t) + 1)
		return append(append([]string{}, t[:i]...), []string{"}", "\n}", "</div>", "}}", " }\n}\n"}[r.Intn(5)])
	}},
}

func mutate(r *rand.Rand, data string) (string, string) {
	toks := tokens(data)
	if len(toks) == 0 {
		return vocabulary[r.Intn(len(vocabulary))], "insert"
	}
	n := 1
	if r.Intn(4) == 0 {
		n = 2 + r.Intn(2)
	}
	var names []string
	for k := 0; k < n && len(toks) > 0; k++ {
		m := mutators[r.Intn(len(mutators))]
		toks = m.fn(r, toks)
		names = append(names, m.name)
	}
	return strings.Join(toks, ""), strings.Join(names, "+")
}

// ---------------------------------------------------------------------------------------------
// line table, positions

type lineTable struct {
	n      int
	starts []int
}

func newLineTable(s string) *lineTable {
	lt := &lineTable{n: len(s), starts: []int{0}}
	for i := 0; i < len(s); i++ {
		if s[i] == '\n' {
			lt.starts = append(lt.starts, i+1)
		}
	}
	return lt
}

func (lt *lineTable) lineLens() []int {
	out := make([]int, len(lt.starts))
	for i := range lt.starts {
		end := lt.n
		if i+1 < len(lt.starts) {
			end = lt.starts[i+1] - 1
		}
		out[i] = end - lt.starts[i]
	}
	return out
}

// posOK: index in [0, n], and (line, col) is the byte position of index.
func (lt *lineTable) posOK(idx, line, col int) bool {
	if idx < 0 || idx > lt.n || line < 0 || line >= len(lt.starts) || col < 0 {
		return false
	}
	end := lt.n
	if line+1 < len(lt.starts) {
		end = lt.starts[line+1] - 1
	}
	return lt.starts[line]+col == idx && idx <= end
}

type rangeRec struct {
	T    string `json:"t"` // expr | name | range | err
	H    string `json:"h"` // holder type / error type
	Path string `json:"path,omitempty"`
	A    []int  `json:"a"`
	B    []int  `json:"b,omitempty"`
	V    string `json:"v"`
	S    string `json:"s"`
	Flag int    `json:"flag"`
}

var (
	exprType  = reflect.TypeOf(parser.Expression{})
	rangeType = reflect.TypeOf(parser.Range{})
)

func posInts(p parser.Position) []int { return []int{int(p.Index), int(p.Line), int(p.Col)} }

func slice(src string, from, to int) string {
	if from < 0 {
		from = 0
	}
	if to > len(src) {
		to = len(src)
	}
	if from > to {
		return ""
	}
	return src[from:to]
}

// walkRanges collects every Expression, NameRange and Range of the tree.
func walkRanges(v reflect.Value, path string, src string, out *[]rangeRec) {
	switch v.Kind() {
	case reflect.Interface, reflect.Ptr:
		if !v.IsNil() {
			walkRanges(v.Elem(), path, src, out)
		}
	case reflect.Struct:
		t := v.Type()
		if t == exprType {
			return // handled by the holder
		}
		for i := 0; i < v.NumField(); i++ {
			f := t.Field(i)
			if !f.IsExported() {
				continue
			}
			fv := v.Field(i)
			switch {
			case f.Type == exprType:
				e := fv.Interface().(parser.Expression)
				*out = append(*out, rangeRec{T: "expr", H: t.Name(), Path: path + "." + f.Name, A: posInts(e.Range.From), B: posInts(e.Range.To),
					V: e.Value, S: slice(src, int(e.Range.From.Index), int(e.Range.From.Index)+len(e.Value))})
			case f.Type == rangeType && f.Name == "NameRange":
				r := fv.Interface().(parser.Range)
				name := v.FieldByName("Name").String()
				*out = append(*out, rangeRec{T: "name", H: t.Name(), Path: path + "." + f.Name, A: posInts(r.From), B: posInts(r.To),
					V: name, S: slice(src, int(r.From.Index), int(r.To.Index))})
			case f.Type == rangeType:
				r := fv.Interface().(parser.Range)
				*out = append(*out, rangeRec{T: "range", H: t.Name(), Path: path + "." + f.Name, A: posInts(r.From), B: posInts(r.To)})
			default:
				walkRanges(fv, path+"."+f.Name, src, out)
			}
		}
	case reflect.Slice, reflect.Array:
		for i := 0; i < v.Len(); i++ {
			walkRanges(v.Index(i), path+"["+strconv.Itoa(i)+"]", src, out)
		}
	}
}

// rangeViolation names the clause of the property a record breaks ("" = none).  lt is the line
// table of the CALLER's input.
func rangeViolation(lt *lineTable, r rangeRec) string {
	check := func(p []int) string {
		if p[0] < 0 || p[0] > lt.n {
			return "PositionInInput"
		}
		if !lt.posOK(p[0], p[1], p[2]) {
			return "PositionConsistent"
		}
		return ""
	}
	if v := check(r.A); v != "" {
		return v
	}
	if r.T == "err" {
		return ""
	}
	if v := check(r.B); v != "" {
		return v
	}
	if r.A[0] > r.B[0] {
		return "RangeOrdered"
	}
	if (r.T == "expr" || r.T == "name") && r.S != r.V {
		if r.T == "expr" {
			return "TextAtFromIsValue"
		}
		return "NameRangeCoversName"
	}
	return ""
}

// errorPosition extracts the templ position of a parser error, if it has one.
func errorPosition(err error) (parse.Position, string, bool) {
	switch e := err.(type) {
	case parse.ParseError:
		return e.Pos, "parse.ParseError", true
	case parser.UntilNotFoundError:
		return e.Pos, "parser.UntilNotFoundError", true
	}
	var pe parse.ParseError
	if errors.As(err, &pe) {
		return pe.Pos, "parse.ParseError(wrapped)", true
	}
	return parse.Position{}, fmt.Sprintf("%T", err), false
}

// ---------------------------------------------------------------------------------------------
// running one input

var parserFrame = regexp.MustCompile(`github\.com/a-h/templ/parser/v2(?:/goexpression)?\.([^\s(]+(?:\([^)]*\))?[^\s(]*)\(`)

// innermostParserFunc returns the first parser/v2 function of a stack trace.
func innermostParserFunc(stack string) string {
	for _, line := range strings.Split(stack, "\n") {
		if strings.Contains(line, "github.com/a-h/templ/parser/v2") && !strings.HasPrefix(line, "\t") {
			if i := strings.LastIndex(line, "("); i > 0 {
				line = line[:i]
			}
			return strings.TrimPrefix(strings.TrimSpace(line), "github.com/a-h/templ/parser/v2")
		}
	}
	return "?"
}

func runOne(in input, timeout time.Duration, record bool) outcome {
	ch := make(chan outcome, 1)
	go func() {
		o := outcome{in: in}
		rec := attach(len(in.data), record)
		defer func() {
			if p := recover(); p != nil {
				if np, ok := p.(*noProgress); ok {
					o.noprog = np
				} else {
					o.panicked = p
					buf := make([]byte, 1<<16)
					o.stack = string(buf[:runtime.Stack(buf, false)])
				}
			}
			o.events, o.oob = detach(rec)
			ch <- o
		}()
		// the exported entry point, on the caller's input: every position it reports is judged
		// against THIS string
		o.tf, o.err = parser.ParseString(in.data)
	}()
	var o outcome
	select {
	case o = <-ch:
	case <-time.After(timeout):
		o = outcome{in: in, timeout: true}
	}
	if (o.noprog != nil || o.oob != nil) && !record {
		return runOne(in, timeout, true) // deterministic: run again with the events recorded for TLC
	}
	return o
}

func quoteInput(s string) map[string]any {
	m := map[string]any{"len": len(s), "go_quoted": strconv.Quote(s)}
	return m
}

// ---------------------------------------------------------------------------------------------

type traceFile struct {
	mu    sync.Mutex
	f     *os.File
	w     *bufio.Writer
	lines int
}

func newTraceFile(path string) *traceFile {
	f, err := os.Create(path)
	if err != nil {
		vhlib.Fatal("%v", err)
	}
	return &traceFile{f: f, w: bufio.NewWriterSize(f, 1<<20)}
}

func (t *traceFile) write(recs ...any) {
	t.mu.Lock()
	for _, r := range recs {
		b, err := json.Marshal(r)
		if err != nil {
			vhlib.Fatal("%v", err)
		}
		t.w.Write(b)
		t.w.WriteByte('\n')
		t.lines++
	}
	t.mu.Unlock()
}

func (t *traceFile) close() { t.w.Flush(); t.f.Close() }

func hash(s string) uint64 { h := fnv.New64a(); h.Write([]byte(s)); return h.Sum64() }

func main() {
	if len(os.Args) >= 4 && os.Args[1] == "single" {
		single(os.Args[2], os.Args[3])
		return
	}
	if len(os.Args) < 6 || os.Args[1] != "run" {
		vhlib.Fatal("usage: c06 run <repo> <outdir> <seed> <quick|thorough>")
	}
	repo, outdir := os.Args[2], os.Args[3]
	seed, _ := strconv.ParseInt(os.Args[4], 10, 64)
	thorough := os.Args[5] == "thorough"

	corpus := collectCorpus(repo)
	if len(corpus) < 100 {
		vhlib.Fatal("corpus too small: %d inputs under %s", len(corpus), repo)
	}

	// budgets
	truncAllBelow := 2000   // quick: every truncation of inputs up to this size ...
	truncSample := 80       // ... and this many seeded truncation points of each larger input
	mutPerFile := 300       // mutations per corpus input
	rangeSampleEvery := 7   // every n-th accepted mutated input has its ranges validated by TLC as well
	errSampleEvery := 9     // every n-th error position goes to TLC as well
	cursorSampleEvery := 12 // every n-th input has its loop-top events validated by TLC (hook builds)
	timeout := 5 * time.Second
	nestDepth := 7 // 2^7 re-parses of the innermost body cost about a millisecond
	if thorough {
		nestDepth = 9
		truncAllBelow, truncSample, mutPerFile = 1<<30, 0, 6000
		rangeSampleEvery, errSampleEvery, cursorSampleEvery = 40, 60, 60
		timeout = 10 * time.Second
	}

	ranges := newTraceFile(filepath.Join(outdir, "ranges.ndjson"))
	cursor := newTraceFile(filepath.Join(outdir, "cursor.ndjson"))

	var (
		mu                                                   sync.Mutex
		evaluations, accepted, errsWithPos, errsWithoutPos   int
		panics, timeouts, noprogs, rangeFlags, errFlags      int
		generated, formatted, rangeRecs, rangeFiles, errRecs int
		cursorInputs, cursorEvents, maxTops                  int
		seen                                                 = map[uint64]struct{}{}
		byKind                                               = map[string]int{}
		errTypes                                             = map[string]int{}
		holders                                              = map[string]int{}
		loopsSeen                                            = map[string]int{}
		suspects                                             []map[string]any
		fileID                                               int64
		stop                                                 atomic.Bool
		maxReparse                                           = map[string]int{}
		nestWork                                             []map[string]any
		reparseOver, oobs                                    int
	)

	handle := func(o outcome, n int) {
		in := o.in
		lt := newLineTable(in.data)
		mu.Lock()
		evaluations++
		byKind[famOf(in.kind)]++
		seen[hash(in.data)] = struct{}{}
		mu.Unlock()

		// loop-top events (hook builds)
		special := in.kind == "corpus" || strings.HasPrefix(in.kind, "nest")
		if len(o.events) > 0 {
			tops := map[uint64]int{}
			type key struct {
				loop  string
				start int
			}
			entered := map[key]int{}
			worst, worstLoop := 0, ""
			for _, e := range o.events {
				if tops[e.Frame] == 0 {
					k := key{e.Loop, e.Index}
					entered[k]++
					if entered[k] > worst {
						worst, worstLoop = entered[k], e.Loop
					}
				}
				tops[e.Frame]++
			}
			mu.Lock()
			for _, e := range o.events {
				loopsSeen[e.Loop]++
			}
			for _, c := range tops {
				if c > maxTops {
					maxTops = c
				}
			}
			if worst > maxReparse[famOf(in.kind)] {
				maxReparse[famOf(in.kind)] = worst
			}
			if strings.HasPrefix(in.kind, "nest") {
				nestWork = append(nestWork, map[string]any{"kind": in.kind, "bytes": len(in.data), "loop_tops": len(o.events), "max_entries_same_loop_same_index": worst, "loop": worstLoop})
			}
			over := worst > reparseLimit
			if over {
				reparseOver++
			}
			mu.Unlock()
			if o.noprog != nil || o.oob != nil || over || special || n%cursorSampleEvery == 0 {
				id := atomic.AddInt64(&fileID, 1)
				recs := []any{map[string]any{"k": "in", "id": id, "n": len(in.data), "flag": b2i(o.noprog != nil), "oob": b2i(o.oob != nil), "rp": b2i(over),
					"kind": in.kind, "origin": in.origin, "src": srcFor(in, o.noprog != nil || o.oob != nil || over)}}
				for _, e := range o.events {
					recs = append(recs, map[string]any{"k": "top", "id": id, "f": e.Frame, "l": e.Loop, "i": e.Index})
				}
				cursor.write(recs...)
				mu.Lock()
				cursorInputs++
				cursorEvents += len(o.events)
				mu.Unlock()
			}
			if o.oob != nil {
				mu.Lock()
				oobs++
				mu.Unlock()
				vhlib.Drift("parser cursor beyond the caller's input", map[string]any{"loop": o.oob.Loop, "index": o.oob.Index, "len": len(in.data), "kind": in.kind, "origin": in.origin})
			}
			if over {
				vhlib.Fail("ReparseBound:"+worstLoop, fmt.Sprintf("one parse starts loop %s %d times at the same input index (limit %d; the corpus needs at most 4): the body is re-parsed once per enclosing level, work grows exponentially with nesting depth (%s, %d bytes, %d loop tops)",
					worstLoop, worst, reparseLimit, in.kind, len(in.data), len(o.events)),
					map[string]any{"input": quoteInput(in.data), "kind": in.kind, "origin": in.origin, "entries_same_loop_same_index": worst, "loop_tops": len(o.events),
						"reproduce": "parser.ParseString(input) with the verif hook counting loop tops; each further level doubles the count"})
			}
		}

		switch {
		case o.noprog != nil:
			mu.Lock()
			noprogs++
			first := noprogs <= 3
			mu.Unlock()
			if first || true {
				vhlib.Fail("NoProgress:"+o.noprog.Loop, fmt.Sprintf("parser loop %s came back to its top at index %d without consuming input: parsing does not terminate (%s of %s)",
					o.noprog.Loop, o.noprog.Index, in.kind, in.origin),
					map[string]any{"input": quoteInput(in.data), "kind": in.kind, "origin": in.origin, "loop": o.noprog.Loop, "index": o.noprog.Index,
						"reproduce": "parser.ParseString(input) never returns"})
			}
			return
		case o.timeout:
			mu.Lock()
			timeouts++
			if len(suspects) < 12 {
				suspects = append(suspects, map[string]any{"input": in.data, "kind": in.kind, "origin": in.origin})
			}
			if timeouts >= 6 {
				stop.Store(true) // every hung parse keeps a core busy: stop exploring, report what we have
			}
			mu.Unlock()
			return
		case o.panicked != nil:
			mu.Lock()
			panics++
			mu.Unlock()
			fn := innermostParserFunc(o.stack)
			kind := "panic"
			msg := fmt.Sprint(o.panicked)
			switch {
			case strings.Contains(msg, "out of range"):
				kind = "panic-bounds"
			case strings.Contains(msg, "nil pointer"):
				kind = "panic-nil"
			}
			vhlib.Fail(kind+":"+fn, fmt.Sprintf("parser panics: %v (%s of %s)", o.panicked, in.kind, in.origin),
				map[string]any{"input": quoteInput(in.data), "kind": in.kind, "origin": in.origin, "panic": msg, "stack": o.stack,
					"reproduce": "parser.ParseString(input)"})
			return
		}

		if o.err != nil {
			pos, typ, has := errorPosition(o.err)
			mu.Lock()
			errTypes[typ]++
			if has {
				errsWithPos++
			} else {
				errsWithoutPos++
			}
			mu.Unlock()
			if !has {
				return
			}
			r := rangeRec{T: "err", H: typ, A: []int{pos.Index, pos.Line, pos.Col}, V: o.err.Error()}
			if len(r.V) > 200 {
				r.V = r.V[:200]
			}
			if v := rangeViolation(lt, r); v != "" {
				r.Flag = 1
				mu.Lock()
				errFlags++
				mu.Unlock()
			}
			if r.Flag == 1 || n%errSampleEvery == 0 {
				id := atomic.AddInt64(&fileID, 1)
				ranges.write(map[string]any{"k": "f", "id": id, "n": lt.n, "ll": lt.lineLens(), "kind": in.kind, "origin": in.origin, "src": srcFor(in, r.Flag == 1)},
					map[string]any{"k": "r", "f": id, "r": r})
				mu.Lock()
				errRecs++
				mu.Unlock()
			}
			return
		}

		// parsed: generate + gofmt decide whether the position clause applies
		mu.Lock()
		accepted++
		mu.Unlock()
		var sb strings.Builder
		if _, err := generator.Generate(o.tf, &sb); err != nil {
			return
		}
		mu.Lock()
		generated++
		mu.Unlock()
		if _, err := format.Source([]byte(sb.String())); err != nil {
			return
		}
		mu.Lock()
		formatted++
		mu.Unlock()
		var recs []rangeRec
		walkRanges(reflect.ValueOf(o.tf), "tf", in.data, &recs)
		flagged := false
		for i := range recs {
			if v := rangeViolation(lt, recs[i]); v != "" {
				recs[i].Flag = 1
				flagged = true
			}
		}
		mu.Lock()
		for _, r := range recs {
			holders[r.T+":"+r.H]++
		}
		if flagged {
			rangeFlags++
		}
		mu.Unlock()
		if flagged || in.kind == "corpus" || n%rangeSampleEvery == 0 {
			id := atomic.AddInt64(&fileID, 1)
			out := []any{map[string]any{"k": "f", "id": id, "n": lt.n, "ll": lt.lineLens(), "kind": in.kind, "origin": in.origin, "src": srcFor(in, flagged)}}
			for _, r := range recs {
				out = append(out, map[string]any{"k": "r", "f": id, "r": r})
			}
			ranges.write(out...)
			mu.Lock()
			rangeFiles++
			rangeRecs += len(recs)
			mu.Unlock()
		}
	}

	// producer
	work := make(chan input, 1024)
	go func() {
		defer close(work)
		r := rand.New(rand.NewSource(seed))
		for _, in := range endsOfConstructs(corpus, thorough) {
			work <- in
		}
		for _, in := range nestings(nestDepth) {
			work <- in
		}
		for _, c := range corpus {
			if stop.Load() {
				return
			}
			work <- c
			// truncations
			if len(c.data) <= truncAllBelow {
				for k := 0; k < len(c.data); k++ {
					work <- input{kind: "trunc", origin: fmt.Sprintf("%s[:%d]", c.origin, k), data: c.data[:k]}
				}
			} else {
				for j := 0; j < truncSample; j++ {
					k := r.Intn(len(c.data))
					work <- input{kind: "trunc", origin: fmt.Sprintf("%s[:%d]", c.origin, k), data: c.data[:k]}
				}
			}
			// mutations (of the file, and of a truncation of it now and then)
			for j := 0; j < mutPerFile; j++ {
				if stop.Load() {
					return
				}
				base := c.data
				if r.Intn(5) == 0 && len(base) > 0 {
					base = base[:r.Intn(len(base))]
				}
				m, op := mutate(r, base)
				work <- input{kind: "mut:" + op, origin: c.origin, data: m}
			}
		}
	}()

	nw := runtime.NumCPU()
	if nw > 16 {
		nw = 16
	}
	var wg sync.WaitGroup
	var counter int64
	for w := 0; w < nw; w++ {
		wg.Add(1)
		go func() {
			defer wg.Done()
			for in := range work {
				if stop.Load() {
					continue
				}
				n := int(atomic.AddInt64(&counter, 1))
				record := hookPresent && (in.kind == "corpus" || strings.HasPrefix(in.kind, "nest") || n%cursorSampleEvery == 0)
				handle(runOne(in, timeout, record), n)
			}
		}()
	}
	wg.Wait()
	ranges.close()
	cursor.close()

	// suspects are written to files for `c06 single`
	var suspectFiles []map[string]any
	for i, s := range suspects {
		p := filepath.Join(outdir, fmt.Sprintf("suspect-%d.templ", i))
		os.WriteFile(p, []byte(s["input"].(string)), 0o644)
		suspectFiles = append(suspectFiles, map[string]any{"file": p, "kind": s["kind"], "origin": s["origin"], "len": len(s["input"].(string))})
	}
	for i, c := range corpus {
		if i%61 == 0 {
			vhlib.Sample(map[string]any{"origin": c.origin, "bytes": len(c.data)})
		}
	}
	vhlib.Summary(map[string]any{
		"hook": hookPresent, "corpus_inputs": len(corpus), "evaluations": evaluations, "distinct": len(seen), "by_kind": byKind,
		"accepted": accepted, "generated": generated, "gofmt_ok": formatted,
		"errors_with_position": errsWithPos, "errors_without_position": errsWithoutPos, "error_types": errTypes,
		"panics": panics, "timeouts": timeouts, "no_progress": noprogs, "suspects": suspectFiles, "stopped_early": stop.Load(),
		"range_flags": rangeFlags, "err_flags": errFlags, "range_files_logged": rangeFiles, "range_records_logged": rangeRecs, "err_records_logged": errRecs,
		"range_lines": ranges.lines, "cursor_lines": cursor.lines, "cursor_inputs": cursorInputs, "cursor_events": cursorEvents,
		"max_tops_per_frame": maxTops, "loops_seen": loopsSeen, "range_kinds": holders,
		"max_entries_same_loop_same_index": maxReparse, "reparse_limit": reparseLimit, "reparse_over": reparseOver, "cursor_beyond_input": oobs, "nest_work": nestWork,
	})
}

func famOf(kind string) string { return strings.SplitN(kind, ":", 2)[0] }

func b2i(b bool) int {
	if b {
		return 1
	}
	return 0
}

// srcFor returns the input text for replay files (only for flagged or small inputs, to keep traces small).
func srcFor(in input, flagged bool) string {
	if flagged || len(in.data) <= 400 {
		return strconv.Quote(in.data)
	}
	return ""
}

// single parses one file with a long timeout; on timeout it prints three goroutine dumps and exits 3.
func single(path, secs string) {
	b, err := os.ReadFile(path)
	if err != nil {
		vhlib.Fatal("%v", err)
	}
	t, _ := strconv.Atoi(secs)
	done := make(chan string, 1)
	start := time.Now()
	go func() {
		defer func() {
			if p := recover(); p != nil {
				done <- fmt.Sprintf("panic: %v", p)
			}
		}()
		_, err := parser.ParseString(string(b))
		done <- fmt.Sprintf("returned err=%v", err)
	}()
	select {
	case r := <-done:
		fmt.Printf("{\"kind\":\"single\",\"result\":%q,\"seconds\":%.3f}\n", r, time.Since(start).Seconds())
		return
	case <-time.After(time.Duration(t) * time.Second):
		var dumps []string
		for i := 0; i < 3; i++ {
			buf := make([]byte, 1<<20)
			dumps = append(dumps, string(buf[:runtime.Stack(buf, true)]))
			time.Sleep(150 * time.Millisecond)
		}
		out, _ := json.Marshal(map[string]any{"kind": "single", "result": "timeout", "seconds": time.Since(start).Seconds(),
			"input_len": len(b), "dumps": dumps})
		fmt.Println(string(out))
		os.Exit(3)
	}
}
