\* C03 negative: an argument json.Marshal rejects written with Go quoting of its text form (leaves < > & alone) must be rejected
CONSTANTS
  StrVariant = "dollar"
  JsonVariant = "std"
  HtmlVariant = "std"
  Positions <- PositionsDef
  EmitEdges = FALSE
  GenTokens <- GenTokensDef
  LeafTokens <- LeafTokensDef
  KeyTokens <- KeyTokensDef
  UnencMode = "goquote"
  MaxTok = 0
INIT CInit
NEXT CNext
VIEW CView
INVARIANTS PredictionsClean
CHECK_DEADLOCK FALSE
