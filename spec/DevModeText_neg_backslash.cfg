\* C16 text file round trip, EscapeRule = keepbackslash (negative config: must be rejected)
CONSTANTS
  MaxLits = 2
  MaxLen = 2
  EscapeRule = "keepbackslash"
  EmitCases = FALSE
INIT Init
NEXT Next
VIEW View
ACTION_CONSTRAINT Emit
INVARIANTS TextRoundTrip
CHECK_DEADLOCK FALSE
