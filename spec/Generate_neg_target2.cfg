\* C15 negative config: as Generate_neg_target, seen on the tree: a template is left without its sibling (SiblingEqualsSoloGeneration).
CONSTANTS
  MaxFiles = 2
  Trees <- TreesNegTarget
  Ws = {2}
  FlagSets <- AllFlags
  Mutex = TRUE
  ErrsCloser = "postgen"
  MainReadsErrs = TRUE
  GenVariants = {1}
  SlotRelease = "deferred"
  TargetRule = "cutfirst"
  WalkRule = "filesonly"
  OrphanStat = "fileonly"
  RootRule = "exempt"
  RootTrees <- TreesRoot
  SkipRule = "coded"
  TwoRuns = FALSE
  EmitCases = FALSE
INIT Init
NEXT Next
VIEW View
INVARIANTS TypeOK SiblingEqualsSoloGeneration
