\* C20 case emission: every configuration with the response the spec predicts (UnsupportedRule is set by the check to what the tree does).
CONSTANTS
  UnsupportedRule = "pass"
  HeadRule = "pass"
  StatusRule = "pass"
  CtRule = "caseinsensitive"
  ParseRule = "scripting"
  CspRule = "policylist"
  LengthRule = "set"
  EmitCases = TRUE
INIT Init
NEXT Next
INVARIANTS TypeOK EmitCase
CHECK_DEADLOCK FALSE
