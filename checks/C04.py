#!/usr/bin/env python3
"""C04 -- the URL sanitiser admits only relative references and allow-listed schemes
(spec/SinksUrl.tla, UrlAccept.tla, UrlScheme.tla, HtmlTok.tla, Chars.tla).

MC   : TLC closes the product automaton  templ.URL as coded (first ':', '/' before it, allow-list under
       strings.EqualFold incl. U+017F/U+212A) x templ.EscapeString x HtmlTok (double-quoted attribute value,
       character references decoded) x WHATWG scheme state  for input strings of every length:
       PassImpliesSafe, FailIsFixed, ValueIntact; a second instance without the HTML layer; the negative
       config (allow-list test by HasPrefix) must violate PassImpliesSafe.
GEN  : TLC prints the whole automaton (every transition, states annotated with verdict / acceptor branch /
       browser scheme).  The harness walks it for concrete strings and compares with the real templ.URL:
       every scalar value inside scheme-shaped templates, EVERY string up to length 5 (thorough 6) over the
       property's adversarial alphabet, the transition cover, XSS vectors + seeded mutations + random strings.
VAL  : a subset and every rejected case is rendered through generated href/action sinks; TraceSinksUrl.tla runs
       HtmlTok + UrlScheme over the REAL output and re-evaluates PassImpliesSafe / FailIsFixed; x/net/html is
       the second key for the attribute-escaping clause.
TYPE : a generated template with a string-typed href/action expression must fail to compile.
"""
import concurrent.futures
import json
import os
import subprocess
import sys

sys.path.insert(0, os.path.join(os.path.dirname(os.path.abspath(__file__)), "..", "lib"))
import vlib

# UrlTyping cases: every PLACEMENT of a dynamic href on <a> / action on <form> the generator distinguishes, one small
# package per (placement, form) so that a placement that stops compiling does not take anything else down:
#   s_<placement>   the expression is a plain string           -> must NOT compile (templ.SafeURL type error)
#   u_<placement>   the expression is templ.URL(s)             -> must compile, and must sanitise when rendered
# (body with %s for the expression, sink pattern index in sinks.json: 1 = <a href>, 2 = <form action>, root cause if it fails)
# HtmlTok lower-cases attribute names, so HREF / Action ARE the href / action attributes for every HTML consumer.
IF_ARM = '<%s\n\t\tif b {\n\t\t\t%s={ %%s }\n\t\t}\n\t>x</%s>'
ELSE_ARM = '<%s\n\t\tif !b {\n\t\t\tclass="k"\n\t\t} else {\n\t\t\t%s={ %%s }\n\t\t}\n\t>x</%s>'
NESTED_IF = '<%s\n\t\tif b {\n\t\t\tif b {\n\t\t\t\t%s={ %%s }\n\t\t\t}\n\t\t}\n\t>x</%s>'
PLACEMENTS = {
    "href_plain": ('<a href={ %s }>x</a>', 1, None),
    "href_in_if": (IF_ARM % ("a", "href", "a"), 1, None),
    "href_in_else": (ELSE_ARM % ("a", "href", "a"), 1, None),
    "href_in_nested_if": (NESTED_IF % ("a", "href", "a"), 1, None),
    "action_plain": ('<form action={ %s }>x</form>', 2, None),
    "action_in_if": (IF_ARM % ("form", "action", "form"), 2, None),
    "action_in_else": (ELSE_ARM % ("form", "action", "form"), 2, None),
    "href_attrcase": ('<a HREF={ %s }>x</a>', 1, "UrlTyping.AttrNameCase"),
    "action_attrcase": ('<form Action={ %s }>x</form>', 2, "UrlTyping.AttrNameCase"),
}
TEMPLATE = 'package tc\n\ntempl T(s string, b bool) {\n\t%s\n}\n'
ATTACK = "javascript:alert(1)"
# what the typed form is rendered with: attacks (must come out as the failure URL) and harmless URLs (must come out unchanged)
URL_INPUTS = [ATTACK, "JaVaScRiPt:alert(1)", " javascript:alert(1)", "java\tscript:alert(1)", "javascript&#58;alert(1)", "data:text/html,x",
              "vbscript:x", "https://example.com/?a=b&c=d", "/relative/path", "mailto:a@b.c", "x\" onclick=\"alert(1)", ""]


def run_trace_shards(ck, shard_files, sinks_json, name):
    jobs = []
    for path in shard_files:
        text = open(path).read()
        n = text.count("\n")
        if n:
            jobs.append((path, text, n))

    def one(job):
        path, text, n = job
        res = vlib.tlc("TraceSinksUrl", "TraceSinksUrl.cfg", files={"trace.ndjson": text, "sinks.json": sinks_json},
                       workers=1, timeout=1500, xmx="2g", xss="64m")
        done = res.tagged("DONE")
        if not res.ok or res.postcondition_failed or len(done) != 1 or done[0]["consumed"] != n:
            raise vlib.InfraError("trace validation of %s incomplete: ok=%s consumed=%s of %d lines\n%s" % (
                os.path.basename(path), res.ok, done[0]["consumed"] if done else None, n, res.out[-1500:]))
        return res, done[0], n

    fails, drift, total = {}, [], 0
    with concurrent.futures.ThreadPoolExecutor(max_workers=max(1, min(len(jobs), 8))) as ex:
        for res, d, n in ex.map(one, jobs):
            total += n
            ck.add("states", res.distinct)
            ck.add("transitions", res.generated)
            for f in d["fails"]:
                fails[f["id"]] = f["why"]
            drift += d["drift"]
    ck.cov.setdefault("tlc_runs", []).append({"run": name, "shards": len(jobs), "cases": total})
    return fails, drift, total


def typecheck(ck, hd):
    """Second clause (UrlTyping): in every placement a plain string must not compile as href on <a> / action on <form>,
    and templ.URL(s) must compile.  Returns the trace records [(kind, placement, sink, template, input, output)] of what
    DID compile, rendered by one runner; they are judged by TraceSinksUrl like every other rendered value."""
    root = os.path.join(hd, "c04tc")
    src = {}
    for name, (body, sink, _) in PLACEMENTS.items():
        for form, expr in (("s", "s"), ("u", "templ.URL(s)")):
            d = form + "_" + name
            os.makedirs(os.path.join(root, d))
            src[d] = TEMPLATE % (body % expr)
            with open(os.path.join(root, d, "x.templ"), "w") as fh:
                fh.write(src[d])
    vlib.templ_generate(root)
    for d in src:
        if not os.path.exists(os.path.join(root, d, "x_templ.go")):
            raise vlib.InfraError("templ generate produced no code for UrlTyping case %s" % d)
    # one build of all case packages: go build reports the errors per package and keeps going
    p = vlib.run(["go", "build", "./c04tc/..."], cwd=hd, check=False)
    errs, cur = {}, None
    for line in p.stderr.decode(errors="replace").splitlines():
        if line.startswith("# verifharness/c04tc/"):
            cur = line.split("/")[-1].split()[0]
            errs[cur] = []
        elif cur is not None:
            errs[cur].append(line)
    if p.returncode != 0 and not errs:
        raise vlib.InfraError("go build of the UrlTyping cases failed without naming a package:\n%s" % p.stderr.decode()[-1500:])
    unknown = set(errs) - set(src)
    if unknown:
        raise vlib.InfraError("go build reported packages that are no UrlTyping case: %s" % unknown)
    ok = [d for d in src if d not in errs]
    rejected = 0
    for name, (body, sink, cause) in PLACEMENTS.items():
        sd, ud = "s_" + name, "u_" + name
        if sd in errs:
            if not any("templ.SafeURL" in l for l in errs[sd]):
                raise vlib.InfraError("%s fails to compile for another reason than the SafeURL typing:\n%s" % (sd, "\n".join(errs[sd])[-1500:]))
            rejected += 1
        if ud in errs:
            # the form that is CORRECT by the property does not compile: that is a finding about this placement
            ck.violation(cause or "UrlTyping.SafeFormRejected." + name,
                         "a template that fills %s through templ.URL does not compile in placement %s: %s" % (
                             "href on <a>" if sink == 1 else "action on <form>", name, " | ".join(l.strip() for l in errs[ud][:2])),
                         {"template": src[ud], "compiler": errs[ud][:6], "reproduce": "templ generate the template and go build it against the repository"})
    ck.set("typecheck_placements", len(PLACEMENTS))
    ck.set("typecheck_string_forms_rejected", rejected)
    ck.set("typecheck_safe_forms_compiled", len([d for d in ok if d.startswith("u_")]))
    if not ok:
        return []
    # one runner renders everything that compiled
    rd = os.path.join(root, "zz_runner")
    os.makedirs(rd)
    imports = "\n".join('\t%s "verifharness/c04tc/%s"' % (d, d) for d in ok)
    calls = "\n".join('\trun("%s", %s.T, %s)' % (d, d, "attack" if d.startswith("s_") else "inputs") for d in ok)
    main_go = ('package main\n\nimport (\n\t"bytes"\n\t"context"\n\t"encoding/json"\n\t"os"\n\n\t"github.com/a-h/templ"\n%s\n)\n\n'
               'var attack = []string{%s}\nvar inputs = []string{%s}\n\n'
               'func run(name string, f func(string, bool) templ.Component, in []string) {\n\tenc := json.NewEncoder(os.Stdout)\n'
               '\tfor _, s := range in {\n\t\tvar b bytes.Buffer\n\t\tif err := f(s, true).Render(context.Background(), &b); err != nil {\n\t\t\tpanic(err)\n\t\t}\n'
               '\t\tenc.Encode(map[string]string{"case": name, "in": s, "out": b.String()})\n\t}\n}\n\nfunc main() {\n%s\n}\n') % (
                   imports, json.dumps(ATTACK), ", ".join(json.dumps(x) for x in URL_INPUTS), calls)
    with open(os.path.join(rd, "main.go"), "w") as fh:
        fh.write(main_go)
    binp = vlib.go_build("./c04tc/zz_runner", "c04tc_runner", cwd=hd)
    recs = []
    for line in vlib.run([binp]).stdout.decode(errors="replace").splitlines():
        r = json.loads(line)
        name = r["case"][2:]
        recs.append((r["case"][0], name, PLACEMENTS[name][1], src[r["case"]], r["in"], r["out"]))
    want = len([d for d in ok if d.startswith("s_")]) + len(URL_INPUTS) * len([d for d in ok if d.startswith("u_")])
    if len(recs) != want:
        raise vlib.InfraError("the UrlTyping runner rendered %d of %d cases" % (len(recs), want))
    return recs


def main():
    ck = vlib.Check("C04", "model_checking")
    thorough = ck.tier == "thorough"
    sc = vlib.scratch()

    # --- MC ----------------------------------------------------------------------------------------------
    with concurrent.futures.ThreadPoolExecutor(max_workers=4) as ex:
        fmc = ex.submit(vlib.tlc, "SinksUrl", "SinksUrl_mc.cfg", workers=1, timeout=600)
        fmd = ex.submit(vlib.tlc, "SinksUrl", "SinksUrl_direct.cfg", workers=1, timeout=600)
        fneg = ex.submit(vlib.tlc, "SinksUrl", "SinksUrl_neg.cfg", workers=1, timeout=600)
        fgen = ex.submit(vlib.tlc, "SinksUrl", "SinksUrl_gen.cfg", workers=1, timeout=600)
        mc, md, neg, gen = fmc.result(), fmd.result(), fneg.result(), fgen.result()
    if not mc.ok:
        # the model of the code as written violates the property: a counterexample to reproduce on the real code
        raise vlib.InfraError("SinksUrl (templ.URL as coded) violates %s in the model; reproduce the counterexample on the real "
                              "code before calling it a defect:\n%s" % (mc.violated, mc.out[-3000:]))
    ck.add_tlc(mc, "SinksUrl_mc (html pipeline, all input lengths)")
    if not md.ok:
        raise vlib.InfraError("SinksUrl direct pipeline violates %s in the model" % md.violated)
    ck.add_tlc(md, "SinksUrl_direct (no HTML layer)")
    if neg.violated != "PassImpliesSafe":
        raise vlib.InfraError("negative config (allow-list by HasPrefix) was not rejected by PassImpliesSafe (got %s)" % neg.violated)
    ck.set("negative_config_rejected", True)
    vlib.log("MC done")

    # --- GEN: the automaton ------------------------------------------------------------------------------------
    edges, chars = gen.tagged("EDGE"), gen.tagged("CHARS")
    if not gen.ok or len(edges) != gen.generated - 1 or len(chars) != 1 or len(edges) != gen.distinct * 139:
        raise vlib.InfraError("edge emission incomplete: %d edges, %d generated, %d states" % (len(edges), gen.generated, gen.distinct))
    ck.add_tlc(gen, "SinksUrl_gen (edge emission)")
    cpath, gpath = os.path.join(sc, "chars.json"), os.path.join(sc, "edges.ndjson")
    json.dump(chars[0], open(cpath, "w"))
    vlib.write_ndjson(gpath, edges)

    # --- harness ---------------------------------------------------------------------------------------------------
    hd = vlib.harness_dir()
    compiled = typecheck(ck, hd)
    vlib.log("typecheck clause done: %d rendered typing cases" % len(compiled))
    try:
        vlib.templ_generate(os.path.join(hd, "c04"))
        binp = vlib.go_build("./c04", "c04")
    except vlib.InfraError as e:
        if ck.violations:
            # the typing clause already failed on the real generator and the gallery (unconditional typed placements only) does
            # not build with it: report what was found, the remaining steps cannot run
            ck.notes.append("harness gallery does not build against this tree; direct runs and trace validation skipped: %s" % str(e)[-400:])
            ck.finish()
        raise
    vlib.log("harness built")
    outdir = os.path.join(sc, "url")
    os.makedirs(outdir)
    nshards = 8
    p = vlib.run([binp, "run", cpath, gpath, str(ck.seed), ck.tier, outdir, str(nshards)], check=False, timeout=2400)
    cands, gofails = {}, {}
    for l in p.stdout.decode(errors="replace").splitlines():
        if '"kind":"candidate"' in l:
            r = json.loads(l)
            cands[r["xi"]] = r
        elif '"kind":"gofail"' in l:
            f = json.loads(l)["f"]
            gofails[f["id"]] = f
    s = vlib.harness_results(ck, p)
    if s["states"] != gen.distinct or s["candidates"] != len(cands) or s["go_fails"] != len(gofails):
        raise vlib.InfraError("harness summary inconsistent: %s" % s)
    alen = s["exhaustive_len"]
    if s["exhaustive"]["strings"] != sum(s["alphabet"] ** k for k in range(alen + 1)):
        raise vlib.InfraError("exhaustive enumeration incomplete: %s" % s["exhaustive"])
    for part in ("fold", "exhaustive", "cover", "vectors"):
        if s[part]["pass"] == 0 or s[part]["fail"] == 0:
            raise vlib.InfraError("%s exercised only one verdict of the sanitiser: %s" % (part, s[part]))
    vlib.log("direct runs done: %d evaluations, %d candidates, %d trace lines" % (s["evaluations"], len(cands), s["trace_lines"]))

    # --- VAL ----------------------------------------------------------------------------------------------------------
    sinks_json = open(os.path.join(outdir, "sinks.json")).read()
    shards = [os.path.join(outdir, "trace-%d.ndjson" % i) for i in range(nshards)]
    # binding self-test (every run): corrupted records -- a javascript: URL "passed", a value that is neither the input
    # nor the failure URL, an unescaped quote -- must be rejected by the trace spec, each for its reason
    sy = lambda t: [ord(c) for c in t]
    CAN = {999999991: ("javascript:alert(1)", '<a href="javascript:alert(1)">x</a>', "unsafe-pass"),
           999999992: ("javascript:alert(1)", '<a href="about:blank">x</a>', "not-fixed"),
           999999993: ('x"y', '<a href="x"y">x</a>', "structure"),
           999999994: ("java&#9;script:alert(1)", '<a href="java&#9;script:alert(1)">x</a>', "not-fixed")}
    TC0 = 999900000
    spread = [json.loads(l) for l in p.stdout.decode(errors="replace").splitlines() if '"kind":"spread"' in l]
    spread_attack = [r for r in spread if r["type"] == "string" and r["in"] == ATTACK]
    if len(spread) != 4 or len(spread_attack) != 1:
        raise vlib.InfraError("harness did not report the spread-map renders: %s" % spread)
    SP = TC0 - 1
    with open(shards[0], "a") as fh:
        for cid, (i, o, _) in CAN.items():
            fh.write(json.dumps({"id": cid, "sink": 1, "in": sy(i), "out": sy(o)}) + "\n")
        # the UrlTyping cases that compiled, as rendered by the runner
        for k, (form, name, sink, tmpl, i, o) in enumerate(compiled):
            fh.write(json.dumps({"id": TC0 + k, "sink": sink, "in": sy(i), "out": sy(o)}) + "\n")
        fh.write(json.dumps({"id": SP, "sink": 1, "in": sy(ATTACK), "out": sy(spread_attack[0]["out"])}) + "\n")
    specfails, tdrift, validated = run_trace_shards(ck, shards, sinks_json, "TraceSinksUrl (real rendered href/action)")
    for cid, (_, _, want) in CAN.items():
        if specfails.pop(cid, None) != want:
            raise vlib.InfraError("binding self-test failed: corrupted trace record %d was not rejected as %s" % (cid, want))
    validated -= len(CAN) + len(compiled) + 1
    seen, typed_unsanitised = set(), []
    for k, (form, name, sink, tmpl, i, o) in enumerate(compiled):
        why = specfails.pop(TC0 + k, None)
        cause = PLACEMENTS[name][2]
        what = "href on <a>" if sink == 1 else "action on <form>"
        if form == "s":
            if why != "unsafe-pass":
                raise vlib.InfraError("UrlTyping case s_%s compiles with a plain string but its rendering %r is %s for the trace spec" % (name, o, why))
            ck.violation(cause or "UrlTyping.PlainStringCompiles." + name,
                         "a template that fills %s with a plain string compiles in placement %s and renders %s: the value reaches the attribute "
                         "without templ.URL (HtmlTok reads the attribute, UrlScheme resolves scheme javascript)" % (what, name, o.strip()),
                         {"template": tmpl, "input": i, "output": o, "reproduce": "templ generate the template, go build, render T(%r, true)" % i})
        elif why is not None and (name, why) not in seen:
            seen.add((name, why))
            typed_unsanitised.append((name, why, tmpl, i, o))
    # a spread map on <a> whose "href" is a plain string
    if specfails.pop(SP, None) == "unsafe-pass":
        ck.violation("UrlTyping.SpreadAttributeHref",
                     "<a { attrs... }> with attrs = templ.Attributes{\"href\": %r} renders %s: a plain string fills href without templ.URL" % (ATTACK, spread_attack[0]["out"].strip()),
                     {"input": ATTACK, "output": spread_attack[0]["out"], "reproduce": "render <a { templ.Attributes{\"href\": s}... }>x</a>"})
    ck.set("spread_map_href_renders", [{"value_type": r["type"], "value": r["in"], "out": r["out"]} for r in spread])
    ck.set("binding_selftest", "%d corrupted records rejected" % len(CAN))
    if validated != s["trace_lines"]:
        raise vlib.InfraError("trace validation consumed %d of %d logged cases" % (validated, s["trace_lines"]))
    vlib.log("trace validation done")

    # --- verdicts ------------------------------------------------------------------------------------------------------
    STRIDE = 100000000
    confirmed, shown, disagree = set(), {}, []
    for i, why in sorted(specfails.items(), key=lambda kv: (len(cands.get(kv[0] % STRIDE, {}).get("in", "")), kv[0])):
        xi = i % STRIDE
        c = cands.get(xi)
        if c is not None and why == ("not-fixed" if c["sig"].startswith("FailIsFixed") else "unsafe-pass"):
            if xi in confirmed:
                continue
            confirmed.add(xi)
            shown[c["sig"]] = shown.get(c["sig"], 0) + 1
            if shown[c["sig"]] <= 3:
                ck.violation(c["sig"], c["what"] + " (automaton walk and trace validation of the rendered href agree)",
                             {"input": c["in"], "reproduce": "templ.URL(%s)" % c["in"]})
            else:
                ck.add("further_failing_cases_not_listed", 1)
        elif i in gofails:
            # both keys reject the RENDERED attribute although the sanitiser's verdict is fine: the escaping clause
            f = gofails[i]
            inv = "InContext" if "structure" in (why, f["why"]) else "Verbatim"
            shown[inv] = shown.get(inv, 0) + 1
            if shown[inv] <= 3:
                ck.violation("AttrDQ.url." + inv, "sink %s: %s (the sanitised URL is not attribute-escaped on output; both keys)" % (f["sink"], f["desc"]),
                             {"sink": f["sink"], "input": f["in"], "output": f["out"]})
            else:
                ck.add("further_failing_cases_not_listed", 1)
        else:
            disagree.append("trace spec rejects case %s (%s) that neither the automaton walk nor x/net/html rejects" % (i, why))
    missing = [c for xi, c in cands.items() if xi not in confirmed]
    if missing:
        raise vlib.InfraError("%d candidates flagged by the automaton walk are not confirmed by the trace spec: %s" % (len(missing), missing[:2]))
    if s["candidates_direct"] and not confirmed:
        raise vlib.InfraError("the direct runs flagged %d strings but none of them was rendered and confirmed" % s["candidates_direct"])
    ck.set("candidates_confirmed", len(confirmed))
    # a typed placement whose rendering is not sanitised: the generator's fault only if templ.URL itself behaved
    # (otherwise it is a consequence of the sanitiser violations reported above)
    if not confirmed:
        for name, why, tmpl, i, o in typed_unsanitised:
            ck.violation("UrlTyping.SafeFormNotSanitised." + name,
                         "placement %s with templ.URL(s) renders %s for s = %r: %s" % (name, o.strip(), i, why),
                         {"template": tmpl, "input": i, "output": o})
    only_go = [f for i, f in gofails.items() if i not in specfails]
    if only_go:
        disagree.append("x/net/html rejects %d rendered outputs the spec tokenizer accepts: %s" % (len(only_go), only_go[:2]))
    if disagree:
        # the keys disagree: machinery inconsistency (exit 2) -- unless violations confirmed by both keys exist, which stand
        if not ck.violations and not ck.known_hit:
            raise vlib.InfraError("; ".join(disagree[:3]))
        ck.notes.append("keys disagree on %d cases besides the confirmed violations: %s" % (len(disagree), disagree[:2]))
    if tdrift:
        ck.add("model_drift_cases", len(tdrift))

    ck.set("traces_validated_against_impl", validated)
    ck.set("evaluations_against_templ_URL", s["evaluations"])
    ck.set("exhaustive_strings", s["exhaustive"]["strings"])
    ck.set("exhaustive", True)
    ck.set("rule", "every string of length <= %d over the %d-symbol adversarial alphabet (h t p s f j T S : / \\ ? # %% & ; TAB LF CR SP NUL "
                   "U+017F U+00E9 U+212A) run on the real templ.URL and compared with the state the TLC-generated automaton reaches" % (alen, s["alphabet"]))
    ck.set("by_part", {k: s[k] for k in ("fold", "exhaustive", "cover", "vectors")})
    ck.set("automaton_states", s["states"])
    ck.set("edges_emitted", len(edges))
    ck.set("renders", s["renders"])
    ck.set("bounds", {"symbols": 139, "exhaustive_len": alen, "alphabet": s["alphabet"], "cover_suffix_len": 2})
    ck.assume("the browser is represented by the WHATWG URL scheme-start/scheme states (single key: no independent URL parser offline)")
    ck.assume("a string without scheme is resolved against an http(s) document base: a relative reference")
    ck.assume("templ.SafeURL(...) casts are explicit bypasses and excluded")
    ck.finish()


def guarded():
    try:
        main()
    except (vlib.InfraError, SystemExit):
        raise
    except Exception as e:      # a crash of the check itself is a machinery failure (exit 2), never exit 1
        import traceback
        raise vlib.InfraError("check crashed: %s\n%s" % (e, traceback.format_exc()))


vlib.main(guarded)
