----------------------------- MODULE UrlAccept -----------------------------
(* templ.URL as coded in /repo/url.go, as a per-symbol acceptor over Chars.tla (shared by SinksUrl.tla and
   TraceSinksUrl.tla).

       if i := strings.IndexRune(s, ':'); i >= 0 && !strings.ContainsRune(s[:i], '/') {
           protocol := s[:i]
           if !EqualFold(protocol, "http") && ... "https" "mailto" "tel" "ftp" "ftps" { return FailedSanitizationURL }
       }
       return SafeURL(s)

   strings.EqualFold is Unicode simple case folding: besides ASCII case, U+017F LONG S equals "s" and U+212A
   KELVIN equals "k" (FoldAscii of Chars.tla).
   AcceptMode = "prefix" is the negative config: the allow-list test done with HasPrefix ("httpx:" passes).

   A0, AStep(s, c): state [ph, pre, why]: ph "scan" (no ':' and no '/' seen yet), "pass", "fail"; pre = the
   folded text before the first ':' as far as it matters (a position in the trie of the allow-list, DEAD or
   HIT); why = the branch of url.go that decided.  Verdict at end of input: pass unless ph = "fail".
   FailUrl: the fixed failure URL as symbols.                                                          *)
EXTENDS Chars
CONSTANT AcceptMode   \* "coded" | "prefix"

Allowed == { W(<<"h","t","t","p">>), W(<<"h","t","t","p","s">>), W(<<"m","a","i","l","t","o">>),
             W(<<"t","e","l">>), W(<<"f","t","p">>), W(<<"f","t","p","s">>) }
AllowedPrefixes == UNION { { SubSeq(s, 1, k) : k \in 0..Len(s) } : s \in Allowed }
DEAD == <<-1>>     \* the folded prefix can no longer equal an allow-listed scheme
HIT  == <<-2>>     \* "prefix" mode only: some allow-listed scheme is a prefix of the text before ':'

(* acceptor: ph "scan" (no ':' seen, no '/' seen), "pass", "fail"; pre = folded text before the first ':' as
   far as it matters (a position in the trie of the allow-list, DEAD or HIT); why = the branch of url.go *)
A0 == [ph |-> "scan", pre |-> <<>>, why |-> "no-colon"]
NextPre(pre, c) ==
    LET n == Append(pre, FoldAscii(c))
        hasAllowedPrefix == \E s \in Allowed : Len(s) <= Len(n) /\ SubSeq(n, 1, Len(s)) = s
    IN  IF pre = DEAD \/ pre = HIT THEN pre
        ELSE IF n \in AllowedPrefixes THEN n
        ELSE IF AcceptMode = "prefix" /\ hasAllowedPrefix THEN HIT
        ELSE DEAD
AStep(s, c) ==
    IF s.ph # "scan" THEN s
    ELSE IF c = cCOLON
         THEN IF s.pre \in Allowed \/ s.pre = HIT
              THEN [ph |-> "pass", pre |-> <<>>, why |-> "allow-listed"]
              ELSE [ph |-> "fail", pre |-> <<>>, why |-> "not-allow-listed"]
    ELSE IF c = cSLASH THEN [ph |-> "pass", pre |-> <<>>, why |-> "slash-before-colon"]
    ELSE [s EXCEPT !.pre = NextPre(s.pre, c)]
\* EqualFold works on runes: an undecodable byte is U+FFFD for it; it never folds to ASCII (FoldAscii leaves it alone)

\* "about:invalid#TemplFailedSanitizationURL"
FailUrl == <<97, 98, 111, 117, 116, 58, 105, 110, 118, 97, 108, 105, 100, 35, 84, 101, 109, 112, 108, 70, 97, 105, 108, 101, 100, 83, 97, 110, 105, 116, 105, 122, 97, 116, 105, 111, 110, 85, 82, 76>>
RECURSIVE ARun(_, _, _)
ARun(s, cs, i) == IF i > Len(cs) THEN s ELSE ARun(AStep(s, cs[i]), cs, i + 1)
=============================================================================
