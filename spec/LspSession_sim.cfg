\* LspSession: simulated behaviours for the replay on a real proxy.Server
CONSTANTS
  Docs = {"hello", "other"}
  Texts = {"t1", "t2", "t3"}
  OpenRule = "replace"
  HistLen = 14
INIT Init
NEXT Next

INVARIANTS ServerTracksEditor PrintHist
CHECK_DEADLOCK FALSE
