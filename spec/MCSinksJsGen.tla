---------------------------- MODULE MCSinksJsGen ----------------------------
(* Edge-emission instance of SinksJs (C03): prints the symbol/class table once and every transition. *)
EXTENDS MCSinksJs
ASSUME EmitSyms
=============================================================================
