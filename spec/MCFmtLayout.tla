----------------------------- MODULE MCFmtLayout -----------------------------
(* Model-checking / enumeration instance of FmtLayout (formatter layout model over TemplLang programs). *)
EXTENDS FmtLayout, TemplVocab
=============================================================================
