#!/usr/bin/env python3
"""C10 -- rendering is exact and fail-stop (spec/RenderIO.tla, spec/TraceRenderPool.tla).

MC   : TLC checks Prefix / NilMeansComplete / FaultMeansError / NoCarryOver / OneOwnerFlushes / FailStop on
       the model of the generated render protocol over bufio: every program of the op grammar up to MaxOps
       ops x EVERY writer fault offset in each mode x every expression / nested component failing x
       cancelled context (and pairs writer-fault + logical fault); 3-render sequences (fail, fail, succeed)
       over a shared pool whose Get is nondeterministic; seeded random programs of up to 6 ops / depth 3.
       Negative configs (GetBuffer without Reset, flush error dropped, flush error always adopted, no error
       check after a call / after a literal write) must each be rejected.
GEN  : every terminal behaviour TLC reached (program, fault plan(s), predicted bytes / error / evaluation
       counts / flush points / pool events) is realised on REAL generated code: the data-driven template
       harness/c10/interp/interp.templ is generated with the repository's templ CLI at check time (the closure of a
       block given to a hand-written component that renders it into its own writer is such generated code) and rendered
       into an instrumented io.Writer with runtime.DefaultBufferSize = the model's Cap.  Single-render cases
       are chained (plan, next plan, no fault) so that every failed render is followed by renders sharing
       the pools.  Verdicts come from the property (prefix, nil => complete, fault => error wrapping the
       cause, templ.Error file/line, nothing evaluated after an error, later renders unaffected);
       differences from the model's exact prediction are model drift.
BYTES: the root package's second pool (templ.GetBuffer / ReleaseBuffer: bytes.Buffer objects that come back from
       the pool with whatever they held) and its users templ.ToGoHTML and the buffered templ.Handler are modelled in
       spec/RenderIOBytes.tla (NoCarryOver, PooledBuffersAreEmpty, Exact; negative configs "Put without Reset on
       ToGoHTML's error path" and "ReleaseBuffer without Reset" must be rejected by NoCarryOver and by Exact).  Every
       TLC-generated sequence of (entry point, component, fail after k chunks | ok) is replayed on the real entry
       points on one goroutine over the real shared pool and each result compared with the solo document; the
       verifBytesPool hook events must show that Get really returned the object of the preceding Put.
VAL  : the `verif` pool hooks (hooks/C10-pool.diff) record acquire/existing/flush/release events during
       the replays and during the repository's own error/cancel fixtures (all fault offsets); TLC validates
       them against the pool protocol (TraceRenderPool.tla).
"""
import concurrent.futures as cf
import json, os, random, re, sys
sys.path.insert(0, os.path.join(os.path.dirname(os.path.abspath(__file__)), "..", "lib"))
import vlib

NEG = {  # seeded defect -> invariants that may reject it
    "noreset": {"NoCarryOver", "Prefix", "LaterRendersUnaffected", "NilMeansComplete", "FaultMeansError"},
    "dropflusherr": {"NilMeansComplete", "FaultMeansError"},
    "alwaysadopt": {"NilMeansComplete", "FaultMeansError"},
    "nocheckcall": {"Prefix", "NilMeansComplete", "FaultMeansError", "FailStop"},
    "nochecklit": {"FailStop"},
    # the closure of a block has no deferred release: rendered into a hand-written component's own writer, it fills a
    # pooled buffer that nobody flushes or releases
    "blocknorelease": {"OneOwnerFlushes", "NilMeansComplete", "FaultMeansError"},
    # GetBuffer skips Reset when the pooled buffer already points at the writer it is asked for (same-writer sequences)
    "resetunlesssame": {"NoCarryOver", "LaterRendersUnaffected", "NilMeansComplete", "FaultMeansError", "Prefix"},
}
NEG_EXTRA = {"resetunlesssame": {"SameWriter": "= TRUE"}}
# no error handler after a script expression inside a JS string literal
NEG["noexprcheckinlit"] = {"Prefix", "NilMeansComplete", "FaultMeansError"}


BNEG = {"gohtml_err_put_noreset", "release_noreset"}   # RenderIOBytes.tla: seeded defects of the bytes.Buffer pool protocol


def _sev(ev, buf=None, r=1, w=None, dirty=None):
    d = {"ev": ev, "r": r}
    if buf is not None:
        d["buf"] = buf
    if w is not None:
        d["w"] = w
    if dirty is not None:
        d["dirty"] = dirty
    return d


# Trace self-test: a hand-made trace with mixed event kinds (begin/end carry no buf/w/dirty field) in which every
# violation kind of TraceRenderPool.tla occurs exactly where listed, and a clean trace that must be accepted.
SELFTEST_TRACE = [
    (_sev("begin", r=1), None),
    (_sev("acquire", 1, 1, 1, True), "NoCarryOver.DirtyAcquire"),
    (_sev("flush", 1, 1, 1, False), None),
    (_sev("release", 1, 1, 1, False), None),
    (_sev("end", r=1), None),
    (_sev("begin", r=2), None),
    (_sev("get", 2, 2, dirty=True), "NoCarryOver.DirtyBytesBuffer"),
    (_sev("put", 2, 2, dirty=True), "NoCarryOver.PutWithoutReset"),
    (_sev("end", r=2), None),
    (_sev("begin", r=3), None),
    (_sev("acquire", 1, 3, 2, False), "NoCarryOver.WrongWriter"),
    (_sev("acquire", 3, 3, 2, False), ["NoCarryOver.WrongWriter", "OneOwner.SecondAcquire"]),
    (_sev("acquire", 6, 3, -1, False), None),                  # a block rendered into a component's own writer: legitimate
    (_sev("flush", 6, 3, -1), None),
    (_sev("release", 6, 3, -1), None),
    (_sev("existing", 4, 3, 3), "ExclusiveBuffer.UseNotHeld"),
    (_sev("release", 1, 3, 3), None),
    (_sev("flush", 1, 3, 3), "ExclusiveBuffer.UseAfterRelease"),
    (_sev("end", r=3), "OneOwner.HeldAfterReturn"),
    (_sev("begin", r=4), None),
    (_sev("get", 2, 4, dirty=False), None),
    (_sev("begin", r=5), None),
    (_sev("get", 2, 5, dirty=False), "ExclusiveBuffer.BytesAcquireWhileHeld"),
    (_sev("put", 2, 4, dirty=False), "ExclusiveBuffer.BytesReleaseNotHeld"),
    (_sev("put", 2, 5, dirty=False), None),
    (_sev("put", 2, 5, dirty=False), "ExclusiveBuffer.BytesReleaseNotHeld"),
    (_sev("end", r=4), None),
    (_sev("end", r=5), None),
    (_sev("begin", r=6), None),
    (_sev("begin", r=6), "Harness.RenderBeginTwice"),
    (_sev("acquire", 5, 6, 6, False), None),
    (_sev("begin", r=7), None),
    (_sev("acquire", 5, 7, 7, False), "ExclusiveBuffer.AcquireWhileHeld"),
    (_sev("release", 5, 6, 6), "ExclusiveBuffer.ReleaseNotHeld"),
    (_sev("release", 5, 7, 7), None),
    (_sev("end", r=6), None),
    (_sev("end", r=7), None),
]
SELFTEST_CLEAN = [_sev("begin", r=1), _sev("acquire", 1, 1, 1, False), _sev("existing", 1, 1, 1), _sev("get", 2, 1, dirty=False),
                  _sev("acquire", 3, 1, -1, False), _sev("existing", 3, 1, -1), _sev("flush", 3, 1, -1), _sev("release", 3, 1, -1),
                  _sev("put", 2, 1, dirty=False), _sev("flush", 1, 1, 1), _sev("release", 1, 1, 1), _sev("end", r=1),
                  _sev("begin", r=2), _sev("acquire", 1, 2, 2, False), _sev("flush", 1, 2, 2), _sev("release", 1, 2, 2), _sev("end", r=2)]


def trace_selftest(ck, cfgtext):
    """Every violation kind of the trace spec must fire at exactly the planted lines, whatever other events surround it."""
    want = [{"line": i + 1, "kind": k} for i, (_, ks) in enumerate(SELFTEST_TRACE) if ks
            for k in ([ks] if isinstance(ks, str) else ks)]
    bad = "".join(json.dumps(e) + "\n" for e, _ in SELFTEST_TRACE)
    st = vlib.tlc("TraceRenderPool", "t.cfg", workers=1, timeout=300, files={"t.cfg": cfgtext, "trace.ndjson": bad})
    rep = st.tagged("TRACE")
    got = sorted(rep[0]["viol"], key=lambda v: (v["line"], v["kind"])) if rep else None
    if got != want:
        raise vlib.InfraError("trace self-test: planted violations %s, trace spec reported %s" % (want, got))
    kinds = sorted({v["kind"] for v in want})
    spec_kinds = sorted(set(re.findall(r'"((?:Harness|OneOwner|ExclusiveBuffer|NoCarryOver)\.[A-Za-z]+)"', open(os.path.join(vlib.SPEC, "TraceRenderPool.tla")).read())))
    if kinds != spec_kinds:
        raise vlib.InfraError("trace self-test does not cover every violation kind of the trace spec: %s vs %s" % (kinds, spec_kinds))
    ok = vlib.tlc("TraceRenderPool", "t.cfg", workers=1, timeout=300,
                  files={"t.cfg": cfgtext, "trace.ndjson": "".join(json.dumps(e) + "\n" for e in SELFTEST_CLEAN)})
    rep = ok.tagged("TRACE")
    if not rep or rep[0]["viol"] or rep[0]["lines"] != len(SELFTEST_CLEAN) or rep[0]["stillheld"] != 0:
        raise vlib.InfraError("trace self-test: the clean trace was not accepted: %s" % rep)
    ck.set("trace_selftest", "%d planted violations (all %d kinds, mixed event kinds) reported at their lines; clean trace accepted"
           % (len(want), len(kinds)))


class _Filtered:
    """A harness result whose fail records are limited to `k` per signature over the whole check run, so that the bounded
    number of VIOLATION lines vlib prints is shared by all signatures (incl. those that only the trace validation finds)."""

    def __init__(self, p, seen, k=2):
        out = []
        for line in p.stdout.decode(errors="replace").splitlines():
            if line.startswith('{') and '"kind":"fail"' in line:
                try:
                    sig = json.loads(line).get("sig")
                except ValueError:
                    sig = None
                seen[sig] = seen.get(sig, 0) + 1
                if seen[sig] > k:
                    continue
            out.append(line)
        self.stdout = ("\n".join(out) + "\n").encode()
        self.stderr = p.stderr
        self.returncode = p.returncode


def require_hooks():
    """The pool hooks of hooks/C10-pool.diff must be present in the repository under test."""
    need = [("runtime/verifhook_on.go", "VerifPoolHook"), ("runtime/verifhook_on.go", "VerifBufferState"),
            ("runtime/verifhook_off.go", "func verifPool("), ("runtime/bufferpool.go", 'verifPool("acquire"'),
            ("runtime/bufferpool.go", 'verifPool("release"'), ("runtime/bufferpool.go", 'verifPool("flush"'),
            ("verifhook_on.go", "VerifBytesPoolHook"), ("runtime.go", 'verifBytesPool("put"')]
    for f, sym in need:
        p = os.path.join(vlib.REPO, f)
        if not os.path.exists(p) or sym not in open(p, errors="replace").read():
            raise vlib.InfraError("pool hook missing in %s (%s not found in %s): apply /verif/hooks/C10-pool.diff to the "
                                  "repository (git -C %s apply /verif/hooks/C10-pool.diff)" % (vlib.REPO, sym, f, vlib.REPO))


def cfg(name, **kw):
    t = open(os.path.join(vlib.SPEC, name)).read()
    for k, v in kw.items():
        t, n = re.subn(r"(?m)^  %s (=|<-) .*$" % k, "  %s %s" % (k, v), t)
        if n != 1:
            raise vlib.InfraError("constant %s not found in %s" % (k, name))
    return t


# --- seeded random programs for the `big` configuration --------------------------------------------------
def rand_prog(rng, depth, budget, own_ok=True):
    """A random op sequence of total size <= budget (>= 1) and nesting depth <= depth; returns (ops, size).
    own_ok: a collecting hand-written callee (hcb 1) may still be used (there is none inside a collected block)."""
    ops, used = [], 0
    while used < budget and (not ops or rng.random() < 0.8):
        left = budget - used
        kinds = ["L", "L", "E", "E", "leaf", "slot", "X"]
        if depth > 1 and left >= 2:
            kinds += ["call", "flush", "call", "flush", "hcb0", "hcb1", "hcb1"]
        if depth > 1 and left >= 3:
            kinds += ["cb", "cb", "join"]
        k = rng.choice(kinds)
        if k == "L":
            ops.append(("L", rng.choice([1, 2, 3, 5]), [], [])); used += 1
        elif k == "E":
            ops.append(("E", rng.choice([1, 2, 4]), [], [])); used += 1
        elif k == "leaf":
            ops.append(("leaf", rng.choice([2, 4]), [], [])); used += 1
        elif k == "slot":
            ops.append(("slot", 0, [], [])); used += 1
        elif k == "X":
            ops.append(("X", rng.choice([1, 2, 3]), [], [])); used += 1
        elif k in ("call", "flush"):
            a, n = rand_prog(rng, depth - 1, left - 1, own_ok)
            ops.append((k, 0, a, [])); used += 1 + n
        elif k in ("hcb0", "hcb1"):
            own = k == "hcb1" and own_ok
            a, n = rand_prog(rng, depth - 1, left - 1, own_ok and not own)
            ops.append(("hcb", 1 if own else 0, a, [])); used += 1 + n
        else:
            a, n = rand_prog(rng, depth - 1, left - 2, own_ok)
            b, m = rand_prog(rng, depth - 1, left - 1 - n, own_ok)
            if k == "cb" and not any(o[0] == "slot" for o in a) and rng.random() < 0.7:
                a = a + [("slot", 0, [], [])]; n += 1
                if 1 + n + m > left:
                    a = a[:-1]; n -= 1
            ops.append((k, 0, a, b)); used += 1 + n + m
    return ops, used


def tla_prog(ops):
    return "<<" + ", ".join('[k |-> "%s", n |-> %d, a |-> %s, b |-> %s]' % (k, n, tla_prog(a), tla_prog(b))
                            for (k, n, a, b) in ops) + ">>"


def big_module(seed, count):
    rng = random.Random(seed * 7919 + 17)
    progs = set()
    tries = 0
    while len(progs) < count and tries < count * 50:
        tries += 1
        p, n = rand_prog(rng, 3, rng.choice([4, 5, 6, 6]))
        if n >= 3:
            progs.add(tla_prog(p))
    body = ",\n  ".join(sorted(progs))
    return ("----------------------------- MODULE MCRenderIOBig -----------------------------\n"
            "(* generated by checks/C10.py: seeded random programs of the RenderIO op grammar *)\n"
            "EXTENDS MCRenderIO\nBigProgs == {\n  %s }\n"
            "=============================================================================\n" % body), len(progs)


def main():
    ck = vlib.Check("C10", "model_checking")
    thorough = ck.tier == "thorough"
    require_hooks()
    sc = vlib.scratch()
    failseen = {}

    # ---- the harness is built while TLC runs ------------------------------------------------------
    def build():
        d = vlib.harness_dir()
        vlib.templ_generate(os.path.join(d, "c10"))
        gen = os.path.join(d, "c10", "interp", "interp_templ.go")
        if not os.path.exists(gen):
            raise vlib.InfraError("templ generate produced no interp_templ.go")
        return vlib.go_build("./c10", "c10")

    big_text, nbig = big_module(ck.seed, 60 if thorough else 12)
    jobs = {
        "mc2": dict(module="MCRenderIO", cfg="a.cfg", workers=16 if thorough else 6, timeout=1500,
                    files={"a.cfg": cfg("RenderIO_mc.cfg", Emit="= TRUE", MaxOps="= %d" % (4 if thorough else 3))}),
        "mc3": dict(module="MCRenderIO", cfg="b.cfg", workers=4, timeout=1500,
                    files={"b.cfg": cfg("RenderIO_mc.cfg", Emit="= TRUE", Caps="= {3}", LitSizes="= {1, 2, 5}", XKinds="= {1, 2, 3}",
                                        ExprSizes="= {2, 4}", LeafSizes="= {4}", MaxOps="= %d" % (3 if thorough else 2))}),
        "seq": dict(module="MCRenderIO", cfg="c.cfg", workers=8 if thorough else 4, timeout=1500,
                    files={"c.cfg": cfg("RenderIO_seq.cfg", Emit="= TRUE",
                                        **({"LitSizes": "= {1, 3}", "ExprSizes": "= {1, 4}"} if thorough else
                                           {"SideKs": "= {0}", "LeafSizes": "= {}", "HandKinds": "= {}"}))}),
        # sequences of renders to ONE writer value that fails, recovers and is rendered to again
        "same": dict(module="MCRenderIO", cfg="s.cfg", workers=8 if thorough else 4, timeout=1500,
                     files={"s.cfg": cfg("RenderIO_same.cfg", Emit="= TRUE",
                                         **({"LitSizes": "= {1, 3}"} if thorough else {"SideKs": "= {0}", "LeafSizes": "= {}", "HandKinds": "= {}"}))}),
        "big": dict(module="MCRenderIOBig", cfg="d.cfg", workers=8 if thorough else 2, timeout=1500,
                    files={"d.cfg": cfg("RenderIO_big.cfg", Emit="= TRUE"), "MCRenderIOBig.tla": big_text}),
    }
    bl = "= {1, 3}" if thorough else "= {2}"
    jobs["bmc"] = dict(module="RenderIOBytes", cfg="e.cfg", workers=8 if thorough else 2, timeout=1500,
                       files={"e.cfg": cfg("RenderIOBytes_mc.cfg", DocLens=bl)})
    jobs["bgen"] = dict(module="RenderIOBytes", cfg="f.cfg", workers=1, timeout=1500,
                        files={"f.cfg": cfg("RenderIOBytes_mc.cfg", DocLens=bl, PoolAny="= FALSE", Emit="= TRUE")})
    for bug in sorted(BNEG):
        for inv, base in (("NoCarryOver", "RenderIOBytes_neg.cfg"), ("Exact", "RenderIOBytes_negexact.cfg")):
            jobs["bneg-%s-%s" % (bug, inv)] = dict(module="RenderIOBytes", cfg="n.cfg", workers=1, timeout=600,
                                                   files={"n.cfg": cfg(base, Bug='= "%s"' % bug)})
    for bug in NEG:
        jobs["neg-" + bug] = dict(module="MCRenderIO", cfg="n.cfg", workers=1, timeout=600,
                                  files={"n.cfg": cfg("RenderIO_neg.cfg", Bug='= "%s"' % bug, **NEG_EXTRA.get(bug, {}))})
    results = {}
    with cf.ThreadPoolExecutor(max_workers=16) as ex:
        fb = ex.submit(build)
        futs = {name: ex.submit(vlib.tlc, j.pop("module"), j.pop("cfg"), **j) for name, j in jobs.items()}
        for name, f in futs.items():
            results[name] = f.result()
            vlib.log("tlc %s: %d states, %.1fs" % (name, results[name].distinct, results[name].wall))
        binp = fb.result()

    # ---- MC verdicts ------------------------------------------------------------------------------
    for name in ("mc2", "mc3", "seq", "same", "big"):
        r = results[name]
        if not r.ok:
            raise vlib.InfraError("RenderIO model (%s) does not satisfy its invariants (%s): spec and code model disagree"
                                  % (name, r.violated))
        ck.add_tlc(r, "RenderIO " + name)
    for bug, allowed in NEG.items():
        r = results["neg-" + bug]
        if r.violated not in allowed:
            raise vlib.InfraError("negative config Bug=%s was not rejected (%s): the invariants are vacuous" % (bug, r.violated))
    for name in ("bmc", "bgen"):
        r = results[name]
        if not r.ok:
            raise vlib.InfraError("RenderIOBytes model (%s) does not satisfy its invariants (%s): spec and code model disagree"
                                  % (name, r.violated))
        ck.add_tlc(r, "RenderIOBytes " + name)
    for bug in sorted(BNEG):
        for inv in ("NoCarryOver", "Exact"):
            r = results["bneg-%s-%s" % (bug, inv)]
            if r.violated != inv:
                raise vlib.InfraError("negative config RenderIOBytes Bug=%s was not rejected by %s (%s): the invariant is vacuous"
                                      % (bug, inv, r.violated))
    ck.set("negative_configs_rejected", sorted(NEG) + sorted("bytespool:" + b for b in BNEG))

    # ---- GEN: every terminal behaviour replayed on real generated code --------------------------
    cases = []
    for name in ("mc2", "mc3", "seq", "same", "big"):
        cs = results[name].tagged("CASE")
        if not cs:
            raise vlib.InfraError("no terminal behaviours emitted by %s" % name)
        ck.add("behaviours_" + name, len(cs))
        cases += cs
    uniq = {}
    for c in cases:
        uniq.setdefault(json.dumps(c, sort_keys=True), c)
    cases = [uniq[k] for k in sorted(uniq)]
    caps = sorted({c["cap"] for c in cases})
    cpath = os.path.join(sc, "cases.ndjson")
    vlib.write_ndjson(cpath, cases)
    frac = 0.03 if thorough else 0.25
    total = dict(cases=0, renders=0, drift=0, doc_drift_programs=0, hook_calls=0, trace_events=0, programs=0,
                 same_writer_same_buffer=0, same_writer_same_buffer_after_failure=0)
    kinds = {}
    traces = []

    def replay(cap):
        ev = os.path.join(sc, "events-%d.ndjson" % cap)
        p = vlib.run([binp, "cases", cpath, str(cap), str(ck.seed), ev, str(frac)], check=False, timeout=3000)
        return cap, ev, p

    def fixtures():
        ev = os.path.join(sc, "events-fx.ndjson")
        p = vlib.run([binp, "fixtures", vlib.REPO, "3", ev], check=False, timeout=600)
        return ev, p

    with cf.ThreadPoolExecutor(max_workers=4) as ex:
        ffx = ex.submit(fixtures)
        outs = list(ex.map(replay, caps))
        fxev, fxp = ffx.result()
    for cap, ev, p in outs:
        s = vlib.harness_results(ck, _Filtered(p, failseen))
        for k in total:
            total[k] += s.get(k, 0)
        for k, v in s["plan_kinds"].items():
            kinds[k] = kinds.get(k, 0) + v
        traces.append(ev)
    if total["cases"] != len(cases):
        raise vlib.InfraError("harness replayed %d of %d emitted behaviours" % (total["cases"], len(cases)))
    need = ["err/none", "short/none", "zero/none", "none/expr", "none/leaf", "none/cancel", "none/cancelat", "err/expr",
            "short/leaf", "none/none", "collector-writer/err"]
    missing = [k for k in need if not kinds.get(k)]
    if missing:
        raise vlib.InfraError("fault plan kinds never replayed: %s" % missing)
    if total["same_writer_same_buffer_after_failure"] < 100:
        raise vlib.InfraError("renders to the same writer value hardly ever drew the buffer of the preceding failed render from the pool "
                              "(%d times): nothing was learnt about carry-over for one destination" % total["same_writer_same_buffer_after_failure"])
    ck.set("renders_to_the_same_writer_that_got_the_buffer_of_the_preceding_render",
           "%d (%d after a failed render)" % (total["same_writer_same_buffer"], total["same_writer_same_buffer_after_failure"]))
    if total["hook_calls"] < total["renders"]:
        raise vlib.InfraError("pool hooks fired %d times for %d renders: hook silent" % (total["hook_calls"], total["renders"]))
    sfx = vlib.harness_results(ck, _Filtered(fxp, failseen), "repository fixture: ")
    if sfx["renders"] < 100 or sfx["hook_calls"] < sfx["renders"]:
        raise vlib.InfraError("fixture run too small / hooks silent: %s" % sfx)
    traces.append(fxev)
    ck.set("behaviours_replayed", total["cases"])
    ck.set("programs", total["programs"])
    ck.set("renders_on_real_code", total["renders"] + sfx["renders"])
    ck.set("fixture_renders", sfx["renders"])
    ck.set("fault_plan_kinds", kinds)
    if total["drift"]:
        ck.set("model_drift_cases", total["drift"])
        ck.set("programs_whose_document_differs_from_the_model", total["doc_drift_programs"])

    # ---- BYTES: sequences over the root package's bytes.Buffer pool on ToGoHTML / the buffered handler ----
    bcases = {}
    for c in results["bgen"].tagged("BCASE"):
        bcases.setdefault(json.dumps([r["op"] for r in c["runs"]], sort_keys=True), c)
    bcases = [bcases[k] for k in sorted(bcases)]
    if len(bcases) < 1000:
        raise vlib.InfraError("only %d bytes-pool behaviours emitted by RenderIOBytes" % len(bcases))
    random.Random(ck.seed).shuffle(bcases)     # the pool is shared across sequences too: seeded order
    bpath = os.path.join(sc, "bcases.ndjson")
    vlib.write_ndjson(bpath, bcases)
    bev = os.path.join(sc, "events-bytes.ndjson")
    p = vlib.run([binp, "bytespool", bpath, str(ck.seed), bev], check=False, timeout=1500)
    sb = vlib.harness_results(ck, _Filtered(p, failseen), "bytes.Buffer pool: ")
    if sb["cases"] != len(bcases) or sb["renders"] != sum(len(c["runs"]) for c in bcases):
        raise vlib.InfraError("bytes-pool harness replayed %s of %d emitted behaviours" % (sb["cases"], len(bcases)))
    want_kinds = ["%s/%s/%s" % (e, k, o) for e in ("gohtml", "handler") for k in ("func", "templ") for o in ("ok", "fail")]
    if [k for k in want_kinds if not sb["plan_kinds"].get(k)]:
        raise vlib.InfraError("bytes-pool entry point / component / outcome combinations never replayed: %s" % sb["plan_kinds"])
    if sb["gets"] < sb["renders"] or sb["puts"] < sb["renders"] - sb["fails"]:
        raise vlib.InfraError("verifBytesPool hook silent: %d gets / %d puts for %d renders" % (sb["gets"], sb["puts"], sb["renders"]))
    if sb["reuse"] < 1 or (sb["reuse_after_failed_with_output"] < 1 and not sb["fails"]):
        raise vlib.InfraError("sync.Pool never handed the object of the preceding Put to the next Get (%d of %d gets; %d after a "
                              "failed render with output): the renders did not share buffers, nothing was learnt about carry-over"
                              % (sb["reuse"], sb["gets"], sb["reuse_after_failed_with_output"]))
    traces.append(bev)
    ck.set("bytes_pool_behaviours_replayed", sb["cases"])
    ck.set("bytes_pool_renders_on_real_code", sb["renders"])
    ck.set("bytes_pool_get_returned_object_of_preceding_put", "%d of %d gets (%d right after a failed render that had written output)"
           % (sb["reuse"], sb["gets"], sb["reuse_after_failed_with_output"]))
    ck.set("bytes_pool_kinds", sb["plan_kinds"])
    # binding self-test: the harness itself leaves bytes in the pooled object (write after release) -> must be reported
    p = vlib.run([binp, "bytespool", vlib.write_ndjson(os.path.join(sc, "bself.ndjson"), bcases[:20]), "1",
                  os.path.join(sc, "bself-ev.ndjson"), "poison"], check=False)
    if b'"sig":"NoCarryOver"' not in p.stdout:
        raise vlib.InfraError("binding self-test: bytes left in the pooled bytes.Buffer were not reported by the harness")

    # binding self-test: corrupted expectations must be reported by the harness
    # (a wrong evaluation count as a violation, a wrong document / sink as model drift)
    victim = next(c for c in cases if c["cap"] == caps[0] and len(c["runs"]) == 1 and c["runs"][0]["evals"] >= 1
                  and c["runs"][0]["res"] == "nil")
    bad1 = json.loads(json.dumps(victim)); bad1["runs"][0]["evals"] = 0
    bad2 = json.loads(json.dumps(victim)); bad2["runs"][0]["sink"] = bad2["runs"][0]["sink"][:-1]
    for bad, kind in ((bad1, b'"kind":"fail"'), (bad2, b'"kind":"drift"')):
        bpath = os.path.join(sc, "selftest.ndjson")
        vlib.write_ndjson(bpath, [bad])
        p = vlib.run([binp, "cases", bpath, str(caps[0]), "1", os.path.join(sc, "selftest-ev.ndjson"), "0"], check=False)
        if kind not in p.stdout:
            raise vlib.InfraError("binding self-test: a corrupted expectation was not reported by the harness (%s)" % kind.decode())
    ck.set("binding_selftest", "corrupted evaluation count reported as violation, corrupted sink as drift")

    # ---- VAL: pool hook events against the pool protocol -----------------------------------------
    lines = []
    for t in traces:
        with open(t) as fh:
            lines += [l for l in fh if l.strip()]
    evs = [json.loads(l) for l in lines]
    nb = max([e["buf"] for e in evs] + [1])
    tr = vlib.tlc("TraceRenderPool", "t.cfg", workers=1, timeout=1200,
                  files={"t.cfg": cfg("RenderPool_trace.cfg", NB="= %d" % nb), "trace.ndjson": "".join(lines)})
    rep = tr.tagged("TRACE")
    if not tr.ok or len(rep) != 1 or rep[0]["lines"] != len(lines):
        raise vlib.InfraError("trace validation did not consume the whole trace (%s of %d lines)" %
                              (rep[0]["lines"] if rep else "?", len(lines)))
    rep = rep[0]
    ck.add_tlc(tr, "TraceRenderPool (pool events of the replays)")
    if min(rep["cnt"][k] for k in ("acquire", "existing", "flush", "release", "begin", "end", "get", "put")) < 50:
        raise vlib.InfraError("too few pool events of some kind recorded: %s" % rep["cnt"])
    bykind = {k: n for k, n in rep["vcnt"].items() if n}     # every violation is counted by kind ...
    shown = {}
    for v in rep["viol"]:                                    # ... the first 15 of each kind are listed with their line
        if v["kind"].startswith("Harness"):
            raise vlib.InfraError("inconsistent trace: %s at line %d" % (v["kind"], v["line"]))
        shown[v["kind"]] = shown.get(v["kind"], 0) + 1
        if shown[v["kind"]] > 3:
            continue            # a few examples per kind
        e = evs[v["line"] - 1]
        ctx = evs[max(0, v["line"] - 8): v["line"] + 2]
        ck.violation(v["kind"], "pool hook trace of the real code leaves the pool protocol at event %s" % json.dumps(e),
                     {"violation": v, "events_around": ctx})
    if bykind:
        print("TRACE-VIOLATIONS property=C10 " + " ".join("%s=%d" % kv for kv in sorted(bykind.items())))
    ck.set("trace_violations_by_kind", bykind)
    ck.set("pool_events_validated", len(lines))
    ck.set("pool_event_counts", rep["cnt"])

    # trace self-test: Put before the last use must be rejected by the trace spec
    trace_selftest(ck, cfg("RenderPool_trace.cfg", NB="= 8"))

    ck.set("traces_validated_against_impl", total["renders"] + sfx["renders"] + sb["renders"])
    ck.set("exhaustive", True)
    ck.set("bounds", {"exhaustive_programs": "op grammar {L1,L3,E1,E4,leaf2,slot,call,cb,flush,join,hcb-passthrough,hcb-collector} up to %d ops / depth 3 at Cap=2; "
                                             "{L1,L2,L5,E2,E4,leaf4,...} up to %d ops at Cap=3" % ((4, 3) if thorough else (3, 2)),
                      "random_programs": "%d seeded programs of 3..6 ops, depth <= 3, Cap 2 and 3" % nbig,
                      "faults": "writer fault at every offset 0..len x {err, short, zero}; every expression / leaf component failing; "
                                "ctx cancelled before start / by expression j; pairs writer x (expression|leaf)",
                      "sequences": "3 renders (any fault, any fault, none), pool Get nondeterministic, programs up to 2 ops; once with a writer "
                                   "per render and once with ONE writer value that fails, recovers and is rendered to again; every other "
                                   "replay chain (plan, next plan, none) also goes to one writer value",
                      "bytes_pool": "all sequences of 3 renders over {ToGoHTML, buffered Handler} x {ComponentFunc, generated template} x "
                                    "documents of %s chunks x {ok, error after k = 0..n chunks}" % bl[2:]})
    ck.set("rule", "every terminal state of the TLC runs (program x cap x StringWriter? x fault plan [x 3-render sequence]) replayed on real "
                   "generated code; distinct = distinct (program, cap, sw, plans) tuples")
    ck.assume("runtime.DefaultBufferSize is set to the model's Cap (2 or 3 bytes) before the first Buffer exists; the protocol does not "
              "depend on the absolute size, only on write sizes relative to it (<, =, > Cap are all explored)")
    ck.assume("a short or zero write without error (io.Writer contract violation) is followed by (0, error) on every later call; "
              "a writer that returns (0, nil) forever makes bufio.Writer loop, which is outside the property")
    ck.assume("expression kinds with their own generated error path: text { e }, attribute name={ e }, script {{ e }} outside and inside a "
              "JS string literal (all with a (string, error) call); css / style / spread / conditional attribute expressions are not driven")
    ck.assume("expression/leaf faults are identified by evaluation order; documents are ASCII (EscapeString is the identity on them)")
    ck.assume("bytes.Buffer pool replay: all renders run on one goroutine, so sync.Pool's per-P slot returns the object of the last Put; "
              "measured from the hook events (fails closed if it never happened)")
    ck.assume("programs are instances of the interp combinator: every component of a program is a generated template, except the leaf "
              "component and the two hand-written callees of a call with block (pass-through: children into the given writer; "
              "collector: children into a possibly failing writer of its own, then forwarded); one collector writer per render")
    ck.finish()


vlib.main(main)
