---------------------------- MODULE TraceSinksJs ----------------------------
(* C03 VAL -- outputs recorded from the REAL code are validated against the specification's consumer.

   trace.ndjson, one case per line:
     [id, pos, str (TRUE: string value), raw (symbols of the string), tree (structured value), out (symbols of
      the real dynamic output at that position), viol (the verdict of the harness's Go port of the consumer)]
   For every line the spec runs its own consumer (SinksJsCases!Judge: HTML script data / attribute value x
   JS lexer) over the real output, evaluates the C03 clauses, and compares with the logged verdict of the Go
   port (a disagreement means the port is not the spec's consumer: machinery failure, not a violation).
   Cases are batched: one TLC run validates thousands; failing ids are accumulated, not first-only.   *)
EXTENDS SinksJsCases

JsTrace == ndJsonDeserialize("trace.ndjson")

VARIABLES i, fails, mism
tvars == <<i, fails, mism>>

TInit == /\ i = 1 /\ fails = <<>> /\ mism = <<>>
         /\ inp = <<>> /\ kind = "trace"
         /\ pos = "Bare" /\ phase = "pre" /\ cs = CsInit("Bare") /\ decok = TRUE /\ lbl = [op |-> "init"]

LineVerdict(e) ==
    LET isString == e.str
        jt == IF isString THEN JsonString(e.raw) ELSE JsonText(e.tree)
        raw == IF isString THEN e.raw ELSE <<>>
    IN  Judge(PosFor(e.pos, isString), raw, jt, isString, e.out).viol

TNext == /\ i <= Len(JsTrace)
         /\ LET e == JsTrace[i]
                v == LineVerdict(e)
            IN /\ fails' = IF v # "" THEN Append(fails, [id |-> e.id, viol |-> v]) ELSE fails
               /\ mism' = IF v # e.viol THEN Append(mism, [id |-> e.id, spec |-> v, port |-> e.viol]) ELSE mism
         /\ i' = i + 1
         /\ UNCHANGED <<inp, kind, pos, phase, cs, decok, lbl>>

TView == tvars
\* printed once, when every line has been consumed
TDone == i = Len(JsTrace) + 1 => PrintT(<<"VAL", ToJson([n |-> i - 1, fails |-> fails, mism |-> mism])>>)
=============================================================================
