\* C18 conn GEN: simulated behaviours = peer scripts (reply order, delays, drops, cancellations, peer traffic,
\* stray responses and peer calls with confusable typed ids).
CONSTANTS
  NC = 3
  NN = 2
  MaxPN = 1
  MaxPC = 1
  MaxStray = 1
  UseWriteMu = TRUE
  ChanCap = 1
  RegisterFirst = TRUE
  AtomicAlloc = TRUE
  IdDecode = "strict"
  IdVocab = "full"
  KindShift = 0
  NullResult = "ok"
INIT SimInit
NEXT SimNext
INVARIANTS Matched UniqueIds IdTypePreserved DispatchedToOwner PeerCallsEchoed FramesNeverInterleave ReaderNeverBlocks ReaderAlive PendingExact PrintHist
CHECK_DEADLOCK FALSE
