---------------------------- MODULE TraceSinksCss ----------------------------
(* C05 VAL -- verdicts and outputs recorded from the REAL code are validated against the specification.
   trace.ndjson, one case per line:
     [id, cls, ctx, inp (symbols of the value), acc (TRUE: the real sanitiser returned the value unchanged),
      css (symbols of the text the CSS parser receives from the real output), rawattr (symbols of the raw attribute
      value as rendered; empty for the other sinks), br / ev / sig (what the harness's Go port computed)]
   The spec re-computes: model acceptance and branch for inp (NFA run of the acceptor), the consumer's event on
   the REAL css text, and the signature; a disagreement with the port is a machinery error.                  *)
EXTENDS SinksCssCases

CssTrace == ndJsonDeserialize("trace.ndjson")
VARIABLES i, fails, mism

TInit == /\ i = 1 /\ fails = <<>> /\ mism = <<>>
         /\ inp = <<>> /\ ckind = "Regular"
         /\ cls = "Regular" /\ ctx = "style" /\ phase = "in" /\ acc = AccInit("Regular") /\ con = CssInit /\ con1 = CssInit
         /\ raw = <<>> /\ res = [br |-> "", ev |-> "", sig |-> ""] /\ lbl = [op |-> "init"]

LineJudge(e) ==
    LET ac == Accepting(e.cls, e.inp)
        b == IF ac.found THEN AccAccept(e.cls, ac.a) ELSE ""
        ev == IF e.acc THEN ContextEvent(e.cls, e.ctx, e.css, e.rawattr) ELSE ""
        ev1 == ConsumerEvent(e.cls, "attr", e.inp)
        sig == IF ev = "" THEN ""
               ELSE IF ev = "EndAttr" THEN "StyleAttr.NotEscaped"
               ELSE IF b = "" THEN e.cls \o ".NotAcceptedByModel"
               ELSE IF e.ctx = "attr" /\ ev1 = "" THEN "StyleAttr.DoubleEscape"
               ELSE Attribute(e.cls, ac.a, b)
    IN  [br |-> b, ev |-> ev, sig |-> sig]

TNext == /\ i <= Len(CssTrace)
         /\ LET e == CssTrace[i]
                v == LineJudge(e)
            IN /\ fails' = IF v.ev # "" THEN Append(fails, [id |-> e.id, sig |-> v.sig, ev |-> v.ev]) ELSE fails
               /\ mism' = IF v.br # e.br \/ v.ev # e.ev \/ v.sig # e.sig
                          THEN Append(mism, [id |-> e.id, spec |-> v, port |-> [br |-> e.br, ev |-> e.ev, sig |-> e.sig]]) ELSE mism
         /\ i' = i + 1
         /\ UNCHANGED <<inp, ckind, cls, ctx, phase, acc, con, con1, raw, res, lbl>>
TView == <<i, fails, mism>>
TDone == i = Len(CssTrace) + 1 => PrintT(<<"VAL", ToJson([n |-> i - 1, fails |-> fails, mism |-> mism])>>)
=============================================================================
