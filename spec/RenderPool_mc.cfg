\* C14: G goroutines x M renders, all interleavings of get/reset/write/flush/put.
CONSTANTS
  G <- G2
  M = 2
  DocLen = 2
  NBuf = 2
  FailAt <- Fail11
  DevMode = FALSE
  MaxVer = 1
  Scratch = TRUE
  DestKinds <- PlainOnly
  Stall <- NoStall
  Bug = "none"
INIT Init
NEXT Next
INVARIANTS TypeOK ExclusiveBuffer Isolated OwnDestinationOnly IndependentOfStalledWriters MutexProtectsCache LiteralsAreAVersion UniqueIds
CHECK_DEADLOCK FALSE
