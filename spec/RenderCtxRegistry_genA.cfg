\* C12 emission A: every edge of the one-context graph (Repaired as detected by the check).
CONSTANTS
  Ctxs <- Ctx1
  Modes = {"plain", "mw", "fresh"}
  Scripts = {"s1", "s2"}
  Classes = {"k1", "k2"}
  BlockHandles = {"h1", "h2"}
  FixedHandles = {"g1"}
  RegSeq <- RegK1
  OnSeqs <- OnSeqsFull
  ClassExprs <- ClassExprsFull
  Repaired = {}
  Variant = "asCoded"
  NonceCtxs = {"c1"}
  MaxNonces = 1
  MaxSteps = 99
  EmitEdges = TRUE
INIT Init
NEXT Next
VIEW View
ACTION_CONSTRAINT Emit
INVARIANTS TypeOK RegistryMatchesDocument
PROPERTIES ViolationsAreTagged StylesheetServesRegistered ContextsIndependent NonceKeepsRegistry
CHECK_DEADLOCK FALSE
