#!/usr/bin/env python3
"""C15 -- `templ generate` output is a deterministic function of the tree (spec/Generate.tla).

MC   : Generate.tla -- walker / dispatcher / semaphore-bounded workers (HandleEvent in its real steps) / post-generation
       handler / main, the channel protocol with its closing order, two runs composed. All schedules for every tree
       of the protocol universe (<= MaxFiles files), every flag combination (keep-orphaned, lazy, include-version),
       W in {1,2,3}; the skip-rule universe (every directory path of depth <= 2 over {d, vendor, node_modules, .x, _x},
       plus the near misses of the rule -- multivendor, old_node_modules, vendored, node_modules2, Vendor, x.y, x_, a_b,
       which must be walked -- at depth 1, below a plain and below a skipped parent, above a plain child, and skipped
       names below a near-miss parent; the rule is modelled on the spelling of the names exactly as
       internal/skipdir.ShouldSkip is coded); TLC's deadlock check is ON. Negative configs that TLC must reject:
       UpsertHash without the mutex (NoDataRace), errs closed before the workers finish (NoPanic), main not reading
       errs (Deadlock), a failing worker keeps its semaphore slot (Deadlock), a nondeterministic generator
       (SecondRunChangesNothing), x.templ -> x_templ.go cut at the first ".templ" of the path (TargetNextToSource), the three
       deviations of the pinned code -- events for directories named *.templ (ExitStatusIffSomeFileFailed), the orphan test
       accepting a directory (OrphansGoneUnlessKept), the root's own name passed to the skip rule
       (SiblingEqualsSoloGeneration) --, underscore / dot directories not skipped (NothingElseTouched), vendor / node_modules compared
       with HasSuffix / HasPrefix / case-insensitively, dot / underscore looked for anywhere in the name
       (SiblingEqualsSoloGeneration).
GEN  : one record per terminated behaviour (tree, flags, predicted tree + exit status after run 1 and run 2) is
       materialised in a scratch directory; the real generatecmd.Run is executed in-process from a -race build with
       W in {1, 2, 8}, twice; the whole tree (presence, bytes, modification time of untouched files) and the error
       are compared. Generated files are compared with the real parser+generator+gofmt on that file alone, computed
       at least three times (a generator whose output is not a function of the file is reported as
       SoloGeneration.NotAFunction); the templates exercise the generator's per-element collections (several different
       on*/hx-on: handlers, class/css expressions, spread / conditional attributes). Every run has a watchdog; a run
       that does not return is a violation iff two goroutine dumps confirm the dispatcher blocked on the semaphore.
VAL  : with the verif hook of cmd/templ/generatecmd present, the worker/write/error events of those runs are
       validated by TLC against spec/TraceGenerate.tla, and the schedule is perturbed at the hook points.
       Without the hook the check says so and works from public observation only.
"""
import concurrent.futures as cf
import json, os, re, sys
sys.path.insert(0, os.path.join(os.path.dirname(os.path.abspath(__file__)), "..", "lib"))
import vlib


def cfg_text(name, **repl):
    text = open(os.path.join(vlib.SPEC, name)).read()
    for k, v in repl.items():
        text, n = re.subn(r"(?m)^(\s*%s\s*(?:=|<-)\s*).*$" % k, lambda m: m.group(1) + str(v), text)
        if n != 1:
            raise vlib.InfraError("cfg %s: constant %s not found" % (name, k))
    return text


def main():
    ck = vlib.Check("C15", "model_checking")
    thorough = ck.tier == "thorough"
    corrupt = os.environ.get("VERIF_SELFTEST_CORRUPT") == "1"     # "2": corrupt the recorded trace instead
    hook_file = os.path.join(vlib.REPO, "cmd", "templ", "generatecmd", "verifhook_on.go")
    hooks = os.path.exists(hook_file) and "VerifHook" in open(hook_file).read()
    if not hooks and os.environ.get("VERIF_REQUIRE_HOOKS") == "1":
        raise vlib.InfraError("hook symbol generatecmd.VerifHook is missing in %s (apply hooks/C15-generatecmd-events.diff)" % vlib.REPO)

    # --- MC + emission: all TLC runs concurrently, the harness is built meanwhile ----------------------
    mcs = [("TreesProto", 2, "{1, 2, 3}", "TRUE"), ("TreesFocus", 4, "{1, 2, 3}", "TRUE")]
    if thorough:
        mcs = [("TreesProto", 3, "{1, 2, 3}", "TRUE"), ("TreesFocus", 4, "{1, 2, 3}", "TRUE"), ("TreesFour", 4, "{1, 2, 3}", "FALSE")]
    negs = [("mutex", "Generate_neg_mutex.cfg", {}, "NoDataRace"), ("errs", "Generate_neg_errs.cfg", {}, "NoPanic"),
            ("main", "Generate_neg_main.cfg", {}, "Deadlock"),
            ("slot-not-released-on-error", "Generate_neg_slot.cfg", {}, "Deadlock"),
            ("nondeterministic-generator", "Generate_neg_nondet.cfg", {}, "SecondRunChangesNothing"),
            ("target-cut-at-first-.templ", "Generate_neg_target.cfg", {}, "TargetNextToSource"),
            ("target-cut-at-first-.templ (on the tree)", "Generate_neg_target2.cfg", {}, "SiblingEqualsSoloGeneration"),
            ("walk-emits-directories (pinned code)", "Generate_neg_walkdirs.cfg", {}, "ExitStatusIffSomeFileFailed"),
            ("orphan-test-accepts-directory (pinned code)", "Generate_neg_orphanstat.cfg", {}, "OrphansGoneUnlessKept"),
            ("root-name-skipped (pinned code)", "Generate_neg_root.cfg", {}, "SiblingEqualsSoloGeneration")]
    for rule, expect in (("nounderscore", "NothingElseTouched"), ("nodot", "NothingElseTouched"),
                         ("suffix", "SiblingEqualsSoloGeneration"), ("prefix", "SiblingEqualsSoloGeneration"),
                         ("foldcase", "SiblingEqualsSoloGeneration"), ("contains", "SiblingEqualsSoloGeneration")):
        negs.append(("skip-" + rule, "Generate_neg_skip.cfg", {"SkipRule": '"%s"' % rule}, expect))
    gen_files = 3 if thorough else 2
    tags = ("verif", "c15hook") if hooks else ("verif",)
    with cf.ThreadPoolExecutor(max_workers=16) as ex:
        fbuild = ex.submit(vlib.go_build, "./c15", "c15", tags=tags, race=True)
        fmc = [ex.submit(vlib.tlc, "MCGenerate", "mc.cfg", files={"mc.cfg": cfg_text("Generate_mc.cfg", Trees=trees, MaxFiles=maxfiles, Ws=ws, TwoRuns=two)},
                         workers=12 if thorough else 6, timeout=2400, xmx="10g") for trees, maxfiles, ws, two in mcs]
        fsk = ex.submit(vlib.tlc, "MCGenerate", "Generate_skip.cfg", workers=8 if thorough else 4, timeout=1200, xmx="8g")
        fpath = ex.submit(vlib.tlc, "MCGenerate", "Generate_path.cfg", workers=4, timeout=1200, xmx="8g")
        # the pinned code's deviations, each alone and all together (attribution of failing cases only)
        devs = [{"WalkRule": '"coded"', "OrphanStat": '"fileonly"', "RootRule": '"exempt"'},
                {"WalkRule": '"filesonly"', "OrphanStat": '"coded"', "RootRule": '"exempt"'},
                {"WalkRule": '"filesonly"', "OrphanStat": '"fileonly"', "RootRule": '"coded"'},
                {"WalkRule": '"coded"', "OrphanStat": '"coded"', "RootRule": '"exempt"'},
                {"WalkRule": '"coded"', "OrphanStat": '"coded"', "RootRule": '"coded"'}]
        fcoded = [ex.submit(vlib.tlc, "MCGenerate", "c.cfg", files={"c.cfg": cfg_text("Generate_gen_coded.cfg", **d)}, workers=1, timeout=1200, xmx="4g") for d in devs]
        fneg = [ex.submit(vlib.tlc, "MCGenerate", "n.cfg", files={"n.cfg": cfg_text(name, **repl)}, workers=1, timeout=600)
                for _, name, repl, _ in negs]
        fgen = ex.submit(vlib.tlc, "MCGenerate", "gen.cfg", files={"gen.cfg": cfg_text("Generate_gen.cfg", MaxFiles=gen_files)},
                         workers=4, timeout=2400, xmx="8g")       # emission order is irrelevant: the cases are sorted below
        for (trees, maxfiles, ws, two), f in zip(mcs, fmc):
            mc = f.result()
            if not mc.ok:
                raise vlib.InfraError("Generate model violates %s (%s): spec inconsistent" % (mc.violated, trees))
            vlib.log("MC %s done" % trees)
            ck.add_tlc(mc, "Generate_mc %s MaxFiles=%d W=%s two_runs=%s" % (trees, maxfiles, ws, two))
        sk = fsk.result()
        if not sk.ok:
            raise vlib.InfraError("Generate model violates %s on the skip universe" % sk.violated)
        ck.add_tlc(sk, "Generate_skip (31 basic + 36 near-miss directory paths, each alone)")
        pm = fpath.result()
        if not pm.ok:
            raise vlib.InfraError("Generate model violates %s on the path-shape universe" % pm.violated)
        ck.add_tlc(pm, "Generate_path (.templ inside directory names / twice in the base name, directories named *.templ, roots with a skip name; W in {1,2})")
        coded = [f.result() for f in fcoded]
        if not all(c.ok for c in coded):
            raise vlib.InfraError("emission with the pinned code's deviations failed")
        for (nm, name, repl, expect), f in zip(negs, fneg):
            neg = f.result()
            if neg.violated != expect:
                raise vlib.InfraError("negative config %s (%s): expected %s, TLC reported %s" % (name, nm, expect, neg.violated))
        vlib.log("skip + negative configs done")
        ck.set("negative_configs_rejected", [n[0] for n in negs])
        ck.set("deadlock_check", True)

        # --- GEN: emission -----------------------------------------------------------------------
        gen = fgen.result()
        binp = fbuild.result()
    if not gen.ok:
        raise vlib.InfraError("emission run failed: %s" % gen.violated)
    cases = gen.tagged("CASE")
    ck.add_tlc(gen, "Generate_gen (TreesProto<=%d + skip universe incl. near misses + forests + focus trees, W=1)" % gen_files)
    seen, uniq = set(), []
    for c in cases:
        k = json.dumps([c["files"], c["flags"]], sort_keys=True)
        if k in seen:
            raise vlib.InfraError("two different terminal states for one configuration: the model is not deterministic: %s" % k)
        seen.add(k)
        uniq.append((k, c))
    uniq = [c for _, c in sorted(uniq, key=lambda x: x[0])]
    # what the specification predicts for the pinned code's deviations (directory events, orphan test on directories,
    # root name passed to the skip rule): attached to the cases it differs on, for attribution only
    deviating = {}
    by_key = {json.dumps([c["files"], c["flags"]], sort_keys=True): c for c in uniq}
    for c in uniq:
        c.pop("why", None)
    for run in coded:
        for cc in run.tagged("CASE"):
            c = by_key.get(json.dumps([cc["files"], cc["flags"]], sort_keys=True))
            if c is None or not cc["why"]:
                continue
            c["special"] = True      # the pinned code's recorded events differ here even where the outcome does not: not traced
            if not any(cc[k] != c[k] for k in ("final1", "status1", "final2", "status2")):
                continue
            a = {k: cc[k] for k in ("why", "final1", "status1", "final2", "status2")}
            if a not in c.setdefault("alts", []):
                c["alts"].append(a)
                for w in cc["why"]:
                    deviating[w] = deviating.get(w, 0) + 1
    for why in ("WalkFiles.DirectoryMatchesPattern", "OrphanTest.DirectoryCountsAsTemplate", "WalkFiles.RootSkipped"):
        if not deviating.get(why):
            raise vlib.InfraError("no emitted case exercises %s" % why)
    ck.set("cases_exercising_a_deviation_of_the_pinned_code", deviating)
    shapes = sum(1 for c in uniq if any(".templ" in d for f in c["files"] for d in f["dir"]) or any(f["name"].count(".templ") > 1 for f in c["files"]))
    if shapes < 50:
        raise vlib.InfraError("only %d emitted cases have '.templ' elsewhere than as the final extension" % shapes)
    ck.set("cases_with_dot_templ_inside_the_path", shapes)
    vlib.log("emitted %d cases" % len(uniq))
    if len(uniq) < 200:
        raise vlib.InfraError("only %d cases emitted" % len(uniq))
    sc = vlib.scratch()
    cpath = os.path.join(sc, "cases.ndjson")
    vlib.write_ndjson(cpath, uniq)

    # --- GEN/VAL: the real generatecmd.Run -----------------------------------------------------------
    work = os.path.join(sc, "c15work")
    os.makedirs(work)
    tpath = os.path.join(sc, "trace.ndjson")
    reps = 10 if thorough else 2                  # hooked (recorded + perturbed) repetitions per case
    max_hooked = 8000 if thorough else 600
    env = vlib.goenv()
    env["GORACE"] = "halt_on_error=1 exitcode=66"
    max_traced = 1500 if thorough else 300
    args = [binp, "run", cpath, work, str(ck.seed), str(reps), tpath if hooks else "-", str(max_hooked), str(max_traced)]
    if corrupt:
        args.append("corrupt")
    p = vlib.run(args, check=False, timeout=3000, env=env)
    err = (p.stderr or b"").decode(errors="replace")
    if p.returncode == 66 or "WARNING: DATA RACE" in err:
        m = re.search(r"WARNING: DATA RACE(.*?)(?:={10,}|$)", err, re.S)
        ck.violation("NoDataRace.RaceDetector", "the race detector reported a data race inside generatecmd.Run", {"report": (m.group(1) if m else err)[:6000]})
        ck.finish()
    if "fatal error: concurrent map" in err:
        ck.violation("NoDataRace.ConcurrentMapAccess", "the Go runtime aborted generatecmd.Run: concurrent map access", {"report": err[:4000]})
        ck.finish()
    if "panic: send on closed channel" in err:
        ck.violation("NoPanic.SendOnClosedChannel", "generatecmd.Run panicked: send on closed channel", {"report": err[:4000]})
        ck.finish()
    s = vlib.harness_results(ck, p)
    vlib.log("harness done: %d runs" % s["runs"])
    if s.get("aborted"):
        # generatecmd.Run hung (confirmed, reported above as a violation); the remaining runs were not executed
        if not ck._nviol and not ck.known_hit:
            raise vlib.InfraError("harness aborted without reporting a violation")
        ck.set("aborted_after_runs", s["runs"])
        ck.finish()
    ordinary = sum(1 for c in uniq if not c.get("special"))
    want_hooked = 0 if not hooks else (min(max_hooked, ordinary * reps) if max_hooked else ordinary * reps)
    if s["cases"] != len(uniq) or s["runs"] != s["jobs"] or s["jobs"] != len(uniq) * 3 + want_hooked:
        raise vlib.InfraError("harness executed %s of %d x 3 + %d runs" % (s["runs"], len(uniq), want_hooked))
    if s["hooks"] != hooks:
        raise vlib.InfraError("hook detection and harness build disagree")
    ck.set("cases", s["cases"])
    ck.set("real_runs", s["runs"] * 2)
    ck.set("worker_counts", s["worker_counts"])
    ck.set("hooked_runs", s["hooked_runs"] * 2)
    ck.set("hooks_present", hooks)
    ck.set("second_runs_that_regenerated", s["second_runs_regenerating"])
    ck.set("watchdog_seconds_per_run", s["watchdog_seconds"])
    if ck._nviol == 0 and s["second_runs_regenerating"] < len(uniq) // 4:
        raise vlib.InfraError("only %d second runs rewrote a file: SecondRunChangesNothing is not exercised" % s["second_runs_regenerating"])
    hang_cases = [c for c in uniq if sum(1 for f in c["files"] if f["c"] in ("unparsable", "badgo") and not f["dir"]) >= 1
                  and any(f["c"] == "good" for f in c["files"])]
    hang2 = [c for c in uniq if sum(1 for f in c["files"] if f["c"] in ("unparsable", "badgo") and not f["dir"]) >= 2
             and any(f["c"] == "good" and f["dir"] == ["d"] for f in c["files"])]
    if not hang_cases or not hang2:
        raise vlib.InfraError("the case set lacks trees with as many failing files as workers (W=1: %d, W=2: %d) in front of a good file" % (len(hang_cases), len(hang2)))
    ck.set("cases_with_failing_files_ge_workers", {"W=1": len(hang_cases), "W=2": len(hang2)})
    if s["error_count_drift"]:
        ck.add("model_drift_cases", s["error_count_drift"])
        ck.notes.append("model drift: the error count in the message differs from the number of failing files in %d runs" % s["error_count_drift"])

    if hooks:
        if ck._nviol == 0 and (s["hook_events"] < 8 * s["hooked_runs"] or s["traced_runs"] == 0):
            raise vlib.InfraError("the hook fired only %d times in %d runs" % (s["hook_events"], s["runs"]))
        if ck._nviol == 0 and s["perturbations"] == 0:
            raise vlib.InfraError("no schedule perturbation happened")
        trace = open(tpath).read()
        if os.environ.get("VERIF_SELFTEST_CORRUPT") == "2":
            # binding self-test of VAL: one recorded "write" is turned into a "remove" that never happened
            trace = trace.replace('"ev":"write"', '"ev":"remove"', 1)
        nlines = trace.count("\n")
        kinds = set(re.findall(r'"ev":"([a-z-]+)"', trace))
        need = {"reset", "event", "start", "modtime", "hash", "write", "error", "post", "remove", "end", "workers-done", "close-errs", "errs-drained", "exit"}
        if not need <= kinds and ck._nviol == 0:
            raise vlib.InfraError("hook events never seen: %s" % sorted(need - kinds))
        if ck._nviol == 0:
            tr = vlib.tlc("TraceGenerate", "Generate_trace.cfg", files={"trace.ndjson": trace}, workers=1, timeout=2400, xmx="8g")
            hwm = tr.tagged("HWM")
            if tr.violated and tr.violated != "Deadlock":
                ck.violation("Trace." + tr.violated, "a recorded execution of generatecmd.Run violates %s of Generate.tla" % tr.violated,
                             {"tlc_tail": "\n".join(tr.out.splitlines()[-60:])})
            elif not hwm:
                raise vlib.InfraError("trace validation printed no high-water mark")
            elif hwm[-1]["hwm"] != nlines + 1:
                lines = trace.splitlines()
                at = hwm[-1]["hwm"]
                start = max(i for i in range(min(at, len(lines))) if '"reset"' in lines[i]) if at > 0 else 0
                ck.violation("Trace.NotABehaviourOfTheSpec", "a recorded execution of generatecmd.Run is not a behaviour of Generate.tla (line %d of the run)" % (at - start),
                             {"run": [json.loads(x) for x in lines[start:min(at + 3, len(lines))]], "first_unexplained_line": at - start})
            else:
                ck.add_tlc(tr, "TraceGenerate (%d lines, %d runs)" % (nlines, s["traced_runs"]))
                ck.set("traces_validated_against_impl", s["traced_runs"])
                ck.set("trace_lines", nlines)
        ck.set("hook_events", s["hook_events"])
        ck.set("perturbations", s["perturbations"])
    else:
        print("NOTE property=C15: hook generatecmd.VerifHook not present in %s -- trace validation and schedule perturbation skipped; "
              "tree/exit-status replay and the race detector still run (apply hooks/C15-generatecmd-events.diff)" % vlib.REPO)
        ck.notes.append("degraded: verif hook missing, VAL and perturbation skipped")
        ck.set("traces_validated_against_impl", 0)
    ck.set("evaluations", s["runs"] * 2)
    ck.set("bounds", {"mc": [list(m) for m in mcs], "gen_max_files": gen_files, "dir_paths": 31 + 36,
                      "near_miss_dir_names": ["multivendor", "old_node_modules", "vendored", "node_modules2", "Vendor", "x.y", "x_", "a_b"]})
    near = sum(1 for c in uniq if any(d in ("multivendor", "old_node_modules", "vendored", "node_modules2", "Vendor", "x.y", "x_", "a_b")
                                      for f in c["files"] for d in f["dir"]))
    if near < 36 * 8:
        raise vlib.InfraError("only %d emitted cases contain a near-miss directory name" % near)
    ck.set("cases_with_near_miss_directory_names", near)
    ck.set("rule", "every terminated behaviour of Generate.tla for the emission universe (one per tree x flags), each executed with W in {1,2,8} (8 at a time, race detector) and, with the hook, %d recorded+perturbed repetitions with W in {2,8}; every run twice" % reps)
    ck.assume("-lazy trusts modification times: a newer _templ.go is left alone even if its content differs (modelled as specified by the flag)")
    ck.assume("real goroutine schedules are sampled (W, repetitions, perturbation, race detector); all schedules are explored in the model only")
    ck.assume("-include-timestamp is excluded (output not a function of the tree by design)")
    ck.finish()


vlib.main(main)
