--------------------------- MODULE TraceRenderPool ---------------------------
(* Trace validation (VAL) of the pool protocol for C10 and C14.

   trace.ndjson holds the events of the `verif` pool hooks of the real code (runtime.GetBuffer /
   ReleaseBuffer, templ.GetBuffer / ReleaseBuffer) in the order of a global sequence number taken at
   the hook, plus begin/end markers of each render written by the harness:
       begin r | acquire b | existing b | flush b err | release b | get b | put b | end r err
   Every event carries the render r that was running on the calling goroutine.  The state is the
   pool-protocol state of RenderPool.tla (holders, pooled -- module RenderPoolOps) and each event
   applies the corresponding operator.  The spec consumes the whole trace and collects every line at
   which the real code left the protocol:
       ExclusiveBuffer.*   a buffer handed out while held / touched by a render that does not hold it
                           (flush after release = Put before the last use)
       NoCarryOver.*       an acquired buffer is not empty with a nil error / not attached to this render's writer
       OneOwner.*          a nested component acquired a second buffer, a render returned while holding one *)
EXTENDS Integers, Sequences, FiniteSets, TLC, Json, RenderPoolOps

CONSTANTS NB,         \* buffer object ids are 1..NB
          CheckWriter \* TRUE: the harness gives writer id = render id, so acquire must report it (0 = a writer without id)

Trace == ndJsonDeserialize("trace.ndjson")

VARIABLES i, hr, pr, hb, pb, active, viol, cnt
vars == <<i, hr, pr, hb, pb, active, viol, cnt>>

Kinds == {"begin", "end", "acquire", "existing", "flush", "release", "get", "put"}

Init == /\ i = 0
        /\ hr = [b \in 1..NB |-> {}] /\ pr = {}
        /\ hb = [b \in 1..NB |-> {}] /\ pb = {}
        /\ active = {} /\ viol = <<>>
        /\ cnt = [k \in Kinds |-> 0]

Holds(h, r) == \E b \in 1..NB : r \in h[b]
V(line, kind) == [line |-> line, kind |-> kind]
AddIf(s, c, v) == IF c THEN Append(s, v) ELSE s

Step ==
    /\ i < Len(Trace)
    /\ LET e == Trace[i + 1]
           n == i + 1
           r == e.r
           b == e.buf
       IN
       /\ i' = n
       /\ cnt' = [cnt EXCEPT ![e.ev] = @ + 1]
       /\ CASE e.ev = "begin" ->
                 /\ active' = active \cup {r}
                 /\ viol' = AddIf(viol, r \in active, V(n, "Harness.RenderBeginTwice"))
                 /\ UNCHANGED <<hr, pr, hb, pb>>
            [] e.ev = "end" ->
                 /\ active' = active \ {r}
                 /\ viol' = AddIf(viol, Holds(hr, r) \/ Holds(hb, r), V(n, "OneOwner.HeldAfterReturn"))
                 /\ UNCHANGED <<hr, pr, hb, pb>>
            [] e.ev = "acquire" ->                                   \* GetBuffer: Get + Reset
                 /\ hr' = HGet(hr, r, b) /\ pr' = PGet(pr, b)
                 /\ viol' = AddIf(AddIf(AddIf(AddIf(viol,
                                ~GetLegal(hr, r, b), V(n, "ExclusiveBuffer.AcquireWhileHeld")),
                                e.dirty, V(n, "NoCarryOver.DirtyAcquire")),
                                CheckWriter /\ e.w # 0 /\ e.w # r, V(n, "NoCarryOver.WrongWriter")),
                                Holds(hr, r), V(n, "OneOwner.SecondAcquire"))
                 /\ UNCHANGED <<hb, pb, active>>
            [] e.ev = "existing" ->                                  \* GetBuffer: the writer already is a *Buffer
                 /\ viol' = AddIf(viol, ~UseLegal(hr, r, b), V(n, "ExclusiveBuffer.UseNotHeld"))
                 /\ UNCHANGED <<hr, pr, hb, pb, active>>
            [] e.ev = "flush" ->                                     \* ReleaseBuffer: b.Flush()
                 /\ viol' = AddIf(viol, ~UseLegal(hr, r, b), V(n, "ExclusiveBuffer.UseAfterRelease"))
                 /\ UNCHANGED <<hr, pr, hb, pb, active>>
            [] e.ev = "release" ->                                   \* ReleaseBuffer: bufferPool.Put(b)
                 /\ hr' = HDrop(hr, r, b) /\ pr' = PPut(pr, b)
                 /\ viol' = AddIf(viol, ~UseLegal(hr, r, b), V(n, "ExclusiveBuffer.ReleaseNotHeld"))
                 /\ UNCHANGED <<hb, pb, active>>
            [] e.ev = "get" ->                                       \* templ.GetBuffer (bytes.Buffer pool)
                 /\ hb' = HGet(hb, r, b) /\ pb' = PGet(pb, b)
                 /\ viol' = AddIf(AddIf(viol,
                                ~GetLegal(hb, r, b), V(n, "ExclusiveBuffer.BytesAcquireWhileHeld")),
                                e.dirty, V(n, "NoCarryOver.DirtyBytesBuffer"))
                 /\ UNCHANGED <<hr, pr, active>>
            [] e.ev = "put" ->                                       \* templ.ReleaseBuffer: Reset + Put
                 /\ hb' = HDrop(hb, r, b) /\ pb' = PPut(pb, b)
                 /\ viol' = AddIf(AddIf(viol,
                                ~UseLegal(hb, r, b), V(n, "ExclusiveBuffer.BytesReleaseNotHeld")),
                                e.dirty, V(n, "NoCarryOver.PutWithoutReset"))
                 /\ UNCHANGED <<hr, pr, active>>

Next == Step
Spec == Init /\ [][Next]_vars

\* the same invariants as RenderPool.tla, evaluated on every state of the trace; a violation is also
\* collected in viol by the step that caused it, so the run goes on and reports every offending line
ExclusiveNow == Exclusive(hr) /\ Exclusive(hb)

Done == i = Len(Trace)
Report == Done => PrintT(<<"TRACE", ToJson([lines |-> i, viol |-> viol, cnt |-> cnt,
                                            exclusive |-> ExclusiveNow,
                                            stillheld |-> Cardinality({b \in 1..NB : hr[b] # {} \/ hb[b] # {}})])>>)
=============================================================================
