\* Calls followed by something on the same line (exhaustive in the quick tier): `@c() w1`, `@c() <b>`, legacy {! c() } where needed.
CONSTANTS
  MaxNodes = 3
  MaxDepth = 4
  Kinds = {"text", "el", "call"}
  InlineNames = {"span"}
  BlockNames = {}
  VoidNames = {}
  AttrChoices <- AttrChoicesNone
  WsChoices = {"", "h", "v"}
  Words = {"w1"}
  Exprs = {"E1"}
  Conds = {"C1", "C2"}
  Lists = {"L1"}
  EnvSeq <- EnvSeqOne
INIT Init
NEXT Next
VIEW View
INVARIANTS TypeOK MustOnlyBetweenInline DenotedDocumentsBalanced EmitProgram
CHECK_DEADLOCK FALSE
