\* C01 negative config: Esc["<"] = "<" must violate InContext.
CONSTANTS
  EscOverride <- NegOverride
  EmitEdges = FALSE
INIT Init
NEXT Next
VIEW View
INVARIANTS TypeOK InContext Verbatim NeutralAfterFeed SuffixTokenises
CHECK_DEADLOCK FALSE
