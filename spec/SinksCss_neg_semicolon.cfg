\* C05 negative: ';' added to the regular-value class must violate OneDeclaration
CONSTANTS
  Classes <- ClassesDef
  Contexts <- ContextsDef
  Alphabet <- FullAlphabet
  RegularExtra <- SemicolonExtra
  AngleGuard = TRUE
  FontFix = TRUE
  BgFix = TRUE
  TrackAttribution = FALSE
  AttrEscapes = 1
  KvSafeProp = "unsupported"
  EmitEdges = FALSE
INIT Init
NEXT Next
VIEW View

INVARIANTS TypeOK OneDeclaration InnocuousOnReject
CHECK_DEADLOCK FALSE
