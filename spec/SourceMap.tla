------------------------------ MODULE SourceMap ------------------------------
(* C07 (and the position algebra of C06) -- how templ relates bytes of a Go expression in a .templ
   file to bytes of the generated Go file.

   Three pieces of the code are transcribed, each as an operator applied rune by rune and an action
   that runs it over a whole expression:

     Advance / AdvanceAll   github.com/a-h/parse Input.PositionAt: the (index, line, col) of a byte
                            offset; columns are BYTE columns, a newline ends its line.   (C06 ii)
     WriteRune / Write      generator/rangewriter.go RangeWriter.write: Current.{Index,Line,Col} are
                            advanced per rune by the rune's byte length, a newline resets the column.
     AddRune / AddEol / Add parser/v2/sourcemap.go SourceMap.Add: per source line of the expression,
                            per rune, one entry source(line,col) -> target position and one entry
                            target(line,col) -> source position; one extra entry past the end of every
                            line ("LSPs include the newline char as a col"); only the first line
                            carries the column offsets of the two start positions.

   An expression is a grid: a sequence of lines, each a sequence of rune byte widths (1..4).  The
   symbol 0 (NL) is the newline that joins two lines.  Ground truth on the source side is AdvanceAll over
   the source text (what the editor sends), on the target side the log of where RangeWriter put every
   symbol (what gopls sees).  The invariants compare the tables with the ground truth.            *)
EXTENDS SourceMapOps

CONSTANTS MaxLines,   \* an expression has 1..MaxLines lines
          MaxRunes,   \* every line has 0..MaxRunes runes
          Widths,     \* byte widths of runes, a subset of 1..4
          Pres,       \* texts (sequences of widths) in front of the expression on its source line
          Offsets     \* number of bytes the generator wrote on the target line before the expression
\* ColMode and EolEntry (the two negative switches) are declared in SourceMapOps.

VARIABLES shape, pre, off,      \* the case
          phase,                \* "init" -> "written" -> "added" -> "closed"
          cur,                  \* RangeWriter.Current
          wlog,                 \* ground truth: target position of every symbol written (+ the end)
          rng,                  \* the parser.Range returned by RangeWriter.write for the expression
          s2t, t2s,             \* SourceMap.SourceLinesToTarget / TargetLinesToSource
          sym,                  \* symbol range recorded for the enclosing declaration
          symtab, second        \* SourceSymbolRangeToTarget; the second declaration (if any): [line, col, from, to]
vars == <<shape, pre, off, phase, cur, wlog, rng, s2t, t2s, sym, symtab, second>>

-----------------------------------------------------------------------------
(* the cases *)
Lines == UNION {[1..k -> Widths] : k \in 0..MaxRunes}
Shapes == {s \in UNION {[1..n -> Lines] : n \in 1..MaxLines} : \E i \in 1..Len(s) : Len(s[i]) > 0}

SrcLineStart == Pos(40, 3, 0)          \* start of the source line holding the expression
TgtLineStart == Pos(500, 11, 0)        \* start of the target line; the declaration starts here
Trailer == <<1, NL, 1, NL, NL>>        \* " {" ... "}\n\n" written after the expression

SFrom == AdvanceAll(SrcLineStart, pre)                    \* what the parser records as Range.From
Flat == Flatten(shape)
SrcPos(k) == AdvanceAll(SFrom, SubSeq(Flat, 1, k - 1))    \* true source position of symbol k (Len+1 = end)
NSym == Len(Flat)

Init == /\ shape \in Shapes /\ pre \in Pres /\ off \in Offsets
        /\ phase = "init"
        \* the generator has written `off` one-byte symbols ("func ", "\tif ", ...) on this target line
        /\ cur = WriteAll(TgtLineStart, [i \in 1..off |-> 1], <<>>).cur
        /\ wlog = <<>> /\ rng = [from |-> Pos(0, 0, 0), to |-> Pos(0, 0, 0)]
        /\ s2t = Empty /\ t2s = Empty
        /\ sym = [set |-> FALSE, from |-> Pos(0, 0, 0), to |-> Pos(0, 0, 0)]
        /\ symtab = Empty /\ second = [set |-> FALSE]

\* r, err = g.w.Write(expression.Value)
Write == /\ phase = "init"
         /\ LET w == WriteAll(cur, Flat, <<>>) IN
            /\ cur' = w.cur
            /\ wlog' = Append(w.log, w.cur)
            /\ rng' = [from |-> cur, to |-> w.cur]
         /\ phase' = "written"
         /\ UNCHANGED <<shape, pre, off, s2t, t2s, sym, symtab, second>>

\* g.sourceMap.Add(expression, r)
Add == /\ phase = "written"
       /\ LET st == AddTables(s2t, t2s, shape, SFrom, rng.from) IN
          /\ s2t' = st.s2t
          /\ t2s' = st.t2s
       /\ phase' = "added"
       /\ UNCHANGED <<shape, pre, off, cur, wlog, rng, sym, symtab, second>>

\* the rest of the declaration is written, then AddSymbolRange(n.Range, tgtSymbolRange)
CloseDecl == /\ phase = "added"
             /\ LET w == WriteAll(cur, Trailer, <<>>) IN
                /\ cur' = w.cur
                /\ sym' = [set |-> TRUE, from |-> TgtLineStart, to |-> w.cur]
                /\ symtab' = AddSym(symtab, SrcLineStart.line, SrcLineStart.col, [from |-> TgtLineStart, to |-> w.cur])
             /\ phase' = "closed"
             /\ UNCHANGED <<shape, pre, off, wlog, rng, s2t, t2s, second>>

\* a second top-level declaration, starting on the same templ line as the first (after its closing
\* brace: `templ a() { ... } templ b() { ... }`) or on a later line
SecondDecl(sameLine) ==
    /\ phase = "closed"
    /\ LET w == WriteAll(cur, <<1, 1, 1>> \o Trailer, <<>>)
           l == IF sameLine THEN SrcLineStart.line ELSE SrcLineStart.line + Len(shape) + 1
           c == IF sameLine THEN SrcLineStart.col + 40 ELSE 0
       IN  /\ cur' = w.cur
           /\ second' = [set |-> TRUE, line |-> l, col |-> c, from |-> cur, to |-> w.cur]
           /\ symtab' = AddSym(symtab, l, c, [from |-> cur, to |-> w.cur])
    /\ phase' = "closed2"
    /\ UNCHANGED <<shape, pre, off, wlog, rng, s2t, t2s, sym>>

Next == Write \/ Add \/ CloseDecl \/ \E b \in BOOLEAN : SecondDecl(b)
Spec == Init /\ [][Next]_vars

-----------------------------------------------------------------------------
(* properties *)
Mapped == phase \in {"added", "closed", "closed2"}
IsRune(k) == k <= NSym /\ ~IsNL(Flat[k])
IsEol(k) == k = NSym + 1 \/ (k <= NSym /\ IsNL(Flat[k]))
T(k) == TargetFromSource(s2t, SrcPos(k).line, SrcPos(k).col)

\* the writer's bookkeeping is the position algebra
WriterIsAdvance == phase # "init" => /\ rng.to = AdvanceAll(rng.from, Flat)
                                     /\ \A k \in 1..(NSym + 1) : wlog[k] = AdvanceAll(rng.from, SubSeq(Flat, 1, k - 1))

\* every rune of the expression maps to the target position that holds this very rune
SameByte == Mapped => \A k \in 1..NSym : IsRune(k) => T(k).ok /\ T(k).p = wlog[k]

\* consecutive positions of an expression line map to consecutive target positions
Consecutive == Mapped => \A k \in 1..NSym : IsRune(k) /\ T(k).ok /\ T(k + 1).ok =>
                            /\ T(k + 1).p.idx = T(k).p.idx + Flat[k]
                            /\ T(k + 1).p.line = T(k).p.line
                            /\ T(k + 1).p.col = T(k).p.col + Flat[k]

\* mapping the target position back returns the original line, column and index
RoundTrip == Mapped => \A k \in 1..(NSym + 1) : T(k).ok =>
                          LET b == SourceFromTarget(t2s, T(k).p.line, T(k).p.col)
                          IN  b.ok /\ b.p = SrcPos(k)

\* the position just past the end of each expression line is mapped the same way
EndOfLineMapped == Mapped => \A k \in 1..(NSym + 1) : IsEol(k) => T(k).ok /\ T(k).p = wlog[k]

\* the recorded declaration range encloses everything written for the declaration
SymbolRangeEncloses == sym.set => /\ sym.from.idx <= rng.from.idx /\ rng.to.idx <= sym.to.idx
                                  /\ \A k \in 1..(NSym + 1) : sym.from.idx <= wlog[k].idx /\ wlog[k].idx <= sym.to.idx
                                  /\ sym.to = AdvanceAll(sym.from, [i \in 1..off |-> 1] \o Flat \o Trailer)

\* every top-level declaration keeps its symbol range, also when two start on one templ line
SymbolsFound == /\ (sym.set => /\ SymFound(symtab, SrcLineStart.line, SrcLineStart.col)
                                /\ symtab[<<SrcLineStart.line, SrcLineStart.col>>] = [from |-> sym.from, to |-> sym.to])
                /\ (second.set => /\ SymFound(symtab, second.line, second.col)
                                   /\ symtab[<<second.line, second.col>>] = [from |-> second.from, to |-> second.to])

TypeOK == /\ phase \in {"init", "written", "added", "closed", "closed2"}
          /\ cur.idx >= 0 /\ cur.col >= 0
=============================================================================
