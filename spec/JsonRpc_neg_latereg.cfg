\* C18 conn: NEGATIVE: pending insert after sending -- must violate RegisteredBeforeSending (a fast response would be dropped).
CONSTANTS
  NC = 1
  NN = 0
  MaxPN = 0
  MaxPC = 0
  MaxStray = 0
  UseWriteMu = TRUE
  ChanCap = 1
  RegisterFirst = FALSE
  AtomicAlloc = TRUE
  IdDecode = "strict"
  IdVocab = "small"
  KindShift = 0
  NullResult = "ok"
INIT Init
NEXT Next
INVARIANTS TypeOK RegisteredBeforeSending
CHECK_DEADLOCK FALSE
