\* C12 negative config: WithNonce forgets the registry (fresh context value). Only the property named here is checked
\* (the check also runs it with MiddlewareNeverInlined): TLC must reject it through that property.
CONSTANTS
  Ctxs <- Ctx1
  Modes = {"plain", "mw", "fresh"}
  Scripts = {"s1", "s2"}
  Classes = {"k1", "k2"}
  BlockHandles = {"h1", "h2"}
  ZeroHandles = {}
  FixedHandles = {"g1"}
  RegSeq <- RegK1
  OnSeqs <- OnSeqsFull
  ClassExprs <- ClassExprsFull
  Repaired = {"KvCompName", "SliceKVRules"}
  Variant = "nonceForgets"
  NonceCtxs = {"c1"}
  MaxNonces = 1
  MaxSteps = 99
  EmitEdges = FALSE
INIT Init
NEXT Next
VIEW View
INVARIANTS TypeOK
PROPERTIES AtMostOnce
CHECK_DEADLOCK FALSE
