// c02 binds spec/TemplLang.tla's denotational semantics to the repository's generator and runtime.
//
//	c02 emit    <progs.ndjson> <outdir> <batch> <variants>   write Go packages of .templ files (one template per program and spelling)
//	c02 compare <progs.ndjson> <outputs.ndjson>...            compare what the compiled templates rendered with Denote
//
// Between the two steps the check runs the repository's `templ generate` and `go build` on every
// package and executes the binaries (each prints one ndjson record per template and environment).
package main

import (
	"encoding/json"
	"fmt"
	"os"
	"path/filepath"
	"regexp"
	"sort"
	"strconv"
	"strings"

	"golang.org/x/net/html"

	"verifharness/templang"
	"verifharness/vhlib"
)

func main() {
	if len(os.Args) < 3 {
		vhlib.Fatal("usage")
	}
	switch os.Args[1] {
	case "emit":
		emit(os.Args[2:])
	case "compare":
		compare(os.Args[2], os.Args[3:])
	default:
		vhlib.Fatal("unknown mode")
	}
}

const envGo = `package main

import (
	"bytes"
	"context"
	"encoding/json"
	"fmt"
	"os"

	"github.com/a-h/templ"
)

// Env supplies the values of the abstract identifiers and records every evaluation.
type Env struct {
	Cv  map[string]bool
	Lv  map[string]int
	Sv  string
	Evs []string
}

var exprValues = map[int]string{1: ` + "`V1<&>`" + `, 2: ` + "`V2\"'=`" + `, 3: ` + "`V3;&#39;`" + `}

func (e *Env) E(i int) string          { e.Evs = append(e.Evs, fmt.Sprintf("E%d", i)); return exprValues[i] }
func (e *Env) EE(i int) (string, error) { e.Evs = append(e.Evs, fmt.Sprintf("E%d", i)); return exprValues[i], nil }
func (e *Env) C(i int) bool            { k := fmt.Sprintf("C%d", i); e.Evs = append(e.Evs, k); return e.Cv[k] }
func (e *Env) L(i int) []struct{}      { k := fmt.Sprintf("L%d", i); e.Evs = append(e.Evs, k); return make([]struct{}, e.Lv[k]) }
func (e *Env) S() string               { e.Evs = append(e.Evs, "S"); return e.Sv }
func (e *Env) True() bool              { return true }
func (e *Env) U(i int) string {
	e.Evs = append(e.Evs, fmt.Sprintf("U%d", i))
	if i == 2 {
		return "javascript:alert(1)"
	}
	return "https://x.test/p?a=1&b=<2>"
}
func (e *Env) T1() string            { e.Evs = append(e.Evs, "T1"); return "color:red;margin:0" }
func (e *Env) T2() map[string]string { e.Evs = append(e.Evs, "T2"); return map[string]string{"color": "blue"} }
func (e *Env) ER(i int, raw string) string { e.Evs = append(e.Evs, fmt.Sprintf("E%d", i)); return exprValues[i] }
func (e *Env) G()                      { e.Evs = append(e.Evs, "G") }
func (e *Env) GS(s string)             { e.Evs = append(e.Evs, "G") }
func (e *Env) K(i int) string          { e.Evs = append(e.Evs, fmt.Sprintf("K%d", i)); return fmt.Sprintf("cls%d", i) }
func (e *Env) M(i int) templ.Attributes {
	e.Evs = append(e.Evs, fmt.Sprintf("M%d", i))
	if i == 1 {
		return templ.Attributes{"data-M1": "M1&v"}
	}
	// one entry of every value kind RenderAttributes distinguishes, present and absent forms
	s, t, f := "M1&v", true, false
	return templ.Attributes{
		"a-str": "M1&v", "b-ptrstr": &s, "c-true": true, "d-false": false, "e-ptrtrue": &t, "f-ptrfalse": &f,
		"g-kvs": templ.KV("M1&v", true), "h-kvsf": templ.KV("M1&v", false), "i-kvb": templ.KV(true, true), "j-kvbf": templ.KV(true, false),
		"k-nilstr": (*string)(nil), "l-nilbool": (*bool)(nil), "m-fn": func() bool { return true }, "n-fnf": func() bool { return false },
	}
}

type entry struct {
	ID      int
	Variant int
	F       func(env *Env) templ.Component
}

type envSpec struct {
	C map[string]bool ` + "`json:\"c\"`" + `
	L map[string]int  ` + "`json:\"l\"`" + `
	S string          ` + "`json:\"s\"`" + `
}

func main() {
	var envs []envSpec
	if err := json.Unmarshal([]byte(os.Args[1]), &envs); err != nil {
		panic(err)
	}
	enc := json.NewEncoder(os.Stdout)
	for _, t := range entries {
		for ei, es := range envs {
			env := &Env{Cv: es.C, Lv: es.L, Sv: es.S}
			var buf bytes.Buffer
			ctx := templ.WithChildren(context.Background(), kid())
			err := t.F(env).Render(ctx, &buf)
			rec := map[string]any{"id": t.ID, "variant": t.Variant, "env": ei, "html": buf.String(), "evs": env.Evs}
			if err != nil {
				rec["err"] = err.Error()
			}
			enc.Encode(rec)
		}
	}
}
`

func emit(args []string) {
	progsPath, outdir := args[0], args[1]
	batch, _ := strconv.Atoi(args[2])
	variants, _ := strconv.Atoi(args[3]) // 1: rotate one spelling per program, 3: all spellings
	var all []templang.Program
	if err := vhlib.Each(progsPath, func(line []byte) error {
		p, err := templang.ParseProgram(line)
		if err != nil {
			return err
		}
		all = append(all, p)
		return nil
	}); err != nil {
		vhlib.Fatal("%v", err)
	}
	type tmpl struct {
		id, v int
	}
	var ts []tmpl
	for _, p := range all {
		if variants >= templang.Variants {
			for v := 0; v < templang.Variants; v++ {
				ts = append(ts, tmpl{p.ID, v})
			}
		} else {
			ts = append(ts, tmpl{p.ID, p.ID % templang.Variants})
		}
	}
	byID := map[int]templang.Program{}
	for _, p := range all {
		byID[p.ID] = p
	}
	npk := 0
	for i := 0; i < len(ts); i += batch {
		j := i + batch
		if j > len(ts) {
			j = len(ts)
		}
		dir := filepath.Join(outdir, fmt.Sprintf("b%03d", npk))
		npk++
		if err := os.MkdirAll(dir, 0o755); err != nil {
			vhlib.Fatal("%v", err)
		}
		must(os.WriteFile(filepath.Join(dir, "env.go"), []byte(envGo), 0o644))
		must(os.WriteFile(filepath.Join(dir, "helpers.templ"), []byte(templang.HeaderV("main", 0)), 0o644))
		var reg strings.Builder
		reg.WriteString("package main\n\nimport \"github.com/a-h/templ\"\n\nvar entries = []entry{\n")
		for _, t := range ts[i:j] {
			name := fmt.Sprintf("P%07d_%d", t.id, t.v)
			src := "package main\n\n" + templang.Template(name, byID[t.id].Prog, templang.Variant(t.v))
			must(os.WriteFile(filepath.Join(dir, strings.ToLower(name)+".templ"), []byte(src), 0o644))
			fmt.Fprintf(&reg, "\t{%d, %d, func(env *Env) templ.Component { return %s(env) }},\n", t.id, t.v, name)
		}
		reg.WriteString("}\n")
		must(os.WriteFile(filepath.Join(dir, "registry.go"), []byte(reg.String()), 0o644))
	}
	vhlib.Summary(map[string]any{"programs": len(all), "templates": len(ts), "packages": npk})
}

func must(err error) {
	if err != nil {
		vhlib.Fatal("%v", err)
	}
}

// ---- comparison ------------------------------------------------------------------------------

type item struct {
	kind  string // open close comment doctype text
	name  string
	attrs []html.Attribute
	data  string
}

func tokenise(doc string) ([]item, error) {
	z := html.NewTokenizer(strings.NewReader(doc))
	var out []item
	for {
		tt := z.Next()
		switch tt {
		case html.ErrorToken:
			if z.Err().Error() == "EOF" {
				return out, nil
			}
			return out, z.Err()
		case html.TextToken:
			t := z.Token()
			if n := len(out); n > 0 && out[n-1].kind == "text" {
				out[n-1].data += t.Data
			} else {
				out = append(out, item{kind: "text", data: t.Data})
			}
		case html.StartTagToken, html.SelfClosingTagToken:
			t := z.Token()
			out = append(out, item{kind: "open", name: t.Data, attrs: t.Attr})
		case html.EndTagToken:
			t := z.Token()
			out = append(out, item{kind: "close", name: t.Data})
		case html.CommentToken:
			t := z.Token()
			out = append(out, item{kind: "comment", data: t.Data})
		case html.DoctypeToken:
			t := z.Token()
			out = append(out, item{kind: "doctype", data: t.Data})
		}
	}
}

func isSpace(b byte) bool { return b == ' ' || b == '\t' || b == '\n' || b == '\r' || b == '\f' }

type cursor struct {
	items []item
	i     int // item index
	off   int // offset inside a text item

	bound map[string]string // names the document itself fixes: the css class id, the script function name
}

// skipSpace advances over whitespace (and exhausted text items) and reports whether any was seen.
func (c *cursor) skipSpace() bool {
	seen := false
	for c.i < len(c.items) && c.items[c.i].kind == "text" {
		d := c.items[c.i].data
		for c.off < len(d) && isSpace(d[c.off]) {
			c.off++
			seen = true
		}
		if c.off < len(d) {
			break
		}
		c.i++
		c.off = 0
	}
	return seen
}

var defPatterns = map[string]*regexp.Regexp{
	"cssB":    regexp.MustCompile(`^\.(boxed_[0-9a-f]{8})\{color:red;--brandColor:blue;\}$`),
	"cssT":    regexp.MustCompile(`^\.(tinted_[0-9a-f]{8})\{--accentColor:green;\}$`),
	"scriptS": regexp.MustCompile(`^function (__templ_span2_[0-9a-f]{4})\(lo, hi\)\{show\(lo, hi\);\s*\}$`),
	"scriptG": regexp.MustCompile(`^function (__templ_greet_[0-9a-f]{4})\(a\)\{alert\(a\);\s*\}$`),
}

func attrValue(id string) string {
	if id == "" {
		return ""
	}
	if id == "textcss" {
		return "text/css"
	}
	if id == "xjs" {
		return "x.js"
	}
	if v, ok := templang.ConstDecoded[id]; ok {
		return v
	}
	if v, ok := templang.ExprValues[id]; ok {
		return v
	}
	return "?" + id
}

// expand replaces a "raw" token by the three tokens a tokenizer sees.
func expand(toks []templang.Tok) []templang.Tok {
	var out []templang.Tok
	for _, t := range toks {
		if t.T == "def" {
			// a definition written in front of a start tag: <style type="text/css">...</style> or <script>...</script>
			el, attrs := "script", []templang.TokAttr(nil)
			if t.N == "cssB" || t.N == "cssT" {
				el, attrs = "style", []templang.TokAttr{{N: "type", V: "textcss"}}
			}
			out = append(out, templang.Tok{T: "open", N: el, G: t.G, Attrs: attrs}, templang.Tok{T: "deftext", N: t.N, G: "mustnot"}, templang.Tok{T: "close", N: el, G: "mustnot"})
			continue
		}
		if t.T == "scall" {
			// the call of a script template rendered as a component: <script>name(json of the argument)</script>
			out = append(out, templang.Tok{T: "open", N: "script", G: t.G}, templang.Tok{T: "scalltext", N: t.N, G: "mustnot"}, templang.Tok{T: "close", N: "script", G: "mustnot"})
			continue
		}
		if t.T == "raw" {
			el := templang.RawElement(t.N)
			var attrs []templang.TokAttr
			if t.N == "scriptcls" {
				attrs = []templang.TokAttr{{N: "class", V: "K12"}, {N: "src", V: "xjs"}}
			}
			out = append(out, templang.Tok{T: "open", N: el, G: t.G, Attrs: attrs})
			if templang.RawRendered(t.N) != "" {
				out = append(out, templang.Tok{T: "rawtext", N: t.N, G: "mustnot"})
			}
			out = append(out, templang.Tok{T: "close", N: el, G: "mustnot"})
			continue
		}
		out = append(out, t)
	}
	return out
}

// match walks the denoted token sequence over the real token stream.
func match(toks []templang.Tok, items []item) (ok bool, why string) {
	c := &cursor{items: items, bound: map[string]string{}}
	for k, t := range expand(toks) {
		gap := c.skipSpace()
		where := fmt.Sprintf("token %d (%s %s)", k+1, t.T, t.N)
		if c.i >= len(c.items) {
			return false, where + ": output ended early"
		}
		it := c.items[c.i]
		switch t.T {
		case "word", "val", "rawtext":
			want := templang.WordText(t.N)
			if t.T == "val" {
				want = templang.ExprValues[t.N]
			} else if t.T == "rawtext" {
				want = templang.RawRendered(t.N)
			}
			if it.kind != "text" || !strings.HasPrefix(it.data[c.off:], want) {
				return false, fmt.Sprintf("%s: expected text %q, found %s %q", where, want, it.kind, it.name+it.data)
			}
			c.off += len(want)
		case "scalltext":
			js, _ := json.Marshal(templang.ExprValues["E1"]) // HTML-safe JSON: < > & as \u00XX
			want := c.bound[t.N] + "(" + string(js) + ")"
			if it.kind != "text" || it.data != want || c.bound[t.N] == "" {
				return false, fmt.Sprintf("%s: expected the call %q, found %s %q", where, want, it.kind, it.name+it.data)
			}
			c.i++
			c.off = 0
		case "deftext":
			// the definition names itself (the id holds a hash of the body); the uses must agree with it
			re := defPatterns[t.N]
			m := re.FindStringSubmatch(it.data)
			if it.kind != "text" || m == nil {
				return false, fmt.Sprintf("%s: expected a definition matching %s, found %s %q", where, re, it.kind, it.name+it.data)
			}
			if t.N == "cssB" && m[1] != templang.CSSClassID("boxed", "color:red;--brandColor:blue;") {
				return false, fmt.Sprintf("%s: class id %q is not name + hash of the css text (%q)", where, m[1], templang.CSSClassID("boxed", "color:red;--brandColor:blue;"))
			}
			if t.N == "cssT" && m[1] != templang.CSSClassID("tinted", "--accentColor:green;") {
				return false, fmt.Sprintf("%s: class id %q is not name + hash of the css text (%q)", where, m[1], templang.CSSClassID("tinted", "--accentColor:green;"))
			}
			c.bound[t.N] = m[1]
			c.i++
			c.off = 0
		case "open", "close":
			if it.kind != t.T || it.name != t.N {
				return false, fmt.Sprintf("%s: found %s %q", where, it.kind, it.name+it.data)
			}
			if t.T == "open" {
				if len(it.attrs) != len(t.Attrs) {
					return false, fmt.Sprintf("%s: %d attributes, expected %d (%v)", where, len(it.attrs), len(t.Attrs), it.attrs)
				}
				for ai, a := range t.Attrs {
					ra := it.attrs[ai]
					want := attrValue(a.V)
					switch a.V {
					case "CSSB":
						want = c.bound["cssB"]
					case "CSST":
						want = c.bound["cssT"]
					case "CMIX":
						want = "card " + c.bound["cssB"] + " wide"
						if c.bound["cssB"] == "" {
							want = ""
						}
					case "SCR2":
						want = c.bound["scriptS"] + "(1,2)"
						if c.bound["scriptS"] == "" {
							want = ""
						}
					case "SCRG":
						want = c.bound["scriptG"] + `("x")`
					}
					if ra.Key != strings.ToLower(a.N) || ra.Val != want || want == "" && (a.V == "CSSB" || a.V == "CSST" || a.V == "SCRG" || a.V == "CMIX" || a.V == "SCR2") {
						return false, fmt.Sprintf("%s: attribute %d is %s=%q, expected %s=%q", where, ai+1, ra.Key, ra.Val, strings.ToLower(a.N), want)
					}
				}
			}
			c.i++
			c.off = 0
		case "comment":
			if it.kind != "comment" || strings.TrimSpace(it.data) != "c" {
				return false, fmt.Sprintf("%s: found %s %q", where, it.kind, it.name+it.data)
			}
			c.i++
			c.off = 0
		case "doctype":
			if it.kind != "doctype" || !strings.EqualFold(it.data, "html") {
				return false, fmt.Sprintf("%s: found %s %q", where, it.kind, it.name+it.data)
			}
			c.i++
			c.off = 0
		default:
			return false, "unknown expected token " + t.T
		}
		switch t.G {
		case "must":
			if !gap {
				return false, where + ": whitespace between adjacent inline content was lost"
			}
		case "mustnot":
			if gap {
				return false, where + ": whitespace was invented between adjacent nodes"
			}
		}
	}
	c.skipSpace()
	if c.i < len(c.items) {
		it := c.items[c.i]
		return false, fmt.Sprintf("extra output after the denoted document: %s %q", it.kind, it.name+it.data[c.off:])
	}
	return true, ""
}

func multiset(xs []string) string {
	ys := append([]string(nil), xs...)
	sort.Strings(ys)
	return strings.Join(ys, ",")
}

type output struct {
	ID      int      `json:"id"`
	Variant int      `json:"variant"`
	Env     int      `json:"env"`
	HTML    string   `json:"html"`
	Evs     []string `json:"evs"`
	Err     string   `json:"err"`
}

type failCase struct {
	ID       int          `json:"id"`
	Variant  int          `json:"variant"`
	Env      templang.Env `json:"env"`
	Source   string       `json:"source"`
	Rendered string       `json:"rendered"`
	Denoted  string       `json:"denoted"`
	Detail   string       `json:"detail"`
}

func showToks(ts []templang.Tok) string {
	var sb strings.Builder
	for _, t := range ts {
		switch t.G {
		case "must":
			sb.WriteString(" _ ")
		case "mustnot":
			sb.WriteString("")
		default:
			sb.WriteString(" ? ")
		}
		switch t.T {
		case "open":
			sb.WriteString("<" + t.N)
			for _, a := range t.Attrs {
				sb.WriteString(" " + a.N + "=" + a.V)
			}
			sb.WriteString(">")
		case "close":
			sb.WriteString("</" + t.N + ">")
		default:
			sb.WriteString(t.T + ":" + t.N)
		}
	}
	return sb.String()
}

func compare(progsPath string, outs []string) {
	progs := map[int]templang.Program{}
	if err := vhlib.Each(progsPath, func(line []byte) error {
		p, err := templang.ParseProgram(line)
		if err != nil {
			return err
		}
		progs[p.ID] = p
		return nil
	}); err != nil {
		vhlib.Fatal("%v", err)
	}
	var n, fails, evfails, samples int
	seen := map[string]bool{}
	for _, op := range outs {
		err := vhlib.Each(op, func(line []byte) error {
			var o output
			if err := json.Unmarshal(line, &o); err != nil {
				return err
			}
			p, ok := progs[o.ID]
			if !ok {
				return fmt.Errorf("output for unknown program %d", o.ID)
			}
			if o.Env >= len(p.Den) {
				return nil // this program's family is denoted for fewer environments
			}
			n++
			seen[fmt.Sprintf("%d/%d/%d", o.ID, o.Variant, o.Env)] = true
			den := p.Den[o.Env]
			fc := failCase{ID: o.ID, Variant: o.Variant, Env: den.Env, Source: templang.Template("P", p.Prog, templang.Variant(o.Variant)),
				Rendered: o.HTML, Denoted: showToks(den.D.Toks)}
			if o.Err != "" {
				fails++
				fc.Detail = "render returned an error: " + o.Err
				vhlib.Fail("Render.Error", "rendering a denotable template failed", fc)
				return nil
			}
			items, err := tokenise(o.HTML)
			if err != nil {
				fails++
				fc.Detail = "output does not tokenise: " + err.Error()
				vhlib.Fail("Render.Untokenisable", "rendered output is not tokenisable HTML", fc)
				return nil
			}
			if ok, why := match(den.D.Toks, items); !ok {
				fails++
				fc.Detail = why
				vhlib.Fail(signature(p.Prog, why), "rendered document differs from the denoted document", fc)
				return nil
			}
			if multiset(o.Evs) != multiset(den.D.Evs) {
				evfails++
				fc.Detail = fmt.Sprintf("evaluated %v, control flow reaches %v", o.Evs, den.D.Evs)
				vhlib.Fail(evalSignature(p.Prog), "expressions evaluated differ from those control flow reaches", fc)
				return nil
			}
			if samples < 4 && n%997 == 0 {
				samples++
				fc.Detail = "ok"
				vhlib.Sample(fc)
			}
			return nil
		})
		if err != nil {
			vhlib.Fatal("%v", err)
		}
	}
	vhlib.Summary(map[string]any{"renders": n, "fails": fails, "evalfails": evfails, "distinct": len(seen)})
}

// signature names the failure class: the first clause of `why` that identifies the oracle rule.
func signature(prog []templang.Node, why string) string {
	switch {
	case strings.Contains(why, "was lost"):
		return "Whitespace.SeparationLost"
	case strings.Contains(why, "was invented"):
		return "Whitespace.Invented"
	case strings.Contains(why, "attribute"):
		return "Attributes.Mismatch"
	case strings.Contains(why, "extra output"):
		return "Document.ExtraOutput"
	case strings.Contains(why, "ended early"):
		return "Document.Truncated"
	}
	return "Document.TokenMismatch"
}

// evalSignature attributes an evaluation mismatch: a class expression inside a conditional attribute is the
// known hoisting defect (the generator evaluates every class expression in front of the element).
func evalSignature(prog []templang.Node) string {
	found := false
	var walk func(ns []templang.Node)
	walk = func(ns []templang.Node) {
		for _, n := range ns {
			for _, a := range n.Attrs {
				if a.A == "cond" {
					for _, t := range append(append([]templang.Attr{}, a.Then...), a.Else...) {
						if t.A == "class" || t.A == "class2" {
							found = true
						}
					}
				}
			}
			walk(n.Kids)
			walk(n.Els)
			walk(n.Body)
			for _, b := range n.Brs {
				walk(b.Body)
			}
			for _, c := range n.Cases {
				walk(c.Body)
			}
		}
	}
	walk(prog)
	if found {
		return "Evaluation.ClassExpressionInConditionalAttributeHoisted"
	}
	return "Evaluation.CountMismatch"
}
