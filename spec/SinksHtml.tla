----------------------------- MODULE SinksHtml -----------------------------
(* C01 -- interpolated strings never change HTML structure.

   Closed product automaton:  templ's HTML escaper (html.EscapeString as a per-symbol transducer Esc)
   x the WHATWG tokenizer (HtmlTok) consuming the escaper's output inside the static markup templ's
   generator writes around a dynamic sink.  The next input symbol is chosen nondeterministically in
   Next and is NOT part of the state, so the reachable graph is finite and TLC's verdict holds for
   input strings of every length over the alphabet of Chars.tla.

   Sink contexts (ctx):
     TextInData     <p>{ s }</p>                   text expression in ordinary content
     TextInRcdata   <textarea>{ s }</textarea>     text expression in an RCDATA parent (textarea, title)
     TextInRawtext  <xmp>{ s }</xmp>               text expression in a RAWTEXT parent: only the
                                                   structure claim (character references are not decoded there)
     AttrDQ         <p title="{ s }">x</p>         every attribute sink: templ always writes  name="..."
     AttrDQTwice    <p style="{ s }">x</p>         style attribute: the sanitiser's result is HTML-escaped
                                                   inside SanitizeStyleAttributeValues and again by the
                                                   generated code (the double escape is in the code, so it
                                                   is in the model); the decoded value is Esc(s), recorded
                                                   as observation "double-escape"
   The contexts classify a sink by the tokenizer state it is consumed in, not by the syntactic FORM of the
   expression: whether { e } is a variable, a call, a concatenation, a constant, a string literal or a raw
   string literal, templ must run the value through Esc before it reaches the context.  The binding therefore
   exercises every form the generator can distinguish in text and in attribute values (gallery.templ for the
   forms that take an input; checks/C01.py generates one component per (literal-valued form, value) at check time).
   Actions:  Feed(c)  one input symbol: Esc(c) is run through PreStep/Step;  Close: the static suffix.
   Invariants (C01):
     InContext         while dynamic output is consumed the tokenizer never leaves the context's family
                       of states (neutral state + character reference states returning to it)
     Verbatim          the characters the tokenizer emits for Feed(c) are exactly c, modulo the
                       tokenizer's own input preprocessing (CR->LF, LF after CR dropped, NUL as NUL or
                       U+FFFD, undecodable byte -> U+FFFD), which is recorded in lbl.obs
     NeutralAfterFeed  after every complete Feed the tokenizer is exactly in the state it had after
                       the static prefix (no pending reference, no partial tag): whatever static
                       markup follows is tokenised as if the dynamic value were not there
     SuffixTokenises   the generator's own suffix then produces exactly the author's tokens          *)
EXTENDS HtmlTok, Json

CONSTANTS EscOverride,   \* function from some symbols to replacement sequences overriding html.EscapeString's
                         \* table: <<>> for the code as written; (cLT :> <<cLT>>) is the negative config;
                         \* the check script puts the OBSERVED table here when the real escaper drifts
          EmitEdges      \* TRUE: print the symbol tables and every explored transition

VARIABLES ctx, q, p, phase, okIn, okVerb, okSuffix, lbl
vars == <<ctx, q, p, phase, okIn, okVerb, okSuffix>>

wAmp  == <<cAMP>> \o W(<<"a","m","p">>) \o <<cSEMI>>
wLt   == <<cAMP>> \o W(<<"l","t">>) \o <<cSEMI>>
wGt   == <<cAMP>> \o W(<<"g","t">>) \o <<cSEMI>>
wSq39 == <<cAMP, cHASH, 51, 57, cSEMI>>
wDq34 == <<cAMP, cHASH, 51, 52, cSEMI>>

\* html.EscapeString (strings.NewReplacer over bytes: everything else, including invalid UTF-8, is copied)
EscReal(c) == IF c = cAMP THEN wAmp
              ELSE IF c = cLT THEN wLt
              ELSE IF c = cGT THEN wGt
              ELSE IF c = cSQ THEN wSq39
              ELSE IF c = cDQ THEN wDq34
              ELSE <<c>>
Esc(c) == IF c \in DOMAIN EscOverride THEN EscOverride[c] ELSE EscReal(c)
RECURSIVE EscSeq(_)
EscSeq(cs) == IF cs = <<>> THEN <<>> ELSE Esc(Head(cs)) \o EscSeq(Tail(cs))

Ctxs == {"TextInData", "TextInRcdata", "TextInRawtext", "AttrDQ", "AttrDQTwice"}
wP == W(<<"p">>)
Prefix(c) ==
    CASE c = "TextInData"    -> <<cLT>> \o wP \o <<cGT>>
      [] c = "TextInRcdata"  -> <<cLT>> \o tagTextarea \o <<cGT>>
      [] c = "TextInRawtext" -> <<cLT>> \o tagXmp \o <<cGT>>
      [] c = "AttrDQ"        -> <<cLT>> \o wP \o <<cSP>> \o tagTitle \o <<cEQ, cDQ>>
      [] c = "AttrDQTwice"   -> <<cLT>> \o wP \o <<cSP>> \o tagStyle \o <<cEQ, cDQ>>
Suffix(c) ==
    CASE c = "TextInData"    -> <<cLT, cSLASH>> \o wP \o <<cGT>>
      [] c = "TextInRcdata"  -> <<cLT, cSLASH>> \o tagTextarea \o <<cGT>>
      [] c = "TextInRawtext" -> <<cLT, cSLASH>> \o tagXmp \o <<cGT>>
      [] c \in {"AttrDQ", "AttrDQTwice"} -> <<cDQ, cGT, 120, cLT, cSLASH>> \o wP \o <<cGT>>
EndTagEvs(n) == <<Ev("eo", -1)>> \o TnEvs(n) \o <<Ev("te", 0)>>
SuffixEvents(c) ==
    CASE c = "TextInData"    -> EndTagEvs(wP)
      [] c = "TextInRcdata"  -> EndTagEvs(tagTextarea)
      [] c = "TextInRawtext" -> EndTagEvs(tagXmp)
      [] c \in {"AttrDQ", "AttrDQTwice"} -> <<Ev("te", 0), Ev("ch", 120)>> \o EndTagEvs(wP)
PrefixEvents(c) ==
    LET attr(n) == <<Ev("so", -1)>> \o TnEvs(wP) \o <<Ev("ao", -1)>> \o [i \in 1..Len(n) |-> Ev("an", n[i])] IN
    CASE c = "TextInData"    -> <<Ev("so", -1)>> \o TnEvs(wP) \o <<Ev("te", 0)>>
      [] c = "TextInRcdata"  -> <<Ev("so", -1)>> \o TnEvs(tagTextarea) \o <<Ev("te", 0)>>
      [] c = "TextInRawtext" -> <<Ev("so", -1)>> \o TnEvs(tagXmp) \o <<Ev("te", 0)>>
      [] c = "AttrDQ"        -> attr(tagTitle)
      [] c = "AttrDQTwice"   -> attr(tagStyle)
NeutralName(c) ==
    CASE c = "TextInData" -> "Data" [] c = "TextInRcdata" -> "Rcdata" [] c = "TextInRawtext" -> "Rawtext"
      [] c \in {"AttrDQ", "AttrDQTwice"} -> "AttrValDQ"
Neutral(c) == Run(InitTok, Prefix(c)).q
\* the family of tokenizer states in which dynamic output may be consumed
InFamily(c, qq) ==
    \/ qq.s = NeutralName(c)
    \/ c # "TextInRawtext" /\ qq.s \in CharRefStates /\ qq.ret = NeutralName(c)
EvKind(c) == IF c \in {"AttrDQ", "AttrDQTwice"} THEN "av" ELSE "ch"

\* run preprocessed symbols through the tokenizer, remembering whether every intermediate state stayed in the family
RECURSIVE FeedRun(_, _, _, _, _, _)
FeedRun(c, qq, pp, syms, acc, allin) ==
    IF syms = <<>> THEN [q |-> qq, p |-> pp, out |-> acc, allin |-> allin]
    ELSE LET pr == PreStep(pp, Head(syms))
             r  == IF pr.out = <<>> THEN R(qq, <<>>) ELSE Step(qq, pr.out[1])
         IN  FeedRun(c, r.q, pr.p, Tail(syms), acc \o r.out, allin /\ InFamily(c, r.q))

\* what the tokenizer is allowed to hand back for input symbol x (set of event-symbol sequences) and the observation
Expected(c, pp, x) ==
    IF c = "AttrDQTwice" /\ Esc(x) # <<x>> THEN {Esc(x)}
    ELSE IF x = cCR THEN {<<cLF>>}
    ELSE IF x = cLF /\ pp THEN {<<>>}
    ELSE IF x = cNUL THEN {<<cNUL>>, <<kFFFD>>}
    ELSE IF x = kBADBYTE THEN {<<kFFFD>>}
    ELSE {<<x>>}
Obs(c, pp, x) ==
    IF c = "AttrDQTwice" /\ Esc(x) # <<x>> THEN "double-escape"
    ELSE IF x = cCR THEN "CR->LF"
    ELSE IF x = cLF /\ pp THEN "CRLF->LF"
    ELSE IF x = cNUL THEN "NUL"
    ELSE IF x = kBADBYTE THEN "bad-byte->FFFD"
    ELSE ""
EvSyms(out) == [i \in 1..Len(out) |-> out[i].c]
AllKind(out, k) == \A i \in 1..Len(out) : out[i].k = k

Init == /\ ctx \in Ctxs
        /\ q = Neutral(ctx)
        /\ p = FALSE
        /\ phase = "feed"
        /\ okIn = TRUE /\ okVerb = TRUE /\ okSuffix = TRUE
        /\ lbl = [op |-> "init"]

Feed(x) ==
    /\ phase = "feed"
    /\ LET syms == IF ctx = "AttrDQTwice" THEN EscSeq(Esc(x)) ELSE Esc(x)
           r    == FeedRun(ctx, q, p, syms, <<>>, TRUE)
           verb == /\ AllKind(r.out, EvKind(ctx))
                   /\ (ctx = "TextInRawtext" \/ EvSyms(r.out) \in Expected(ctx, p, x))
       IN  /\ q' = r.q
           /\ p' = r.p
           /\ okIn' = r.allin
           /\ okVerb' = verb
           /\ lbl' = [op |-> "feed", sym |-> x, esc |-> syms, out |-> r.out, obs |-> Obs(ctx, p, x)]
    /\ UNCHANGED <<ctx, phase, okSuffix>>

Close ==
    /\ phase = "feed"
    /\ LET r == Run(q, Suffix(ctx)) IN
       /\ q' = r.q
       /\ okSuffix' = (r.out = SuffixEvents(ctx) /\ AtRest(r.q))
       /\ lbl' = [op |-> "close", sym |-> -1, esc |-> Suffix(ctx), out |-> r.out, obs |-> ""]
    /\ phase' = "closed"
    /\ p' = FALSE
    /\ UNCHANGED <<ctx, okIn, okVerb>>

Next == (\E x \in Symbol : Feed(x)) \/ Close
Spec == Init /\ [][Next]_vars

-----------------------------------------------------------------------------
TypeOK == ctx \in Ctxs /\ q.s \in AllStates /\ p \in BOOLEAN /\ phase \in {"feed", "closed"}
PrefixTokenises == \A c \in Ctxs : Run(InitTok, Prefix(c)).out = PrefixEvents(c) /\ Neutral(c).s = NeutralName(c)
InContext        == okIn
Verbatim         == okVerb
NeutralAfterFeed == phase = "feed" => q = Neutral(ctx)
SuffixTokenises  == okSuffix

View == vars
Emit == IF EmitEdges
        THEN PrintT(<<"EDGE", ToJson([ctx |-> ctx, p |-> p, phase |-> phase, lbl |-> lbl',
                                      top |-> p', tophase |-> phase', ok |-> okIn' /\ okVerb' /\ okSuffix'])>>)
        ELSE TRUE
EscTable == [c \in Symbol |-> [sym |-> c, out |-> Esc(c)]]
ASSUME EmitEdges => PrintT(<<"CHARS", ToJson(CharTable)>>)
ASSUME EmitEdges => PrintT(<<"ESC", ToJson([i \in 1..139 |-> EscTable[i - 1]])>>)
ASSUME PrefixTokenises
=============================================================================
