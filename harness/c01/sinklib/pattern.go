package sinklib

import (
	"fmt"
	"strings"

	"golang.org/x/net/html"
)

// A token pattern: what the template author wrote around a dynamic sink.
// Text / attribute values are static strings, or one of the placeholders
//
//	"$V"  the interpolated string, verbatim
//	"$A"  a value whose content is not claimed (structure only)
type PTok struct {
	K     string  `json:"k"` // "start" | "end" | "text"
	Name  string  `json:"name,omitempty"`
	Attrs []PAttr `json:"attrs,omitempty"`
	Text  string  `json:"text,omitempty"`
}
type PAttr struct {
	Name string `json:"name"`
	Val  string `json:"val"`
}

func Start(name string, attrs ...string) PTok {
	t := PTok{K: "start", Name: name}
	for i := 0; i+1 < len(attrs); i += 2 {
		t.Attrs = append(t.Attrs, PAttr{attrs[i], attrs[i+1]})
	}
	return t
}
func End(name string) PTok  { return PTok{K: "end", Name: name} }
func Text(text string) PTok { return PTok{K: "text", Text: text} }

// SpecEvent is an event of spec/HtmlTok.tla, or a placeholder (K = "V"/"A", C = 0 text, 1 attribute value).
type SpecEvent struct {
	K string `json:"k"`
	C int    `json:"c"`
}

func evs(kind, s string) []SpecEvent {
	out := make([]SpecEvent, 0, len(s))
	for i := 0; i < len(s); i++ {
		if s[i] >= 0x80 {
			panic("static markup in patterns must be ASCII")
		}
		out = append(out, SpecEvent{kind, int(s[i])})
	}
	return out
}

func value(kind string, flag int, v string) []SpecEvent {
	switch v {
	case "$V":
		return []SpecEvent{{"V", flag}}
	case "$A":
		return []SpecEvent{{"A", flag}}
	}
	return evs(kind, v)
}

// SpecPattern renders a pattern in HtmlTok's event vocabulary.
func SpecPattern(p []PTok) []SpecEvent {
	var out []SpecEvent
	for _, t := range p {
		switch t.K {
		case "start":
			out = append(out, SpecEvent{"so", -1})
			out = append(out, evs("tn", strings.ToLower(t.Name))...)
			for _, a := range t.Attrs {
				out = append(out, SpecEvent{"ao", -1})
				out = append(out, evs("an", strings.ToLower(a.Name))...)
				out = append(out, value("av", 1, a.Val)...)
			}
			out = append(out, SpecEvent{"te", 0})
		case "end":
			out = append(out, SpecEvent{"eo", -1})
			out = append(out, evs("tn", strings.ToLower(t.Name))...)
			out = append(out, SpecEvent{"te", 0})
		case "text":
			out = append(out, value("ch", 0, t.Text)...)
		}
	}
	return out
}

// item is one element of the alternating text/tag view of a token stream.
type item struct {
	tag   bool
	end   bool
	name  string
	attrs [][2]string
	text  string
}

// Tokenise is the second key: golang.org/x/net/html's tokenizer over the real output, as an
// alternating list text, tag, text, tag, ..., text (texts possibly empty).
func Tokenise(out string) ([]item, error) {
	z := html.NewTokenizer(strings.NewReader(out))
	items := []item{{}}
	for {
		tt := z.Next()
		switch tt {
		case html.ErrorToken:
			if z.Err().Error() == "EOF" {
				return items, nil
			}
			return items, z.Err()
		case html.TextToken:
			items[len(items)-1].text += string(z.Text())
		case html.StartTagToken, html.SelfClosingTagToken, html.EndTagToken:
			tk := z.Token()
			it := item{tag: true, end: tt == html.EndTagToken, name: tk.Data}
			for _, a := range tk.Attr {
				it.attrs = append(it.attrs, [2]string{a.Key, a.Val})
			}
			items = append(items, it, item{})
		case html.CommentToken:
			items = append(items, item{tag: true, name: "!--", text: string(z.Text())}, item{})
		case html.DoctypeToken:
			items = append(items, item{tag: true, name: "!doctype", text: string(z.Text())}, item{})
		}
	}
}

func patItems(p []PTok) []PTok {
	// alternating view of the pattern: text (possibly empty), tag, text, ...
	out := []PTok{{K: "text"}}
	for _, t := range p {
		if t.K == "text" {
			last := &out[len(out)-1]
			if last.Text != "" {
				panic("adjacent text tokens in a pattern")
			}
			last.Text = t.Text
			continue
		}
		out = append(out, t, PTok{K: "text"})
	}
	return out
}

// NormGo is what x/net/html does to text and attribute values besides decoding references:
// CRLF and CR become LF. (It keeps NUL and undecodable bytes, which a browser replaces by U+FFFD.)
func NormGo(s string) string {
	if !strings.Contains(s, "\r") {
		return s
	}
	s = strings.ReplaceAll(s, "\r\n", "\n")
	return strings.ReplaceAll(s, "\r", "\n")
}

func nulNorm(s string) string {
	if strings.IndexByte(s, 0) < 0 {
		return s
	}
	return strings.ReplaceAll(s, "\x00", "\uFFFD")
}

func cmpVal(what, pat, got, v string) (string, string) {
	switch pat {
	case "$A":
		return "", ""
	case "$V":
		// x/net/html hands NUL back as NUL (Data, attribute values) or as U+FFFD (RCDATA/RAWTEXT): the
		// tokenizer's own NUL handling is exempt from the verbatim claim, so compare modulo NUL ~ U+FFFD
		if nulNorm(got) != nulNorm(NormGo(v)) {
			return "verbatim", fmt.Sprintf("%s is %q, the interpolated string is %q", what, got, v)
		}
		return "", ""
	}
	if got != pat {
		return "structure", fmt.Sprintf("static %s is %q, the author wrote %q", what, got, pat)
	}
	return "", ""
}

// MatchGo compares the second key's token stream with the author's pattern; v is the interpolated string.
// Returns "" (holds), "structure" or "verbatim" and a description.
func MatchGo(out string, p []PTok, v string) (string, string) {
	items, err := Tokenise(out)
	if err != nil {
		return "structure", "tokenizer error: " + err.Error()
	}
	pi := patItems(p)
	worst, wdesc := "", ""
	note := func(k, d string) {
		if k == "" {
			return
		}
		if worst == "" || (k == "structure" && worst != "structure") {
			worst, wdesc = k, d
		}
	}
	if len(items) != len(pi) {
		return "structure", fmt.Sprintf("%d tags in the output, the author wrote %d", len(items)/2, len(pi)/2)
	}
	for i := range items {
		it, pt := items[i], pi[i]
		if !it.tag {
			note(cmpVal("text", pt.Text, it.text, v))
			continue
		}
		if pt.K == "text" || it.end != (pt.K == "end") || it.name != strings.ToLower(pt.Name) {
			return "structure", fmt.Sprintf("tag %d is %s%s, the author wrote %s %s", i/2, map[bool]string{true: "/", false: ""}[it.end], it.name, pt.K, pt.Name)
		}
		if len(it.attrs) != len(pt.Attrs) {
			return "structure", fmt.Sprintf("<%s> has %d attributes %q, the author wrote %d", it.name, len(it.attrs), it.attrs, len(pt.Attrs))
		}
		for j, a := range it.attrs {
			if a[0] != strings.ToLower(pt.Attrs[j].Name) {
				return "structure", fmt.Sprintf("attribute %d of <%s> is %q, the author wrote %q", j, it.name, a[0], pt.Attrs[j].Name)
			}
			note(cmpVal("attribute "+a[0], pt.Attrs[j].Val, a[1], v))
		}
	}
	return worst, wdesc
}
