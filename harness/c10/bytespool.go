package main

// c10 bytespool <cases.ndjson> <seed> <events-out.ndjson> [poison]
//
// Replays the terminal behaviours of spec/RenderIOBytes.tla -- sequences of (entry point, component,
// fail after k chunks | ok) -- on the real templ.ToGoHTML and the real buffered templ.Handler, all on
// this one goroutine, so that the renders share the root package's bytes.Buffer pool exactly as the
// model's do (sync.Pool's per-P private slot hands the object of the last Put to the next Get; that
// this actually happened is measured from the verifBytesPool hook events and reported as `reuse`).
// The verdict compares what every render handed to its caller with the component's solo document.
//
// poison: binding self-test -- before every render the harness itself leaves bytes in the pooled object
// (write after release); the carry-over must then be reported.

import (
	"bytes"
	"context"
	"encoding/json"
	"errors"
	"fmt"
	"io"
	"net/http/httptest"
	"strconv"
	"strings"

	"github.com/a-h/templ"

	"verifharness/c10/interp"
	"verifharness/vhlib"
)

type bOp struct {
	E    string `json:"e"`
	Kind string `json:"kind"`
	N    int    `json:"n"`
	K    int    `json:"k"`
}

type bRes struct {
	Err    bool     `json:"err"`
	Status int      `json:"status"`
	Body   []string `json:"body"`
}

type bEv struct {
	Ev    string `json:"ev"`
	Buf   int    `json:"buf"`
	Dirty bool   `json:"dirty"`
}

type bRun struct {
	Op  bOp      `json:"op"`
	Doc []string `json:"doc"`
	Res bRes     `json:"res"`
	Pev []bEv    `json:"pev"`
}

type bCase struct {
	Runs []bRun `json:"runs"`
}

type bReport struct {
	Sequence []string `json:"render_sequence"`
	Render   int      `json:"failing_render"`
	Entry    string   `json:"entry_point"`
	Solo     string   `json:"solo_document"`
	Got      string   `json:"got_result"`
	GotErr   string   `json:"got_error"`
	Status   int      `json:"got_status,omitempty"`
	Want     string   `json:"spec_result"`
	Events   []string `json:"bytes_pool_events"`
	Detail   string   `json:"detail,omitempty"`
}

func bOpString(o bOp) string {
	e := map[string]string{"gohtml": "templ.ToGoHTML", "handler": "templ.Handler(buffered)"}[o.E]
	c := map[string]string{"func": "ComponentFunc", "templ": "generated template"}[o.Kind]
	if o.K < 0 {
		return fmt.Sprintf("%s(%s writing %d chunks): ok", e, c, o.N)
	}
	return fmt.Sprintf("%s(%s writing %d chunks): fails after %d chunks", e, c, o.N, o.K)
}

// component realises the model's component: writes doc[0:k] and then fails (k < 0: writes doc, returns nil).
func bComponent(kind string, doc []string, k int) (templ.Component, error) {
	w := len(doc)
	if k >= 0 {
		w = k
	}
	switch kind {
	case "func":
		return templ.ComponentFunc(func(ctx context.Context, out io.Writer) error {
			for _, c := range doc[:w] {
				if _, err := io.WriteString(out, c); err != nil {
					return err
				}
			}
			if k >= 0 {
				return interp.ErrComp
			}
			return nil
		}), nil
	case "templ":
		// a generated template of expressions; the (k+1)-th expression returns an error
		var items []interp.Item
		for _, c := range doc[:w] {
			c := c
			items = append(items, interp.Item{Kind: interp.KExpr, Fn: func() (string, error) { return c, nil }})
		}
		if k >= 0 {
			items = append(items, interp.Item{Kind: interp.KExpr, Fn: func() (string, error) { return "", interp.ErrExpr }})
		}
		return interp.Interp(items), nil
	}
	return nil, fmt.Errorf("unknown component kind %q", kind)
}

func bCause(kind string) error {
	if kind == "templ" {
		return interp.ErrExpr
	}
	return interp.ErrComp
}

func bytespool(args []string) {
	if len(args) < 3 {
		vhlib.Fatal("usage: bytespool cases seed events [poison]")
	}
	poison := len(args) > 3 && args[3] == "poison"
	_, _ = strconv.ParseInt(args[1], 10, 64)
	rec.Install()
	openTrace(args[2])

	var all []bCase
	if err := vhlib.Each(args[0], func(line []byte) error {
		var c bCase
		if err := json.Unmarshal(line, &c); err != nil {
			return err
		}
		all = append(all, c)
		return nil
	}); err != nil {
		vhlib.Fatal("%v", err)
	}

	var (
		renders, fails, drift, gets, puts, reuse, reuseAfterFailed int
		lastPut                                                    = -1
		lastPutFailedWithOutput                                    bool
		kinds                                                      = map[string]int{}
		driftDoc                                                   = map[string]bool{}
	)
	for ci, c := range all {
		var seq []string
		for _, r := range c.Runs {
			seq = append(seq, bOpString(r.Op))
		}
		for i, r := range c.Runs {
			o := r.Op
			modelDoc := strings.Join(r.Doc, "")
			// the solo document: a fault-free instance of the component rendered alone into a private buffer
			soloC, err := bComponent(o.Kind, r.Doc, -1)
			if err != nil {
				vhlib.Fatal("%v", err)
			}
			var sb bytes.Buffer
			rec.On = false
			err = soloC.Render(context.Background(), &sb)
			rec.On = true
			rec.Take()
			if err != nil {
				vhlib.Fatal("solo render failed: %v", err)
			}
			solo := sb.String()
			if solo != modelDoc && !driftDoc[o.Kind] {
				driftDoc[o.Kind] = true
				drift++
				vhlib.Drift("solo document differs from the model's", map[string]any{"kind": o.Kind, "real": solo, "model": modelDoc})
			}
			comp, _ := bComponent(o.Kind, r.Doc, o.K)
			if poison {
				b := templ.GetBuffer()
				templ.ReleaseBuffer(b)
				b.WriteString("POISON")
				rec.Take()
			}

			renderID++
			rec.Begin(renderID)
			var (
				got    string
				gerr   error
				status int
			)
			switch o.E {
			case "gohtml":
				s, err := templ.ToGoHTML(context.Background(), comp)
				got, gerr = string(s), err
			case "handler":
				rr := httptest.NewRecorder()
				templ.Handler(comp).ServeHTTP(rr, httptest.NewRequest("GET", "/", nil))
				status, got = rr.Code, rr.Body.String()
				if status != 200 {
					gerr = fmt.Errorf("status %d", status)
				}
			default:
				vhlib.Fatal("unknown entry point %q", o.E)
			}
			class := "nil"
			if gerr != nil {
				class = "err"
			}
			rec.End(class)
			evs := rec.Take()
			writeTrace(evs)
			renders++
			kinds[o.E+"/"+o.Kind+"/"+map[bool]string{true: "ok", false: "fail"}[o.K < 0]]++

			var pe []string
			for _, e := range evs {
				if e.Pool != "bytes" {
					continue
				}
				pe = append(pe, fmt.Sprintf("%s buf=%d dirty=%v", e.Ev, e.Buf, e.Dirty))
				switch e.Ev {
				case "get":
					gets++
					if e.Buf == lastPut {
						reuse++
						if lastPutFailedWithOutput {
							reuseAfterFailed++
						}
					}
				case "put":
					puts++
					lastPut = e.Buf
					lastPutFailedWithOutput = o.K > 0
				}
			}

			rep := bReport{Sequence: seq, Render: i + 1, Entry: bOpString(o), Solo: solo, Got: got, GotErr: fmt.Sprint(gerr),
				Status: status, Want: strings.Join(r.Res.Body, ""), Events: pe}
			fail := func(sig, what, detail string) {
				fails++
				if fails <= 8 {
					rep.Detail = detail
					reportFail(sig, what, rep)
				}
			}
			violated := false
			if o.K < 0 {
				switch {
				case gerr != nil:
					violated = true
					fail("NoFaultMeansNil", "no fault occurred in this render but "+o.E+" reported a failure", "")
				case got != solo && len(got) > len(solo) && strings.HasSuffix(got, solo):
					violated = true
					fail("NoCarryOver", "the result of a fault-free render starts with bytes left in the pooled bytes.Buffer by an earlier render",
						fmt.Sprintf("stale prefix %q", got[:len(got)-len(solo)]))
				case got != solo:
					violated = true
					fail("NilMeansComplete", "a fault-free render through "+o.E+" did not produce exactly its solo document", "")
				}
			} else if o.E == "gohtml" {
				switch {
				case gerr == nil:
					violated = true
					fail("FaultMeansError.NestedComponent", "the component returned an error but ToGoHTML returned nil", "")
				case !errors.Is(gerr, bCause(o.Kind)):
					violated = true
					fail("FaultMeansError.WrongCause", "the error returned by ToGoHTML does not wrap the component's error", "")
				}
			}
			if violated {
				continue
			}
			// model-level comparison
			var d []string
			if got != strings.Join(r.Res.Body, "") {
				d = append(d, "result bytes")
			}
			if (gerr != nil) != r.Res.Err || (o.E == "handler" && status != r.Res.Status) {
				d = append(d, "error / status")
			}
			var want, have []string
			for _, e := range r.Pev {
				want = append(want, e.Ev)
			}
			for _, e := range evs {
				if e.Pool == "bytes" {
					have = append(have, e.Ev)
				}
			}
			if !poison && !eqStrings(want, have) {
				d = append(d, fmt.Sprintf("bytes pool events %v vs %v", have, want))
			}
			if len(d) > 0 {
				drift++
				rep.Detail = strings.Join(d, "; ")
				vhlib.Drift("real outcome differs from the model's prediction (property holds)", rep)
			}
		}
		if ci == 0 || ci == len(all)/2 {
			vhlib.Sample(map[string]any{"bytes_pool_sequence": seq})
		}
	}
	traceOut.Close()
	vhlib.Summary(map[string]any{"cases": len(all), "renders": renders, "fails": fails, "drift": drift, "gets": gets, "puts": puts,
		"reuse": reuse, "reuse_after_failed_with_output": reuseAfterFailed, "trace_events": traceN,
		"hook_calls": interp.HooksFired(), "plan_kinds": kinds})
}
