\* C15 negative config: main waits for the wait groups before reading errs: TLC must report a deadlock.
CONSTANTS
  MaxFiles = 2
  Trees <- TreesNeg
  Ws = {2}
  FlagSets <- AllFlags
  Mutex = TRUE
  ErrsCloser = "postgen"
  MainReadsErrs = FALSE
  GenVariants = {1}
  SlotRelease = "deferred"
  TargetRule = "trimsuffix"
  WalkRule = "filesonly"
  OrphanStat = "fileonly"
  RootRule = "exempt"
  RootTrees <- TreesRoot
  SkipRule = "coded"
  TwoRuns = FALSE
  EmitCases = FALSE
INIT Init
NEXT Next
VIEW View
INVARIANTS TypeOK SiblingEqualsSoloGeneration OrphansGoneUnlessKept NothingElseTouched ExitStatusIffSomeFileFailed FailureIsolated SecondRunChangesNothing AtMostWWorkers EachEventOnce NoPanic NoDataRace WaitGroupOK
