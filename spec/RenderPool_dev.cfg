\* C14: development-mode renders sharing the literal cache while the file is rewritten.
CONSTANTS
  G <- G2
  M = 2
  DocLen = 2
  NBuf = 2
  FailAt <- Fail11
  DevMode = TRUE
  MaxVer = 2
  Scratch = FALSE
  DestKinds <- PlainOnly
  Stall <- NoStall
  Bug = "none"
INIT Init
NEXT Next
INVARIANTS TypeOK ExclusiveBuffer Isolated OwnDestinationOnly IndependentOfStalledWriters MutexProtectsCache LiteralsAreAVersion UniqueIds
CHECK_DEADLOCK FALSE
