---------------------------- MODULE MCLspSession ----------------------------
(* LspSession for TLC's simulation mode: prints each finished behaviour for the replay harness (harness/c17). Kept
   apart from LspSession.tla so that the latter stays in the fragment Apalache types (no Json, no TLC). *)
EXTENDS LspSession, TLC, Json
PrintHist == (Len(hist) = HistLen) => PrintT(<<"HIST", ToJson([disk |-> disk, steps |-> hist])>>)
=============================================================================
