\* C15 negative config (the pinned code): the orphan test accepts a DIRECTORY x.templ: the orphan x_templ.go is kept.
CONSTANTS
  MaxFiles = 2
  Trees <- TreesNegOrphan
  Ws = {2}
  FlagSets <- AllFlags
  Mutex = TRUE
  ErrsCloser = "postgen"
  MainReadsErrs = TRUE
  GenVariants = {1}
  SlotRelease = "deferred"
  TargetRule = "trimsuffix"
  WalkRule = "filesonly"
  OrphanStat = "coded"
  RootRule = "exempt"
  RootTrees <- TreesRoot
  SkipRule = "coded"
  TwoRuns = FALSE
  EmitCases = FALSE
INIT Init
NEXT Next
VIEW View
INVARIANTS TypeOK OrphansGoneUnlessKept
