\* C16 negative config 1: HasChanged as coded at the pinned commit must violate NoRebuildMeansFaithful.
CONSTANTS
  MaxItems = 2
  Choices <- ChoicesFull
  ChangeRule = "coded"
  TextHashRule = "joined"
  MaxEdits = 3
  EmitEdges = FALSE
INIT Init
NEXT Next
VIEW View
INVARIANTS TypeOK TextFileCurrent NoRebuildMeansFaithful DevEqualsNormal RenderNeverFails
CHECK_DEADLOCK FALSE
