\* C16 edge emission: every Regenerate transition of the session model with HasChanged as coded after 4de87af (code hash).
CONSTANTS
  MaxItems = 2
  Choices <- ChoicesFull
  ChangeRule = "codehash"
  TextHashRule = "joined"
  MaxEdits = 3
  EmitEdges = TRUE
INIT Init
NEXT Next
VIEW ViewGen
ACTION_CONSTRAINT Emit
INVARIANTS TypeOK DevEqualsNormal
CHECK_DEADLOCK FALSE
