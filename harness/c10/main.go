// c10 replays the terminal behaviours of spec/RenderIO.tla on real generated templ code.
//
//	c10 cases <cases.ndjson> <cap> <seed> <events-out.ndjson> <trace-fraction>
//	    every case = program + per-render fault plan + what the specification predicts; each is rendered
//	    through the generated Interp template into a FaultWriter with runtime.DefaultBufferSize = cap.
//	    Single-render cases are additionally chained (this plan, the next plan of the same program, no
//	    fault) so that every failed render is followed by renders that share the pools.
//	c10 fixtures <repo> <cap> <events-out.ndjson>
//	    the repository's own error/cancel fixtures under every writer fault offset and mode.
//	c10 bytespool <cases.ndjson> <seed> <events-out.ndjson> [poison]
//	    behaviours of spec/RenderIOBytes.tla on templ.ToGoHTML / the buffered templ.Handler (bytespool.go).
package main

import (
	"context"
	"encoding/json"
	"errors"
	"fmt"
	"math/rand"
	"os"
	"path/filepath"
	"strconv"
	"strings"

	"github.com/a-h/templ"
	testattrerrs "github.com/a-h/templ/generator/test-attribute-errors"
	testcancelledcontext "github.com/a-h/templ/generator/test-cancelled-context"
	teststringerrs "github.com/a-h/templ/generator/test-string-errors"
	templruntime "github.com/a-h/templ/runtime"

	"verifharness/c10/interp"
	"verifharness/vhlib"
)

type runExp struct {
	Plan   interp.Plan `json:"plan"`
	Res    string      `json:"res"`
	Sink   []string    `json:"sink"`
	Fired  bool        `json:"fired"`
	SFired bool        `json:"sfired"`
	UF     []int       `json:"uf"`
	Pev    []string    `json:"pev"`
	Evals  int         `json:"evals"`
	Leafs  int         `json:"leafs"`
}

type caseT struct {
	Cap   int         `json:"cap"`
	SW    bool        `json:"sw"`
	Same  bool        `json:"same"`
	Prog  []interp.Op `json:"prog"`
	Doc   []string    `json:"doc"`
	Nev   int         `json:"nev"`
	Nleaf int         `json:"nleaf"`
	Runs  []runExp    `json:"runs"`
}

type report struct {
	Cap      int         `json:"cap"`
	SW       bool        `json:"string_writer"`
	Prog     string      `json:"program"`
	Doc      string      `json:"document"`
	Sequence []string    `json:"render_sequence"`
	Same     bool        `json:"all_renders_to_the_same_writer_value"`
	Render   int         `json:"failing_render"`
	Plan     string      `json:"fault_plan"`
	Got      string      `json:"got_bytes"`
	GotErr   string      `json:"got_error"`
	Want     string      `json:"spec_bytes"`
	WantErr  string      `json:"spec_error"`
	Detail   string      `json:"detail,omitempty"`
	Raw      interface{} `json:"-"`
}

func progString(p []interp.Op) string {
	var sb strings.Builder
	for i, o := range p {
		if i > 0 {
			sb.WriteByte(' ')
		}
		switch o.K {
		case "L", "E", "leaf":
			fmt.Fprintf(&sb, "%s%d", o.K, o.N)
		case "slot":
			sb.WriteString("slot")
		case "X":
			sb.WriteString([]string{"", "attrExpr", "scriptExprOutsideLiteral", "scriptExprInsideStringLiteral"}[o.N])
		case "call", "flush":
			fmt.Fprintf(&sb, "%s(%s)", o.K, progString(o.A))
		case "hcb":
			fmt.Fprintf(&sb, "%s{%s}", []string{"passthrough", "collector"}[o.N], progString(o.A))
		default:
			fmt.Fprintf(&sb, "%s(%s | %s)", o.K, progString(o.A), progString(o.B))
		}
	}
	return sb.String()
}

func planString(p interp.Plan) string {
	s := "writer:none"
	if p.W.M != "none" {
		s = fmt.Sprintf("writer fails at byte %d mode %s", p.W.K, p.W.M)
	}
	switch p.L.K {
	case "expr":
		s += fmt.Sprintf("; expression evaluation #%d returns an error", p.L.J)
	case "leaf":
		s += fmt.Sprintf("; nested component call #%d returns an error", p.L.J)
	case "cancel":
		s += "; context cancelled before Render"
	case "cancelat":
		s += fmt.Sprintf("; context cancelled by expression evaluation #%d", p.L.J)
	}
	if p.S.M != "" && p.S.M != "none" {
		s += fmt.Sprintf("; the collecting component's own writer fails at byte %d", p.S.K)
	}
	return s
}

var (
	rec        = func() *interp.Recorder { r := interp.NewRecorder(); r.FixedG = 1; return r }()
	renderID   int64
	singleLine [2]int
	multiLine  [2]int
	stats      = map[string]int{}
	traceOut   *os.File
	traceEnc   *json.Encoder
	traceN     int
)

type outcome struct {
	sink    string
	err     error
	class   string
	fired   bool
	flushes []int
	rs      interp.RenderState
	events  []interp.Event
	fw      *interp.FaultWriter
}

// render performs one Render of the program under a fault plan.
// reuse: the writer VALUE of the previous render of the sequence (nil = a new one): the same object is rendered
// to again after it has recovered from its failure and its record has been emptied.
func render(comp templ.Component, rs *interp.RenderState, plan interp.Plan, sw bool, reuse *interp.FaultWriter) outcome {
	ctx, cancel := context.WithCancel(context.Background())
	defer cancel()
	rs.SW = sw
	rs.Reset(plan, cancel)
	if plan.L.K == "cancel" {
		cancel()
	}
	renderID++
	fw := reuse
	if fw == nil {
		fw = &interp.FaultWriter{}
	}
	fw.ID, fw.K, fw.M = renderID, plan.W.K, plan.W.M
	fw.Dead, fw.Buf, fw.Flushes, fw.Calls = false, nil, nil, 0
	rec.Begin(renderID)
	var err error
	func() {
		defer func() {
			if r := recover(); r != nil {
				err = fmt.Errorf("panic: %v", r)
			}
		}()
		err = comp.Render(ctx, fw.Writer(sw))
	}()
	class := interp.Classify(err)
	rec.End(class)
	return outcome{sink: string(fw.Buf), err: err, class: class, fired: fw.Dead, flushes: fw.Flushes, rs: *rs, events: rec.Take(), fw: fw}
}

// referenceDoc is the full document of a program on the real code: a fault-free render through a private
// *runtime.Buffer (GetBuffer finds an existing buffer, so neither pool is involved).
func referenceDoc(comp templ.Component, rs *interp.RenderState) (string, error) {
	none := interp.Plan{}
	none.W.K, none.W.M, none.L.K = -1, "none", "none"
	rs.Reset(none, nil)
	var sb strings.Builder
	b := &templruntime.Buffer{}
	b.Reset(&sb)
	rec.On = false
	defer func() { rec.On = true }()
	if err := comp.Render(context.Background(), b); err != nil {
		return "", err
	}
	if err := b.Flush(); err != nil {
		return "", err
	}
	return sb.String(), nil
}

// reportFail passes at most maxPerSignature failing cases of one signature on to the check (the check
// prints a bounded number of violations; a flood of one signature must not hide the others, e.g. those
// that come from the trace validation). All of them are counted in failsBySig.
const maxPerSignature = 2

var failsBySig = map[string]int{}

func reportFail(sig, what string, c any) {
	failsBySig[sig]++
	if failsBySig[sig] <= maxPerSignature {
		vhlib.Fail(sig, what, c)
	}
}

func poolEvents(ev []interp.Event) []string {
	var out []string
	for _, e := range ev {
		switch e.Ev {
		case "acquire", "existing", "release":
			out = append(out, e.Ev)
		case "flush":
			out = append(out, "flush:"+e.Err)
		}
	}
	return out
}

func eqStrings(a, b []string) bool {
	if len(a) != len(b) {
		return false
	}
	for i := range a {
		if a[i] != b[i] {
			return false
		}
	}
	return true
}

func eqInts(a, b []int) bool {
	if len(a) != len(b) {
		return false
	}
	for i := range a {
		if a[i] != b[i] {
			return false
		}
	}
	return true
}

// check compares one real render with the property (violations) and with the model's prediction (drift).
// afterFailure: an earlier render of this sequence failed (attribution of carry-over).
func check(c *caseT, doc string, modelOK bool, seq []string, idx int, exp runExp, o outcome, afterFailure bool) {
	want := strings.Join(exp.Sink, "")
	rep := report{Cap: c.Cap, SW: c.SW, Prog: progString(c.Prog), Doc: doc, Sequence: seq, Same: c.Same, Render: idx + 1,
		Plan: planString(exp.Plan), Got: o.sink, GotErr: fmt.Sprint(o.err), Want: want, WantErr: exp.Res}
	fail := func(sig, what, detail string) {
		rep.Detail = detail
		stats["fails"]++
		reportFail(sig, what, rep)
	}
	lfired := exp.Plan.L.K == "cancel" || o.rs.ExprErr || o.rs.LeafErr || o.rs.SideFired
	anyFault := o.fired || lfired
	carry := ""
	if afterFailure {
		carry = " (after a failed render that shared the pool)"
	}
	stats["renders"]++
	violated := false
	switch {
	case !strings.HasPrefix(doc, o.sink):
		violated = true
		sig := "Prefix"
		if afterFailure && !anyFault {
			sig = "NoCarryOver"
		}
		fail(sig, "the bytes the writer received are not a prefix of the full document"+carry, "")
	case o.err == nil && o.sink != doc:
		violated = true
		sig := "NilMeansComplete"
		if anyFault {
			sig = "FaultMeansError." + faultKind(exp.Plan, o)
		} else if afterFailure {
			sig = "NoCarryOver"
		}
		fail(sig, "Render returned nil but the writer did not receive the full document"+carry, "")
	case anyFault && o.err == nil:
		violated = true
		fail("FaultMeansError."+faultKind(exp.Plan, o), "a fault occurred but Render returned nil", "")
	case !anyFault && !o.rs.CancelFired && o.err != nil:
		violated = true
		sig := "NoFaultMeansNil"
		if afterFailure {
			sig = "NoCarryOver"
		}
		fail(sig, "no fault occurred in this render but Render returned an error"+carry, "")
	}
	if !violated && o.err != nil {
		// the error must wrap a cause that actually occurred
		ok := false
		switch o.class {
		case "inj":
			ok = o.fired
		case "short":
			ok = o.fired && (exp.Plan.W.M == "short" || exp.Plan.W.M == "zero")
		case "expr":
			ok = o.rs.ExprErr
		case "comp":
			ok = o.rs.LeafErr
		case "sinj":
			ok = o.rs.SideFired
		case "ctx":
			ok = exp.Plan.L.K == "cancel" || o.rs.CancelFired
		}
		if !ok {
			violated = true
			fail("FaultMeansError.WrongCause", "the returned error does not wrap a cause that occurred in this render", "class="+o.class)
		} else if o.class == "expr" {
			var te templ.Error
			if !errors.As(o.err, &te) {
				violated = true
				fail("ExprErrorPosition.NotTemplError", "an expression error is not wrapped in templ.Error", "")
			} else {
				inS := te.Line >= singleLine[0] && te.Line <= singleLine[1]
				for _, l := range interp.OtherExprLines {
					inS = inS || te.Line == l
				}
				inM := te.Line >= multiLine[0] && te.Line <= multiLine[1]
				if filepath.Base(te.FileName) != "interp.templ" || !(inS || inM) {
					violated = true
					fail("ExprErrorPosition.FileOrLine", "templ.Error does not name the template file and a line inside the failing expression",
						fmt.Sprintf("file=%q line=%d col=%d; expressions at lines %v and %v", te.FileName, te.Line, te.Col, singleLine, multiLine))
				}
			}
		}
	}
	if !violated && modelOK && o.rs.Evals > exp.Evals {
		violated = true
		fail("FailStop.EvalAfterError", "an expression was evaluated after an error had been returned to the generated code",
			fmt.Sprintf("evaluations: real %d, specification %d", o.rs.Evals, exp.Evals))
	}
	// OneOwnerFlushes, independent of the model: whoever acquired a pooled buffer flushed and released it before
	// Render returned (otherwise what it buffered never reaches its writer and that writer's failure is never seen)
	acq, rel, fl := 0, 0, 0
	for _, e := range o.events {
		switch e.Ev {
		case "acquire":
			acq++
		case "release":
			rel++
		case "flush":
			fl++
		}
	}
	if !violated && (acq != rel || acq != fl) {
		violated = true
		fail("OneOwnerFlushes.AcquiredNotReleased", "a pooled buffer acquired during the render was not flushed and released before Render returned",
			fmt.Sprintf("pool events %v", poolEvents(o.events)))
	}
	if violated {
		return
	}
	if !modelOK {
		return // the model's document for this program differs from the real one: reported once per program
	}
	// model-level comparison: exact prediction
	var d []string
	if o.sink != want {
		d = append(d, "sink")
	}
	if o.class != exp.Res {
		d = append(d, "error class")
	}
	if o.fired != exp.Fired || o.rs.SideFired != exp.SFired {
		d = append(d, "writer-failed flag")
	}
	if o.rs.Evals != exp.Evals || o.rs.Leafs != exp.Leafs {
		d = append(d, "evaluation counts")
	}
	if !eqInts(o.flushes, exp.UF) {
		d = append(d, fmt.Sprintf("http.Flusher calls %v vs %v", o.flushes, exp.UF))
	}
	if pe := poolEvents(o.events); !eqStrings(pe, exp.Pev) {
		d = append(d, fmt.Sprintf("pool events %v vs %v", pe, exp.Pev))
	}
	for _, e := range o.events {
		if e.Ev == "acquire" && e.Dirty {
			stats["fails"]++
			rep.Detail = "acquire event reports buffered bytes or a sticky error after Reset"
			reportFail("NoCarryOver", "a buffer was acquired that is not empty with a nil error", rep)
		}
	}
	if len(d) > 0 {
		stats["drift"]++
		rep.Detail = strings.Join(d, "; ")
		vhlib.Drift("real outcome differs from the model's prediction (property holds)", rep)
	}
}

func faultKind(p interp.Plan, o outcome) string {
	switch {
	case o.rs.ExprErr:
		return "Expr"
	case o.rs.LeafErr:
		return "NestedComponent"
	case o.rs.SideFired:
		return "CollectorWriter"
	case p.L.K == "cancel":
		return "Cancelled"
	case o.fired:
		return "Writer." + p.W.M
	}
	return "None"
}

func writeTrace(ev []interp.Event) {
	if traceEnc == nil {
		return
	}
	for _, e := range ev {
		traceEnc.Encode(e)
		traceN++
	}
}

func main() {
	if len(os.Args) < 2 {
		vhlib.Fatal("usage")
	}
	var err error
	if singleLine, multiLine, err = interp.ExprLines(); err != nil {
		vhlib.Fatal("%v", err)
	}
	switch os.Args[1] {
	case "cases":
		cases(os.Args[2:])
	case "fixtures":
		fixtures(os.Args[2:])
	case "bytespool":
		bytespool(os.Args[2:])
	default:
		vhlib.Fatal("unknown mode %s", os.Args[1])
	}
}

func openTrace(path string) {
	f, err := os.Create(path)
	if err != nil {
		vhlib.Fatal("%v", err)
	}
	traceOut = f
	traceEnc = json.NewEncoder(f)
}

func cases(args []string) {
	if len(args) < 5 {
		vhlib.Fatal("usage: cases file cap seed events fraction")
	}
	cap_, _ := strconv.Atoi(args[1])
	seed, _ := strconv.ParseInt(args[2], 10, 64)
	frac, _ := strconv.ParseFloat(args[4], 64)
	templruntime.DefaultBufferSize = cap_ // before the first Buffer exists: every pooled buffer has this size
	rec.Install()
	openTrace(args[3])
	rng := rand.New(rand.NewSource(seed))

	var all []*caseT
	err := vhlib.Each(args[0], func(line []byte) error {
		var c caseT
		if err := json.Unmarshal(line, &c); err != nil {
			return err
		}
		if c.Cap == cap_ {
			all = append(all, &c)
		}
		return nil
	})
	if err != nil {
		vhlib.Fatal("%v", err)
	}
	groups := map[string][]*caseT{}
	var order []string
	for _, c := range all {
		k := fmt.Sprintf("%v|%s", c.SW, progString(c.Prog))
		if _, ok := groups[k]; !ok {
			order = append(order, k)
		}
		groups[k] = append(groups[k], c)
	}
	ncases, samples := 0, 0
	kinds := map[string]int{}
	for _, k := range order {
		g := groups[k]
		rs := &interp.RenderState{}
		items, err := interp.Build(g[0].Prog, rs)
		if err != nil {
			vhlib.Fatal("%v", err)
		}
		comp := interp.Interp(items)
		doc, rerr := referenceDoc(comp, rs)
		modelDoc := strings.Join(g[0].Doc, "")
		if rerr != nil {
			stats["fails"]++
			reportFail("NoFaultMeansNil", "the program does not render without a fault", map[string]any{"program": progString(g[0].Prog), "error": rerr.Error()})
			doc = modelDoc
		}
		modelOK := doc == modelDoc
		if !modelOK {
			stats["drift"]++
			stats["doc_drift_programs"]++
			vhlib.Drift("the full document of a program differs from the model's denotation (children/slot semantics); "+
				"the property is checked against the real fault-free document", map[string]any{"program": progString(g[0].Prog), "real": doc, "model": modelDoc})
		}
		none := interp.Plan{}
		none.W.K, none.W.M, none.L.K = -1, "none", "none"
		none.S.K, none.S.M = -1, "none"
		for i, c := range g {
			ncases++
			keep := rng.Float64() < frac
			var seq []string
			var exps []runExp
			if len(c.Runs) == 1 {
				nxt := g[(i+1)%len(g)]
				exps = []runExp{c.Runs[0]}
				if len(nxt.Runs) == 1 {
					exps = append(exps, nxt.Runs[0])
				}
				exps = append(exps, runExp{Plan: none, Res: "nil", Sink: c.Doc, UF: nil, Pev: nil, Evals: c.Nev, Leafs: c.Nleaf})
			} else {
				exps = c.Runs
			}
			for _, e := range exps {
				seq = append(seq, planString(e.Plan))
			}
			failedBefore := false
			// one writer value for the whole sequence: the model's same-writer sequences, and every other chain
			sameWriter := c.Same || (len(c.Runs) == 1 && i%2 == 0)
			var prevW *interp.FaultWriter
			prevBuf := 0
			for j, e := range exps {
				var reuse *interp.FaultWriter
				if sameWriter {
					reuse = prevW
				}
				o := render(comp, rs, e.Plan, c.SW, reuse)
				prevW = o.fw
				for _, ev := range o.events {
					if ev.Ev == "acquire" && ev.W == o.fw.ID {
						if sameWriter && j > 0 && ev.Buf == prevBuf {
							stats["same_writer_same_buffer"]++
							if failedBefore {
								stats["same_writer_same_buffer_after_failure"]++
							}
						}
						prevBuf = ev.Buf
					}
				}
				if j == len(exps)-1 && len(c.Runs) == 1 {
					// the closing fault-free render of a chain: flush/pool details are those of the model's
					// fault-free case; compare the property and the bytes only
					e.UF, e.Pev = o.flushes, poolEvents(o.events)
				}
				cc := *c
				cc.Same = sameWriter
				check(&cc, doc, modelOK, seq, j, e, o, failedBefore)
				if o.err != nil {
					failedBefore = true
				}
				kinds[e.Plan.W.M+"/"+e.Plan.L.K]++
				if e.Plan.S.M == "err" {
					kinds["collector-writer/err"]++
				}
				if keep {
					writeTrace(o.events)
				}
			}
			if samples < 3 && ncases%1499 == 7 {
				samples++
				e := c.Runs[0]
				vhlib.Sample(map[string]any{"program": progString(c.Prog), "cap": c.Cap, "document": strings.Join(c.Doc, ""),
					"fault_plan": planString(e.Plan), "spec_bytes": strings.Join(e.Sink, ""), "spec_error": e.Res})
			}
		}
	}
	traceOut.Close()
	vhlib.Summary(map[string]any{"cases": ncases, "programs": len(order), "renders": stats["renders"], "fails": stats["fails"],
		"fails_by_signature": failsBySig, "same_writer_same_buffer": stats["same_writer_same_buffer"],
		"same_writer_same_buffer_after_failure": stats["same_writer_same_buffer_after_failure"], "drift": stats["drift"], "doc_drift_programs": stats["doc_drift_programs"], "trace_events": traceN, "hook_calls": interp.HooksFired(), "plan_kinds": kinds})
}

// ---------------------------------------------------------------------------------------------

type fixture struct {
	name string
	mk   func(err error) templ.Component
	src  string // template file relative to the repository
	mark string // text of the failing expression
}

func fixtures(args []string) {
	if len(args) < 3 {
		vhlib.Fatal("usage: fixtures repo cap events")
	}
	repo := args[0]
	cap_, _ := strconv.Atoi(args[1])
	templruntime.DefaultBufferSize = cap_
	rec.Install()
	openTrace(args[2])
	fx := []fixture{
		{"test-string-errors", teststringerrs.TestComponent, "generator/test-string-errors/template.templ", "funcWithError(err)"},
		{"test-attribute-errors", testattrerrs.TestComponent, "generator/test-attribute-errors/template.templ", "funcWithError(err)"},
		{"test-cancelled-context", func(error) templ.Component { return testcancelledcontext.EmptyComponent() }, "generator/test-cancelled-context/template.templ", ""},
	}
	renders, fails := 0, 0
	for _, f := range fx {
		line := 0
		if f.mark != "" {
			b, err := os.ReadFile(filepath.Join(repo, f.src))
			if err != nil {
				vhlib.Fatal("%v", err)
			}
			for i, l := range strings.Split(string(b), "\n") {
				if strings.Contains(l, "{ "+f.mark+" }") {
					line = i + 1
				}
			}
			if line == 0 {
				vhlib.Fatal("expression %q not found in %s", f.mark, f.src)
			}
		}
		run := func(c templ.Component, k int, mode string, cancelled bool) (string, error, bool) {
			ctx, cancel := context.WithCancel(context.Background())
			defer cancel()
			if cancelled {
				cancel()
			}
			renderID++
			fw := &interp.FaultWriter{ID: renderID, K: k, M: mode}
			rec.Begin(renderID)
			err := c.Render(ctx, fw)
			rec.End(interp.Classify(err))
			writeTrace(rec.Take())
			renders++
			return string(fw.Buf), err, fw.Dead
		}
		bad := func(sig, what string, detail any) {
			fails++
			reportFail(sig, f.name+": "+what, detail)
		}
		doc, err, _ := run(f.mk(nil), -1, "none", false)
		if err != nil {
			bad("NoFaultMeansNil", "fixture does not render without a fault", fmt.Sprint(err))
			continue
		}
		for _, mode := range []string{"err", "short", "zero"} {
			for k := 0; k <= len(doc); k++ {
				got, err, fired := run(f.mk(nil), k, mode, false)
				d := map[string]any{"fixture": f.name, "offset": k, "mode": mode, "got": got, "err": fmt.Sprint(err), "document": doc}
				switch {
				case !strings.HasPrefix(doc, got):
					bad("Prefix", "bytes received are not a prefix of the document", d)
				case err == nil && got != doc:
					bad("FaultMeansError.Writer."+mode, "Render returned nil but the document is incomplete", d)
				case fired && err == nil:
					bad("FaultMeansError.Writer."+mode, "the writer failed but Render returned nil", d)
				case fired && !(errors.Is(err, interp.ErrInjected) || interp.Classify(err) == "short"):
					bad("FaultMeansError.WrongCause", "the error does not wrap the writer's failure", d)
				case !fired && err != nil:
					bad("NoCarryOver", "no fault occurred but Render returned an error", d)
				}
				// and a fault-free render right after the failed one
				got2, err2, _ := run(f.mk(nil), -1, "none", false)
				if err2 != nil || got2 != doc {
					bad("NoCarryOver", "a fault-free render after a failed one is not exact", map[string]any{"after": d, "got": got2, "err": fmt.Sprint(err2)})
				}
			}
		}
		if f.mark != "" {
			got, err, _ := run(f.mk(interp.ErrExpr), -1, "none", false)
			var te templ.Error
			d := map[string]any{"fixture": f.name, "got": got, "err": fmt.Sprint(err), "document": doc, "expression_line": line}
			switch {
			case err == nil || !errors.Is(err, interp.ErrExpr):
				bad("FaultMeansError.Expr", "the expression's error is not returned", d)
			case !strings.HasPrefix(doc, got):
				bad("Prefix", "bytes received are not a prefix of the document", d)
			case !errors.As(err, &te):
				bad("ExprErrorPosition.NotTemplError", "expression error not wrapped in templ.Error", d)
			case !strings.HasSuffix(filepath.ToSlash(te.FileName), f.src) && filepath.Base(te.FileName) != "template.templ":
				bad("ExprErrorPosition.FileOrLine", "templ.Error names a different file", d)
			case te.Line != line:
				d["line"] = te.Line
				bad("ExprErrorPosition.FileOrLine", "templ.Error line is outside the failing expression", d)
			}
		}
		got, err, _ := run(f.mk(nil), -1, "none", true)
		if !errors.Is(err, context.Canceled) || got != "" {
			bad("FaultMeansError.Cancelled", "cancelled context: expected context.Canceled and no output", map[string]any{"fixture": f.name, "got": got, "err": fmt.Sprint(err)})
		}
	}
	traceOut.Close()
	vhlib.Summary(map[string]any{"renders": renders, "fails": fails, "fails_by_signature": failsBySig, "trace_events": traceN, "hook_calls": interp.HooksFired()})
}
