\* C14: destination kinds -- plain writer, the goroutine's own bufio.Writer (big / small) or runtime.Buffer; bytes reach only their own destination.
CONSTANTS
  G <- G2
  M = 2
  DocLen = 2
  NBuf = 2
  FailAt <- Fail11
  DevMode = FALSE
  MaxVer = 1
  Scratch = FALSE
  DestKinds <- AllDests
  Stall <- NoStall
  Bug = "none"
INIT Init
NEXT Next
INVARIANTS TypeOK ExclusiveBuffer Isolated OwnDestinationOnly IndependentOfStalledWriters MutexProtectsCache LiteralsAreAVersion UniqueIds
CHECK_DEADLOCK FALSE
