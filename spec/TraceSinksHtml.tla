--------------------------- MODULE TraceSinksHtml ---------------------------
(* C01 (and the rendered-href clause of C04) -- trace validation of REAL outputs.

   The harness renders every sink of the generated gallery with a concrete string and logs, per case,
     [id, sink, in, out]   in  = the symbols of the string that was interpolated,
                           out = the symbols of the COMPLETE real output of the component.
   sinks.json gives per sink the token pattern the template author wrote, in HtmlTok's event
   vocabulary, with two placeholder kinds at the dynamic position:
     [k |-> "V", c |-> 0|1]   the interpolated string, verbatim, as one run of "ch" (0) / "av" (1) events
     [k |-> "A", c |-> 0|1]   a run of "ch"/"av" events whose content is not claimed (RAWTEXT parents,
                              sanitiser results, script bodies): structure only
   This spec runs HtmlTok (PreStep + Step) over `out` and feeds every emitted event to a matcher:
     Structure  (InContext at the level of the whole output): the event stream is exactly the author's
                pattern with SOME run at each placeholder -- nothing added, nothing split;
     Verbatim   the run at a "V" placeholder is the input, modulo the tokenizer's input preprocessing
                (the same relation as Expected in SinksHtml.tla: CR->LF, LF after CR dropped, NUL as
                NUL or U+FFFD, undecodable byte -> U+FFFD).
   Tokenizer and matcher are folded together with FoldLeft (no event list is built, no deep recursion).
   One TLC run validates a whole batch: every step consumes one line, failing case ids are collected
   (not stopped at) and printed at the end together with the number of consumed lines.             *)
EXTENDS HtmlTok, Json
LOCAL INSTANCE SequencesExt

Trace == ndJsonDeserialize("trace.ndjson")
Sinks == JsonDeserialize("sinks.json")

VARIABLES i, fails
vars == <<i, fails>>

Kind(n) == IF n = 1 THEN "av" ELSE "ch"
IsHole(pe) == pe.k = "A" \/ pe.k = "V"

(* matcher state: pi pattern index, j next input index inside a V run, pcr "previous input symbol was CR",
   sok structure holds so far, vok verbatim holds so far *)
M0 == [pi |-> 1, j |-> 1, pcr |-> FALSE, sok |-> TRUE, vok |-> TRUE]

\* leaving the hole at pat[m.pi]: a V run must have consumed the whole input (a final LF after CR yields no event)
Leave(pat, in, m) ==
    LET pe   == pat[m.pi]
        done == m.j > Len(in) \/ (m.j = Len(in) /\ in[m.j] = cLF /\ m.pcr)
    IN  [m EXCEPT !.pi = m.pi + 1, !.j = 1, !.pcr = FALSE, !.vok = m.vok /\ (pe.k = "A" \/ done)]

\* one event of a V run against the input
RECURSIVE VEat(_, _, _)
VEat(in, m, got) ==
    IF m.j > Len(in) THEN [m EXCEPT !.vok = FALSE]
    ELSE LET x == in[m.j] IN
         IF x = cLF /\ m.pcr THEN VEat(in, [m EXCEPT !.j = m.j + 1, !.pcr = FALSE], got)
         ELSE LET ok == IF x = cCR THEN got = cLF
                        ELSE IF x = cNUL THEN got \in {cNUL, kFFFD}
                        ELSE IF x = kBADBYTE THEN got = kFFFD
                        ELSE got = x
              IN  [m EXCEPT !.j = m.j + 1, !.pcr = (x = cCR), !.vok = m.vok /\ ok]

RECURSIVE MStep(_, _, _, _)
MStep(pat, in, m, ev) ==
    IF ~m.sok THEN m
    ELSE IF m.pi > Len(pat) THEN [m EXCEPT !.sok = FALSE]
    ELSE LET pe == pat[m.pi] IN
         IF IsHole(pe)
         THEN IF ev.k = Kind(pe.c)
              THEN IF pe.k = "V" /\ m.vok THEN VEat(in, m, ev.c) ELSE m
              ELSE MStep(pat, in, Leave(pat, in, m), ev)
         ELSE IF ev.k = pe.k /\ ev.c = pe.c THEN [m EXCEPT !.pi = m.pi + 1]
         ELSE [m EXCEPT !.sok = FALSE]

RECURSIVE MSteps(_, _, _, _, _)
MSteps(pat, in, m, evs, n) == IF n > Len(evs) THEN m ELSE MSteps(pat, in, MStep(pat, in, m, evs[n]), evs, n + 1)

RECURSIVE MFinish(_, _, _)
MFinish(pat, in, m) ==
    IF ~m.sok \/ m.pi > Len(pat) THEN m
    ELSE IF IsHole(pat[m.pi]) THEN MFinish(pat, in, Leave(pat, in, m))
    ELSE [m EXCEPT !.sok = FALSE]

\* tokenizer + matcher over out, folded iteratively (SequencesExt!FoldLeft has a Java override: no deep recursion)
FoldOp(pat, in, acc, c) ==
    LET pr == PreStep(acc.p, c) IN
    IF pr.out = <<>> THEN [acc EXCEPT !.p = pr.p]
    ELSE LET r == Step(acc.q, pr.out[1]) IN
         [q |-> r.q, p |-> pr.p, m |-> MSteps(pat, in, acc.m, r.out, 1)]
Fold(pat, in, out) ==
    LET f == FoldLeft(LAMBDA acc, c : FoldOp(pat, in, acc, c), [q |-> InitTok, p |-> FALSE, m |-> M0], out)
    IN  [q |-> f.q, m |-> MFinish(pat, in, f.m)]

Verdict(t) ==
    LET f == Fold(Sinks[t.sink].pat, t.in, t.out) IN
    IF ~(f.m.sok /\ AtRest(f.q)) THEN "structure"
    ELSE IF ~f.m.vok THEN "verbatim"
    ELSE "ok"

Init == i = 1 /\ fails = <<>>
Next == /\ i <= Len(Trace)
        /\ LET v == Verdict(Trace[i]) IN
           fails' = IF v = "ok" THEN fails ELSE Append(fails, [id |-> Trace[i].id, why |-> v])
        /\ i' = i + 1
        /\ (i = Len(Trace) => PrintT(<<"DONE", ToJson([consumed |-> i, fails |-> fails'])>>))
Spec == Init /\ [][Next]_vars
\* acceptance: every line was consumed (the check script also compares `consumed` with the number of lines it wrote)
AllConsumed == TLCGet("stats").distinct = Len(Trace) + 1
=============================================================================
