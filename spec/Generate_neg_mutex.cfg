\* C15 negative config: UpsertHash without the mutex must violate NoDataRace.
CONSTANTS
  MaxFiles = 2
  Trees <- TreesNeg
  Ws = {2}
  FlagSets <- AllFlags
  Mutex = FALSE
  ErrsCloser = "postgen"
  MainReadsErrs = TRUE
  GenVariants = {1}
  SlotRelease = "deferred"
  TargetRule = "trimsuffix"
  WalkRule = "filesonly"
  OrphanStat = "fileonly"
  RootRule = "exempt"
  RootTrees <- TreesRoot
  SkipRule = "coded"
  TwoRuns = FALSE
  EmitCases = FALSE
INIT Init
NEXT Next
VIEW View
INVARIANTS TypeOK SiblingEqualsSoloGeneration OrphansGoneUnlessKept NothingElseTouched ExitStatusIffSomeFileFailed FailureIsolated SecondRunChangesNothing AtMostWWorkers EachEventOnce NoPanic NoDataRace WaitGroupOK
