\* C06 totality: under the contract every loop invocation has at most N+1 tops and every parse ends.
CONSTANTS
  N = 3
  Loops <- LoopsDef
  MaxDepth = 2
  MaxTries = 2
  Faulty = FALSE
  Extra = 0
  Reparse = FALSE
SPECIFICATION Spec
INVARIANTS CursorInBounds TopBound LastInBounds ReparseBound
PROPERTIES Termination
CHECK_DEADLOCK FALSE
