\* C06 trace validation of loop-top events (the model constants are unused by the trace actions).
CONSTANTS
  N = 0
  Loops = {}
  MaxDepth = 0
  MaxTries = 0
  Faulty = FALSE
  Extra = 0
  Reparse = FALSE
  TraceReparseLimit = 16
INIT TInit
NEXT TNext
INVARIANTS Summary
POSTCONDITION AllConsumed
CHECK_DEADLOCK FALSE
