\* C03 negative: '<' entry deleted from the in-literal table must violate StaysInScript/NoHtmlComment
CONSTANTS
  StrVariant = "nolt"
  JsonVariant = "std"
  HtmlVariant = "std"
  Positions <- PositionsDef
  EmitEdges = FALSE
INIT Init
NEXT Next
VIEW View

INVARIANTS TypeOK StaysInScript NoHtmlComment StaysInLiteral NoInterpolation DecodesToInput
CHECK_DEADLOCK FALSE
