\* Formatter layout model (FmtLayout.tla) over this family; code as it is (after the repairs).
\* Simulation: all kinds, deep programs (use with -simulate).
CONSTANTS
  NonTrailerRule = "source"
  ForcedBreaks = "asCoded"
  MaxNodes = 14
  MaxDepth = 5
  Kinds = {"text", "expr", "el", "void", "if", "elif", "else", "for", "switch", "call", "callb", "slot", "hcomment", "gcomment", "mcomment", "gocodeml", "raw", "gocode", "gocodei", "doctype"}
  InlineNames = {"span", "a", "x-tag"}
  BlockNames = {"div", "p"}
  VoidNames = {"img", "br", "input", "wbr"}
  AttrChoices <- AttrChoicesSmall
  WsChoices = {"", "h", "v"}
  Words = {"w1", "w2", "w3", "w4"}
  Exprs = {"E1", "E3"}
  Conds = {"C1", "C2"}
  Lists = {"L1"}
  EnvSeq <- EnvSeqDef
INIT Init
NEXT Next
VIEW View
INVARIANTS TypeOK Idempotent FmtKeepsTokens FmtKeepsMust EmitFmt
CHECK_DEADLOCK FALSE
