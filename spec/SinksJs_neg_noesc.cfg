\* C03 negative: SafeScript without EscapeString must end the attribute
CONSTANTS
  StrVariant = "dollar"
  JsonVariant = "std"
  HtmlVariant = "none"
  Positions <- PositionsDef
  EmitEdges = FALSE
INIT Init
NEXT Next
VIEW View

INVARIANTS TypeOK StaysInScript NoHtmlComment StaysInLiteral NoInterpolation DecodesToInput
CHECK_DEADLOCK FALSE
