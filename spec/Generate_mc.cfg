\* C15 design check: all schedules of Run for every tree of the protocol universe (<= MaxFiles files), all flags, W in {1,2,3}, two runs. Deadlock check ON.
CONSTANTS
  MaxFiles = 2
  Trees <- TreesProto
  Ws = {1, 2, 3}
  FlagSets <- AllFlags
  Mutex = TRUE
  ErrsCloser = "postgen"
  MainReadsErrs = TRUE
  GenVariants = {1}
  SlotRelease = "deferred"
  TargetRule = "trimsuffix"
  WalkRule = "filesonly"
  OrphanStat = "fileonly"
  RootRule = "exempt"
  RootTrees <- TreesRoot
  SkipRule = "coded"
  TwoRuns = TRUE
  EmitCases = FALSE
INIT Init
NEXT Next
VIEW View
INVARIANTS TypeOK SiblingEqualsSoloGeneration OrphansGoneUnlessKept NothingElseTouched ExitStatusIffSomeFileFailed FailureIsolated SecondRunChangesNothing AtMostWWorkers EachEventOnce NoPanic NoDataRace WaitGroupOK
