\* C03 escapers as coded at the pin satisfy every clause except NoInterpolation inside template literals
CONSTANTS
  StrVariant = "pinned"
  JsonVariant = "std"
  HtmlVariant = "std"
  Positions <- PositionsDef
  EmitEdges = FALSE
INIT Init
NEXT Next
VIEW View

INVARIANTS TypeOK StaysInScript NoHtmlComment StaysInLiteralBut NoInterpolationBut DecodesToInputBut NeutralAfterFeed SuffixTerminates
CHECK_DEADLOCK FALSE
