\* C03 negative: a parser that ignores backslash escapes must be rejected
CONSTANTS
  EscMode = "none"
  CommentGuard = TRUE
  NlReset = FALSE
  MaxPre = 1
  EmitCases = FALSE
INIT Init
NEXT Next
VIEW View
INVARIANTS QuoteStateAgrees
CHECK_DEADLOCK FALSE
