\* C03 edge emission (StrVariant is overridden by the check to the variant the real table conforms to)
CONSTANTS
  StrVariant = "dollar"
  JsonVariant = "std"
  HtmlVariant = "std"
  Positions <- PositionsDef
  EmitEdges = TRUE
INIT Init
NEXT Next
VIEW View
ACTION_CONSTRAINT Emit
INVARIANTS TypeOK
CHECK_DEADLOCK FALSE
