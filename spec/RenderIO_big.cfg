\* C10 MC+GEN: seeded random programs of up to 6 ops / depth 3 (module MCRenderIOBig is generated by the check) x every fault plan.
\* MaxOps/MaxDepth only bound the (unused) grammar enumeration here: TLC evaluates constant definitions eagerly.
CONSTANTS
  Caps = {2, 3}
  ProgSet <- BigProgs
  MaxOps = 1
  MaxDepth = 1
  LitSizes = {1, 2, 3, 5}
  ExprSizes = {1, 2, 4}
  XKinds = {1, 2, 3}
  HandKinds = {0, 1}
  SideKs = {0, 1, 3}
  LeafSizes = {2, 4}
  Runs = 1
  Modes <- AllModes
  Pairs = TRUE
  SWs <- BothSW
  SameWriter = FALSE
  PoolAny = TRUE
  Bug = "none"
  Emit = FALSE
INIT Init
NEXT Next
VIEW View
INVARIANTS TypeOK Prefix NilMeansComplete FaultMeansError LaterRendersUnaffected NoCarryOver OneOwnerFlushes FailStop PrintCase
CHECK_DEADLOCK FALSE
