\* C18 conn VAL: recorded executions of the real conn against JsonRpc (NC includes the probe call).
CONSTANTS
  NC = 4
  NN = 2
  MaxPN = 2
  MaxPC = 2
  UseWriteMu = TRUE
  ChanCap = 1
  RegisterFirst = TRUE
INIT TraceInit
NEXT TraceNext
INVARIANTS TypeOK Matched NoInventedResponse FramesNeverInterleave MutexOK ReaderNeverBlocks PendingExact Accept
CHECK_DEADLOCK FALSE
