---------------------------- MODULE MCFramingSim ----------------------------
(* Simulation instance of Framing for the replay on the real stream: bodies have the byte lengths of
   the harness's real messages (FramingCatalogue), chunk sizes are drawn at random (small sizes are
   frequent so that boundaries fall inside header names, between CR and LF, inside multi-byte
   characters; size 0 is a reader that returns no bytes), EOF arrives separately or with the last chunk. *)
EXTENDS Framing, FramingCatalogue
VariantsDef == AllVariants
Sizes == <<0, 1, 1, 1, 2, 2, 3, 4, 5, 7, 11, 16, 23, 40, 1000>>
SimNext ==
    \* TLC's simulator picks one successor uniformly at random (RandomElement is re-seeded per state, so it
    \* would repeat the same draw at every step)
    \E i \in 1..Len(Sizes), e \in 1..4 :
        LET left == Len(wire) - pos
            k == IF Sizes[i] > left THEN left ELSE Sizes[i]
        IN  IF left = 0 THEN Eof
            ELSE Deliver(k, (e = 1) /\ (k = left))
=============================================================================
