\* C06 negative config: an until-probe that runs the full nested parser and restores (the work of a
\* finished nested invocation is redone): entries of one loop at one index grow exponentially with depth.
CONSTANTS
  N = 3
  Loops <- LoopsOne
  MaxDepth = 3
  MaxTries = 3
  Faulty = FALSE
  Extra = 0
  Reparse = TRUE
INIT Init
NEXT Next
INVARIANTS CursorInBounds TopBound ReparseBound
CHECK_DEADLOCK FALSE
