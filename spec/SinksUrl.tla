------------------------------ MODULE SinksUrl ------------------------------
(* C04 -- the URL sanitiser admits only relative references and allow-listed schemes.

   Closed product automaton (the input symbol is chosen in Next and not stored: all input lengths):

     templ.URL as coded in url.go (acceptor A)              reads the RAW string
       i := first ':' ; if there is one and no '/' before it: protocol := s[:i] must be EqualFold to one of
       http https mailto tel ftp ftps (strings.EqualFold = Unicode simple folding: U+017F LONG S folds to
       "s", U+212A KELVIN to "k"), else the fixed failure URL is returned; otherwise s is returned.
     x  the rendering pipeline of an accepted value          URL(s) -> templ.EscapeString -> name="..."
     x  HtmlTok in the double-quoted attribute value state   decodes character references
     x  UrlScheme reading the DECODED attribute value        what scheme a browser resolves the link with
   Pipeline = "direct" drops the HTML layer (the string handed to a URL parser as is), a second instance.

   Invariants:
     PassImpliesSafe  whenever the acceptor has not failed (so that, were the input to end here, URL(s) = s),
                      the browser-resolved scheme of what was rendered so far is none (relative reference)
                      or in the allow-list.  Holding in every reachable state = for every input string.
     FailIsFixed      a failed acceptor stays failed: the output is the fixed failure URL whatever follows.
     ValueIntact      the HTML layer hands the URL parser exactly the input (modulo input preprocessing):
                      the attribute value state is never left and is neutral after every symbol.
   AcceptMode = "prefix" is the negative config (allow-list test by HasPrefix: "httpx:" passes).      *)
EXTENDS HtmlTok, UrlScheme, UrlAccept, Json

CONSTANTS Pipeline,     \* "html" | "direct"
          EmitEdges

VARIABLES a, q, p, u, okVal, lbl
vars == <<a, q, p, u, okVal>>

wAmp  == <<cAMP>> \o W(<<"a","m","p">>) \o <<cSEMI>>
wLt   == <<cAMP>> \o W(<<"l","t">>) \o <<cSEMI>>
wGt   == <<cAMP>> \o W(<<"g","t">>) \o <<cSEMI>>
Esc(c) == IF c = cAMP THEN wAmp ELSE IF c = cLT THEN wLt ELSE IF c = cGT THEN wGt
          ELSE IF c = cSQ THEN <<cAMP, cHASH, 51, 57, cSEMI>>
          ELSE IF c = cDQ THEN <<cAMP, cHASH, 51, 52, cSEMI>>
          ELSE <<c>>

Prefix == <<cLT, 97, cSP>> \o W(<<"h","r","e","f">>) \o <<cEQ, cDQ>>      \* <a href="
Q0 == Run(InitTok, Prefix).q

RECURSIVE UrlFeed(_, _, _)
UrlFeed(uu, evs, i) == IF i > Len(evs) THEN uu ELSE UrlFeed(UrlStepK(uu, evs[i].c, Allowed), evs, i + 1)

Init == /\ a = A0 /\ q = Q0 /\ p = FALSE /\ u = UrlInit /\ okVal = TRUE
        /\ lbl = [op |-> "init"]

Feed(x) ==
    LET a2 == AStep(a, x) IN
    /\ a' = a2
    /\ IF Pipeline = "direct"
       THEN /\ u' = UrlStepK(u, x, Allowed)
            /\ UNCHANGED <<q, p, okVal>>
       ELSE LET r == RunPre(q, p, Esc(x))
                want == IF x = cCR THEN {<<cLF>>}
                        ELSE IF x = cLF /\ p THEN {<<>>}
                        ELSE IF x = cNUL \/ x = kBADBYTE THEN {<<kFFFD>>}
                        ELSE {<<x>>}
            IN  /\ q' = r.q /\ p' = r.p
                /\ u' = UrlFeed(u, r.out, 1)
                /\ okVal' = (r.q = Q0 /\ (\A i \in 1..Len(r.out) : r.out[i].k = "av")
                             /\ [i \in 1..Len(r.out) |-> r.out[i].c] \in want)
    /\ lbl' = [op |-> "feed", sym |-> x]

Next == \E x \in Symbol : Feed(x)
Spec == Init /\ [][Next]_vars

-----------------------------------------------------------------------------
Browser(uu) == SchemeOf(uu)
Safe(uu) == Browser(uu) = <<>> \/ Browser(uu) \in Allowed
TypeOK == a.ph \in {"scan", "pass", "fail"} /\ u.ph \in {"lead", "scheme", "none", "done"}
PassImpliesSafe == a.ph # "fail" => Safe(u)
FailIsFixedStep == a.ph = "fail" => a'.ph = "fail"          \* action property
FailIsFixed == [][FailIsFixedStep]_vars
ValueIntact == okVal

View == vars
StateRec(aa, qq, pp, uu) == [a |-> aa, q |-> qq.s, p |-> pp, u |-> uu,
                             verdict |-> IF aa.ph = "fail" THEN "fail" ELSE "pass", why |-> aa.why,
                             scheme |-> Browser(uu), safe |-> Safe(uu)]
Emit == IF EmitEdges
        THEN PrintT(<<"EDGE", ToJson([from |-> StateRec(a, q, p, u), sym |-> lbl'.sym, to |-> StateRec(a', q', p', u')])>>)
        ELSE TRUE
ASSUME EmitEdges => PrintT(<<"CHARS", ToJson(CharTable)>>)
=============================================================================
