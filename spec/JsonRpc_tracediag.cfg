\* C18 conn VAL, diagnostic run: high-water mark of rejected cases.
CONSTANTS
  NC = 4
  NN = 2
  MaxPN = 2
  MaxPC = 2
  UseWriteMu = TRUE
  ChanCap = 1
  RegisterFirst = TRUE
INIT TraceInit
NEXT TraceNext
INVARIANTS TypeOK Matched NoInventedResponse FramesNeverInterleave MutexOK ReaderNeverBlocks PendingExact Progress
CHECK_DEADLOCK FALSE
