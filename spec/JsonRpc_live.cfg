\* C18 conn: liveness: every call whose response arrives or whose context is cancelled returns.
CONSTANTS
  NC = 2
  NN = 0
  MaxPN = 1
  MaxPC = 0
  UseWriteMu = TRUE
  ChanCap = 1
  RegisterFirst = TRUE
SPECIFICATION Spec
INVARIANTS Matched
PROPERTIES CallsReturn
CHECK_DEADLOCK FALSE
