#!/usr/bin/env python3
"""C14 -- concurrent renders are isolated and race-free (spec/RenderPool.tla, spec/TraceRenderPool.tla).

MC   : TLC explores ALL interleavings of G goroutines x M renders over the shared pools of per-render objects
       (sync.Pool as a bag of objects of a kind: the runtime buffer with Get / Reset / Write / Flush / Put as separate
       steps, and a generic scratch kind -- bytes.Buffer of ToGoHTML/handler, a pooled class-name processor, ... --
       with Get / Add / Read-into-the-document / Clear+Put), the development-mode
       literal cache (mutex, cached?, stat, reload, file rewritten meanwhile) and the once-handle id counter;
       and over the kinds of destination a goroutine renders into (plain writer, its own long-lived bufio.Writer at least
       as big as / smaller than the pool buffers, its own runtime.Buffer; the caller flushes after Render);
       and over a writer that is stalled (it may never come back) while other goroutines render in development mode;
       invariants ExclusiveBuffer, Isolated, OwnDestinationOnly, IndependentOfStalledWriters, MutexProtectsCache, LiteralsAreAVersion, UniqueIds.  Negative
       configs (Put before the flush, missing Reset, scratch object released twice, cache read outside the mutex,
       non-atomic id) must be rejected.
VAL  : the Go scheduler cannot be replayed step by step, so the binding is trace validation + stress: a harness
       built with `-race -tags verif` renders shared package-level components (generated interp/Page templates,
       once handles, nested components, flushes, failing expressions/components, slow and failing writers,
       templ.ToGoHTML and the buffered templ.Handler for the bytes.Buffer pool, and a Gallery template whose variants
       go through class expressions in every container form, css components, script templates / on* attributes,
       style, URL and spread attributes, JSONScript, Raw; library components of the root package created ONCE --
       templ.Join (nested, with parts that fail), Raw, a ComponentScript, a once handle with a component, JSONScript --
       rendered directly, with per-render writer faults so that some renders fail midway: the returned error is part
       of what is compared) from N goroutines x M renders, every goroutine with a
       destination of one of the four kinds; before that a render of a document larger than the buffer into a writer that
       stalls, during which 4 goroutines must complete their renders within 10 s (every wait is bounded: verdict or exit 2,
       never a hang); and, on one goroutine, A, B, A, B into two destinations of each kind;
       a second process runs with TEMPL_DEV_MODE=true against literal text files (TEMPL_DEV_MODE_ROOT in scratch)
       that a goroutine keeps rewriting (all goroutines leave the same 130 ms of every 500 ms idle, so the cache
       reloads whatever its look-again policy is -- WHEN it reloads is C16's property, not this one's; a tree
       on which not even that makes it reload cannot exercise concurrent reloads and is reported as exit 2).
       Every render is compared byte for byte with the same render alone;
       the `verif` pool hooks (hooks/C10-pool.diff; global sequence number, Put logged before / Get after) give
       the trace that TLC validates against the pool protocol (ExclusiveBuffer, NoCarryOver, OneOwner);
       every race-detector report is a violation of the real code.
"""
import concurrent.futures as cf
import json, os, re, sys
sys.path.insert(0, os.path.join(os.path.dirname(os.path.abspath(__file__)), "..", "lib"))
import vlib

NEG = {  # seeded defect -> (DevMode, invariants that may reject it)
    "putfirst": ("FALSE", {"ExclusiveBuffer", "Isolated"}),
    "noreset": ("FALSE", {"Isolated"}),
    "cacheunlocked": ("TRUE", {"MutexProtectsCache"}),
    "idrace": ("FALSE", {"UniqueIds"}),
    "doubleput": ("FALSE", {"ExclusiveBuffer", "Isolated"}),
    "sharederr": ("FALSE", {"Isolated"}),       # a component created once keeps the error of a render in a variable of its own
    "lockacrosswrite": ("TRUE", {"IndependentOfStalledWriters"}),  # checked on RenderPool_stall.cfg
    "adoptbufio": ("FALSE", {"OwnDestinationOnly", "Isolated"}),  # checked on RenderPool_dest.cfg (all destination kinds)      # a pooled scratch object released twice for one Get
}


def _sev(ev, buf=None, r=1, w=None, dirty=None):
    d = {"ev": ev, "r": r}
    if buf is not None:
        d["buf"] = buf
    if w is not None:
        d["w"] = w
    if dirty is not None:
        d["dirty"] = dirty
    return d


# Trace self-test: a hand-made trace with mixed event kinds (begin/end carry no buf/w/dirty field) in which every
# violation kind of TraceRenderPool.tla occurs exactly where listed, and a clean trace that must be accepted.
SELFTEST_TRACE = [
    (_sev("begin", r=1), None),
    (_sev("acquire", 1, 1, 1, True), "NoCarryOver.DirtyAcquire"),
    (_sev("flush", 1, 1, 1, False), None),
    (_sev("release", 1, 1, 1, False), None),
    (_sev("end", r=1), None),
    (_sev("begin", r=2), None),
    (_sev("get", 2, 2, dirty=True), "NoCarryOver.DirtyBytesBuffer"),
    (_sev("put", 2, 2, dirty=True), "NoCarryOver.PutWithoutReset"),
    (_sev("end", r=2), None),
    (_sev("begin", r=3), None),
    (_sev("acquire", 1, 3, 2, False), "NoCarryOver.WrongWriter"),
    (_sev("acquire", 3, 3, 2, False), ["NoCarryOver.WrongWriter", "OneOwner.SecondAcquire"]),
    (_sev("acquire", 6, 3, -1, False), None),                  # a block rendered into a component's own writer: legitimate
    (_sev("flush", 6, 3, -1), None),
    (_sev("release", 6, 3, -1), None),
    (_sev("existing", 4, 3, 3), "ExclusiveBuffer.UseNotHeld"),
    (_sev("release", 1, 3, 3), None),
    (_sev("flush", 1, 3, 3), "ExclusiveBuffer.UseAfterRelease"),
    (_sev("end", r=3), "OneOwner.HeldAfterReturn"),
    (_sev("begin", r=4), None),
    (_sev("get", 2, 4, dirty=False), None),
    (_sev("begin", r=5), None),
    (_sev("get", 2, 5, dirty=False), "ExclusiveBuffer.BytesAcquireWhileHeld"),
    (_sev("put", 2, 4, dirty=False), "ExclusiveBuffer.BytesReleaseNotHeld"),
    (_sev("put", 2, 5, dirty=False), None),
    (_sev("put", 2, 5, dirty=False), "ExclusiveBuffer.BytesReleaseNotHeld"),
    (_sev("end", r=4), None),
    (_sev("end", r=5), None),
    (_sev("begin", r=6), None),
    (_sev("begin", r=6), "Harness.RenderBeginTwice"),
    (_sev("acquire", 5, 6, 6, False), None),
    (_sev("begin", r=7), None),
    (_sev("acquire", 5, 7, 7, False), "ExclusiveBuffer.AcquireWhileHeld"),
    (_sev("release", 5, 6, 6), "ExclusiveBuffer.ReleaseNotHeld"),
    (_sev("release", 5, 7, 7), None),
    (_sev("end", r=6), None),
    (_sev("end", r=7), None),
]
SELFTEST_CLEAN = [_sev("begin", r=1), _sev("acquire", 1, 1, 1, False), _sev("existing", 1, 1, 1), _sev("get", 2, 1, dirty=False),
                  _sev("acquire", 3, 1, -1, False), _sev("existing", 3, 1, -1), _sev("flush", 3, 1, -1), _sev("release", 3, 1, -1),
                  _sev("put", 2, 1, dirty=False), _sev("flush", 1, 1, 1), _sev("release", 1, 1, 1), _sev("end", r=1),
                  _sev("begin", r=2), _sev("acquire", 1, 2, 2, False), _sev("flush", 1, 2, 2), _sev("release", 1, 2, 2), _sev("end", r=2)]


def trace_selftest(ck, cfgtext):
    """Every violation kind of the trace spec must fire at exactly the planted lines, whatever other events surround it."""
    want = [{"line": i + 1, "kind": k} for i, (_, ks) in enumerate(SELFTEST_TRACE) if ks
            for k in ([ks] if isinstance(ks, str) else ks)]
    bad = "".join(json.dumps(e) + "\n" for e, _ in SELFTEST_TRACE)
    st = vlib.tlc("TraceRenderPool", "t.cfg", workers=1, timeout=300, files={"t.cfg": cfgtext, "trace.ndjson": bad})
    rep = st.tagged("TRACE")
    got = sorted(rep[0]["viol"], key=lambda v: (v["line"], v["kind"])) if rep else None
    if got != want:
        raise vlib.InfraError("trace self-test: planted violations %s, trace spec reported %s" % (want, got))
    kinds = sorted({v["kind"] for v in want})
    spec_kinds = sorted(set(re.findall(r'"((?:Harness|OneOwner|ExclusiveBuffer|NoCarryOver)\.[A-Za-z]+)"', open(os.path.join(vlib.SPEC, "TraceRenderPool.tla")).read())))
    if kinds != spec_kinds:
        raise vlib.InfraError("trace self-test does not cover every violation kind of the trace spec: %s vs %s" % (kinds, spec_kinds))
    ok = vlib.tlc("TraceRenderPool", "t.cfg", workers=1, timeout=300,
                  files={"t.cfg": cfgtext, "trace.ndjson": "".join(json.dumps(e) + "\n" for e in SELFTEST_CLEAN)})
    rep = ok.tagged("TRACE")
    if not rep or rep[0]["viol"] or rep[0]["lines"] != len(SELFTEST_CLEAN) or rep[0]["stillheld"] != 0:
        raise vlib.InfraError("trace self-test: the clean trace was not accepted: %s" % rep)
    ck.set("trace_selftest", "%d planted violations (all %d kinds, mixed event kinds) reported at their lines; clean trace accepted"
           % (len(want), len(kinds)))


def require_hooks():
    need = [("runtime/verifhook_on.go", "VerifPoolHook"), ("runtime/verifhook_on.go", "VerifBufferState"),
            ("runtime/verifhook_off.go", "func verifPool("), ("runtime/bufferpool.go", 'verifPool("acquire"'),
            ("runtime/bufferpool.go", 'verifPool("release"'), ("runtime/bufferpool.go", 'verifPool("flush"'),
            ("verifhook_on.go", "VerifBytesPoolHook"), ("runtime.go", 'verifBytesPool("get"'),
            ("runtime.go", 'verifBytesPool("put"')]
    for f, sym in need:
        p = os.path.join(vlib.REPO, f)
        if not os.path.exists(p) or sym not in open(p, errors="replace").read():
            raise vlib.InfraError("pool hook missing in %s (%s not found in %s): apply /verif/hooks/C10-pool.diff to the "
                                  "repository (git -C %s apply /verif/hooks/C10-pool.diff)" % (vlib.REPO, sym, f, vlib.REPO))


def cfg(name, **kw):
    t = open(os.path.join(vlib.SPEC, name)).read()
    for k, v in kw.items():
        t, n = re.subn(r"(?m)^  %s (=|<-) .*$" % k, "  %s %s" % (k, v), t)
        if n != 1:
            raise vlib.InfraError("constant %s not found in %s" % (k, name))
    return t


def race_reports(stderr):
    """Split the race detector's output into reports; returns [(signature, text)]."""
    out = []
    blocks = re.split(r"(?m)^={18}\s*$", stderr)
    for b in blocks:
        if "WARNING: DATA RACE" not in b:
            continue
        fn = None
        for m in re.finditer(r"(?m)^\s+(github\.com/a-h/templ\S*?)(\(\))?\s*$", b):
            fn = m.group(1)
            break
        sig = "DataRace." + (fn.replace("github.com/a-h/templ", "templ") if fn else "outside-templ")
        out.append((sig, b.strip()[:4000]))
    m = re.search(r"fatal error: (concurrent map[^\n]*)", stderr)
    if m:
        out.append(("DataRace.runtime-" + m.group(1).replace(" ", "-"), stderr[m.start(): m.start() + 4000]))
    return out


def main():
    ck = vlib.Check("C14", "model_checking")
    thorough = ck.tier == "thorough"
    require_hooks()
    sc = vlib.scratch()

    def build():
        d = vlib.harness_dir()
        vlib.templ_generate(os.path.join(d, "c10"))
        vlib.templ_generate(os.path.join(d, "c14"))
        for f in ("c10/interp/interp_templ.go", "c14/page_templ.go"):
            if not os.path.exists(os.path.join(d, f)):
                raise vlib.InfraError("templ generate produced no %s" % f)
        return vlib.go_build("./c14", "c14", race=True)

    # ---- MC --------------------------------------------------------------------------------------
    jobs = {
        "g2": dict(cfgtext=cfg("RenderPool_mc.cfg"), workers=2),
        "g3": dict(cfgtext=cfg("RenderPool_mc.cfg", G="<- G3", NBuf="= 3", FailAt="<- Fail12", Scratch="= FALSE",
                               DocLen="= %d" % (3 if thorough else 2)), workers=8),
        "g3-scratch": dict(cfgtext=cfg("RenderPool_mc.cfg", G="<- G3", NBuf="= 3", FailAt="<- Fail12", DocLen="= 1"), workers=8),
        "dev-g2": dict(cfgtext=cfg("RenderPool_dev.cfg"), workers=4),
        # destination kinds: plain writer / the goroutine's own bufio.Writer (>= and < the pool buffer's size) / its own Buffer
        "dest-g2": dict(cfgtext=cfg("RenderPool_dest.cfg"), workers=4),
        # development mode while the writer of one render is stalled (and may never come back)
        "stall-g2": dict(cfgtext=cfg("RenderPool_stall.cfg"), workers=4),
    }
    if thorough:
        jobs["dev-g3"] = dict(cfgtext=cfg("RenderPool_dev.cfg", G="<- G3", NBuf="= 3"), workers=12)
        jobs["g2-m3"] = dict(cfgtext=cfg("RenderPool_mc.cfg", M="= 3", DocLen="= 3"), workers=4)
    if thorough:
        jobs["dest-g3"] = dict(cfgtext=cfg("RenderPool_dest.cfg", G="<- G3", NBuf="= 3", DocLen="= 1"), workers=8)
    # a new pool buffer adopts the caller's *bufio.Writer (bufio.NewWriterSize(w, size) returns w itself)
    # development-mode WriteString keeps the global lock while it writes to the caller's writer
    jobs["neg-lockacrosswrite"] = dict(cfgtext=cfg("RenderPool_stall.cfg", Bug='= "lockacrosswrite"'), workers=1)
    jobs["neg-adoptbufio"] = dict(cfgtext=cfg("RenderPool_dest.cfg", Bug='= "adoptbufio"'), workers=1)
    for bug, (dev, _) in NEG.items():
        if bug in ("adoptbufio", "lockacrosswrite"):
            continue
        jobs["neg-" + bug] = dict(cfgtext=cfg("RenderPool_neg.cfg", Bug='= "%s"' % bug, DevMode="= " + dev), workers=1)
    results = {}
    with cf.ThreadPoolExecutor(max_workers=10) as ex:
        fb = ex.submit(build)
        futs = {n: ex.submit(vlib.tlc, "MCRenderPool", "x.cfg", files={"x.cfg": j["cfgtext"]}, workers=j["workers"], timeout=1500)
                for n, j in jobs.items()}
        for n, f in futs.items():
            results[n] = f.result()
            vlib.log("tlc %s: %d states, %.1fs" % (n, results[n].distinct, results[n].wall))
        binp = fb.result()
    for n, r in results.items():
        if n.startswith("neg-"):
            if r.violated not in NEG[n[4:]][1]:
                raise vlib.InfraError("negative config Bug=%s was not rejected (%s): the invariants are vacuous" % (n[4:], r.violated))
        else:
            if not r.ok:
                raise vlib.InfraError("RenderPool model (%s) violates %s: spec and code model disagree" % (n, r.violated))
            ck.add_tlc(r, "RenderPool " + n)
    ck.set("negative_configs_rejected", sorted(NEG))

    # ---- stress runs under the race detector ------------------------------------------------------
    s = ck.seed
    runs = [("stress", 2, 120), ("stress", 3 + s % 6, 150), ("stress", 12, 100), ("dev", 4 + s % 4, 1500)]
    if thorough:
        runs = [("stress", g, 600) for g in (2, 3, 4, 6, 8, 12, 16, 24)] + [("dev", g, 5000) for g in (2, 5, 9)]
    devroot = os.path.join(sc, "devroot")
    os.makedirs(devroot, exist_ok=True)

    def stress(i):
        mode, g, n = runs[i]
        ev = os.path.join(sc, "events-%d.ndjson" % i)
        env = vlib.goenv()
        env["GORACE"] = "exitcode=0 history_size=3"
        env.pop("TEMPL_DEV_MODE", None)
        if mode == "dev":
            env["TEMPL_DEV_MODE"] = "true"
            env["TEMPL_DEV_MODE_ROOT"] = os.path.join(devroot, str(i))
            os.makedirs(env["TEMPL_DEV_MODE_ROOT"], exist_ok=True)
        p = vlib.run([binp, mode, str(s * 100 + i), str(g), str(n), ev], env=env, check=False, timeout=900)
        return i, ev, p

    with cf.ThreadPoolExecutor(max_workers=3) as ex:
        outs = list(ex.map(stress, range(len(runs))))
    total = dict(renders=0, events=0, hook_calls=0, failed_as_alone=0, handle_ids=0, rewrites=0)
    traces = []
    nraces = 0
    racesig = {}
    for i, ev, p in outs:
        mode, g, n = runs[i]
        err = p.stderr.decode(errors="replace")
        races = race_reports(err)
        for sig, text in races:
            nraces += 1
            racesig[sig] = racesig.get(sig, 0) + 1
            if racesig[sig] > 2:
                continue        # two examples per racing function; all are counted
            ck.violation(sig, "the race detector reported a data race in a %s run with %d goroutines" % (mode, g),
                         {"run": {"mode": mode, "goroutines": g, "renders_or_millis": n, "seed": s * 100 + i}, "report": text,
                          "reproduce": "build harness/c14 with -race -tags verif and run: c14 %s %d %d %d events.ndjson" % (mode, s * 100 + i, g, n)})
        if races and p.returncode != 0:
            continue     # the Go runtime aborted the process (concurrent map access): already reported
        sm = vlib.harness_results(ck, p, "%s run, %d goroutines: " % (mode, g))
        if sm.get("completed_while_a_writer_was_stalled", 0) < 12:
            # a verdict (IndependentOfStalledWriters) was reported by the harness; still fail closed on a silent harness
            if not any(sig == "IndependentOfStalledWriters" for (sig, _, _) in ck.violations) and "IndependentOfStalledWriters" not in ck.known_hit:
                raise vlib.InfraError("stalled-writer test of run %d completed only %s renders without reporting it" %
                                      (i, sm.get("completed_while_a_writer_was_stalled")))
        if mode == "stress" and sm["renders"] != g * n:
            raise vlib.InfraError("stress run %d: %d renders instead of %d" % (i, sm["renders"], g * n))
        if sm["hook_calls"] < sm["renders"] or sm["events"] < sm["renders"]:
            raise vlib.InfraError("pool hooks silent in run %d: %s" % (i, sm))
        if mode == "dev" and (sm["variants_seen"] < 2 or sm["rewrites"] < 5 or sm["renders"] < 50):
            # not a C14 verdict: C14 says nothing about WHEN the cache reloads (that is C16); but without a reload the
            # run did not exercise renders racing a reload, so it cannot count as evidence for C14 either
            raise vlib.InfraError("development-mode run %d never saw the cache reload although the text files were rewritten %d times "
                                  "and all renders paused 130 ms every 500 ms; renders racing a cache reload were not exercised, "
                                  "so nothing was learnt about C14 in development mode (a cache that does not reload is a C16 "
                                  "matter, not a C14 violation): %s" % (i, sm.get("rewrites", 0), sm))
        for k in total:
            total[k] += sm.get(k, 0)
        traces.append((i, ev, sm["events"]))
    ck.set("race_reports", nraces)
    ck.set("race_reports_by_signature", racesig)
    ck.set("stress_runs", [{"mode": m, "goroutines": g, "renders_or_millis": n} for (m, g, n) in runs])
    ck.set("concurrent_renders_compared", total["renders"])
    ck.set("renders_failing_midway", total["failed_as_alone"])
    ck.set("once_handle_ids_checked", total["handle_ids"])
    ck.set("dev_mode_file_rewrites", total["rewrites"])

    # ---- VAL: pool events of every run against the pool protocol -----------------------------------
    def validate(t):
        i, ev, n = t
        text = open(ev).read()
        lines = [l for l in text.splitlines(True) if l.strip()]
        if len(lines) != n:
            raise vlib.InfraError("run %d: %d events written, %d reported" % (i, len(lines), n))
        evs = [json.loads(l) for l in lines]
        nb = max([e["buf"] for e in evs] + [1])
        r = vlib.tlc("TraceRenderPool", "t.cfg", workers=1, timeout=1200,
                     files={"t.cfg": cfg("RenderPool_trace.cfg", NB="= %d" % nb), "trace.ndjson": text})
        rep = r.tagged("TRACE")
        if not r.ok or len(rep) != 1 or rep[0]["lines"] != len(lines):
            raise vlib.InfraError("trace validation of run %d did not consume the whole trace" % i)
        return i, evs, lines, nb, r, rep[0]

    with cf.ThreadPoolExecutor(max_workers=4) as ex:
        vals = list(ex.map(validate, traces))
    nev = 0
    cnt = {}
    bykind = {}
    shown = {}
    for i, evs, lines, nb, r, rep in vals:
        ck.add_tlc(r, "TraceRenderPool run %d" % i)
        nev += len(lines)
        # an actual case for the evidence: the schedule parameters and the head of its validated pool-event trace
        ck.sample({"run": {"mode": runs[i][0], "goroutines": runs[i][1], "renders_or_millis": runs[i][2]},
                   "events_validated": len(lines), "trace_head": evs[:10]}, limit=3)
        for k, v in rep["cnt"].items():
            cnt[k] = cnt.get(k, 0) + v
        for k, n in rep["vcnt"].items():                     # every violation is counted by kind ...
            if n:
                bykind[k] = bykind.get(k, 0) + n
        for v in rep["viol"]:                                # ... the first 15 of each kind per run are listed with their line
            if v["kind"].startswith("Harness"):
                raise vlib.InfraError("inconsistent trace: %s at line %d of run %d" % (v["kind"], v["line"], i))
            shown[v["kind"]] = shown.get(v["kind"], 0) + 1
            if shown[v["kind"]] > 3:
                continue        # a few examples per kind
            e = evs[v["line"] - 1]
            same = [x for x in evs[max(0, v["line"] - 60): v["line"] + 5] if x["buf"] == e["buf"] or x["r"] == e["r"]]
            ck.violation(v["kind"], "pool hook trace of the real code leaves the pool protocol at event %s" % json.dumps(e),
                         {"violation": v, "run": runs[i], "events_of_that_buffer_and_render": same[-14:]})
    if bykind:
        print("TRACE-VIOLATIONS property=C14 " + " ".join("%s=%d" % kv for kv in sorted(bykind.items())))
    ck.set("trace_violations_by_kind", bykind)
    for k in ("acquire", "existing", "flush", "release", "get", "put", "begin", "end"):
        if cnt.get(k, 0) < 20:
            raise vlib.InfraError("too few %s events recorded: %s" % (k, cnt))
    ck.set("pool_events_validated", nev)
    ck.set("pool_event_counts", cnt)

    # ---- self-tests of the binding -----------------------------------------------------------------
    trace_selftest(ck, cfg("RenderPool_trace.cfg", NB="= 8"))
    env = vlib.goenv()
    env["GORACE"] = "exitcode=0"
    env["VERIF_C14_CORRUPT"] = "1"
    env.pop("TEMPL_DEV_MODE", None)
    p = vlib.run([binp, "stress", "1", "2", "40", os.path.join(sc, "selftest.ndjson")], env=env, check=False)
    if b'"kind":"fail"' not in p.stdout:
        raise vlib.InfraError("binding self-test: a corrupted reference document was not reported")
    ck.set("binding_selftest", "corrupted reference document reported")

    ck.set("traces_validated_against_impl", len(vals))
    ck.set("evaluations", total["renders"])
    ck.set("distinct_nontrivial", len(runs))
    ck.set("rule", "one evaluation = one concurrent render compared byte for byte with the same render alone; distinct = "
                   "distinct (mode, goroutine count, seed) schedules sampled, each validated as one pool-event trace")
    ck.set("bounds", {"model": "G=2..3 goroutines x M=2 renders (thorough: also G=2 x M=3), DocLen 2..3, all interleavings; "
                               "dev mode: file versions <= 2", "real": "goroutine counts %s" % sorted({g for (_, g, _) in runs})})
    ck.assume("real goroutine schedules are sampled (stress, Gosched perturbation at the hooks and in slow writers, race detector), "
              "not enumerated; the all-interleavings claim is for the model, tied to the code by the pool-event traces")
    ck.assume("the Go race detector is trusted as monitor; a data race on a path no run reached is not seen")
    ck.assume("development mode: a render may pick each literal from either version of the text file that is being rewritten, "
              "alone or not; outputs are compared modulo that per-literal choice; the file is replaced atomically (rename)")
    ck.assume("pooled objects without a verif hook (anything but the two buffer pools) are observed through the race detector and "
              "the byte-for-byte comparison only, not through the pool-event trace")
    ck.assume("the deprecated templ.WriteWatchModeString (second copy of the cache in the root package) is not driven")
    ck.finish()


vlib.main(main)
