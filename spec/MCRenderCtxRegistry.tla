------------------------- MODULE MCRenderCtxRegistry -------------------------
(* Model-checking instances of RenderCtxRegistry (tuples and records cannot be written in a cfg file). *)
EXTENDS RenderCtxRegistry

Item(f, k, b) == [f |-> f, k |-> k, b |-> b]
Expr(cont, items) == [cont |-> cont, items |-> items]

\* every item form over the classes K: a component class, a func() CSSClass, KV(CSSClass, b), KV(ComponentCSSClass, b)
ItemsOf(K) == {Item("comp", k, TRUE) : k \in K} \cup {Item("func", k, TRUE) : k \in K}
              \cup {Item("kv", k, b) : k \in K, b \in BOOLEAN} \cup {Item("kvComp", k, b) : k \in K, b \in BOOLEAN}
CompKV(K) == {Item("comp", k, TRUE) : k \in K} \cup {Item("kv", k, b) : k \in K, b \in BOOLEAN}
Pairs(S) == {<<a, b>> : a \in S, b \in S}
Singles(S) == {<<a>> : a \in S}

\* configuration A (one context, every container form):
\*   list = class={ x, y }, classes = templ.Classes(x, y), sliceCSSClass = []templ.CSSClass{...},
\*   sliceKV = []templ.KeyValue[templ.CSSClass, bool]{...}
ClassExprsFull ==
    {Expr(c, it) : c \in {"list", "classes"}, it \in Singles(ItemsOf(Classes)) \cup Pairs(CompKV(Classes))}
    \cup {Expr("sliceCSSClass", it) : it \in Singles({Item("comp", k, TRUE) : k \in Classes}) \cup Pairs({Item("comp", k, TRUE) : k \in Classes})}
    \cup {Expr("sliceKV", it) : it \in Singles({Item("kv", k, b) : k \in Classes, b \in BOOLEAN}) \cup Pairs({Item("kv", k, b) : k \in Classes, b \in BOOLEAN})}
OnSeqsFull == {<<"s1">>, <<"s2">>, <<"s1", "s2">>, <<"s2", "s1">>, <<"s1", "s1">>}

\* configuration B (two contexts, one id of each sort, one expression per behaviour class)
ClassExprsCore == {Expr("list", <<Item("comp", "k1", TRUE)>>), Expr("classes", <<Item("kv", "k1", TRUE)>>),
                   Expr("list", <<Item("kv", "k1", FALSE)>>)}
OnSeqsCore == {<<"s1">>}

Ctx1 == <<"c1">>
Ctx2 == <<"c1", "c2">>
RegK1 == <<"k1">>
RegK2K1 == <<"k2", "k1">>
=============================================================================
