\* negative config: an entry point that appends a missing final newline and parses the copy reports
\* end-of-input positions that are not positions of the caller's text.
CONSTANTS
  MaxLen = 3
  Widths = {1, 2}
  NewlineRule = "le"
  EntryCopy = "append-newline"
  ColMode = "bytes"
  EolEntry = TRUE
  SymLineMap = "keep"
INIT Init
NEXT Next
INVARIANTS PositionIsAdvance EofPositionInInput
CHECK_DEADLOCK FALSE
