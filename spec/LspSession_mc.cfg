\* LspSession: exhaustive check of the life cycle (view without the history)
CONSTANTS
  Texts = {"t1", "t2", "t3"}
  OpenRule = "replace"
  HistLen = 6
INIT Init
NEXT Next
VIEW View
INVARIANTS ServerTracksEditor NoCopyWhenClosed
CHECK_DEADLOCK FALSE
