\* C06 negative config: an entry point that parses a copy one byte longer than the caller's input
\* (newline appended) lets the cursor -- and every position taken there -- leave the input.
CONSTANTS
  N = 3
  Loops <- LoopsDef
  MaxDepth = 2
  MaxTries = 2
  Faulty = FALSE
  Extra = 1
  Reparse = FALSE
INIT Init
NEXT Next
INVARIANTS CursorInBounds
CHECK_DEADLOCK FALSE
