\* C20 pipeline as coded at the pinned commit (unsupported encoding falls through to the rewrite): TLC must reject PassThroughIsIdentity.
CONSTANTS
  UnsupportedRule = "rewrite"
  HeadRule = "pass"
  StatusRule = "pass"
  CtRule = "caseinsensitive"
  ParseRule = "scripting"
  CspRule = "policylist"
  LengthRule = "set"
  EmitCases = FALSE
INIT Init
NEXT Next
INVARIANTS TypeOK PassThroughIsIdentity HtmlGetsExactlyOneScript DocumentOnlyAppendedTo LengthMatchesBody EncodingHeaderDescribesBody HeadIsUntouched
CHECK_DEADLOCK FALSE
