"""Shared driver for the checks built on spec/TemplLang.tla (C02, C08, C09).

TLC enumerates template programs (BFS per focus family, or -simulate for deep programs) and prints each
finished program with its denotation; the programs are handed to the Go harnesses."""
import json, os, random, subprocess, sys, time
from concurrent.futures import ThreadPoolExecutor
sys.path.insert(0, os.path.join(os.path.dirname(os.path.abspath(__file__)), "..", "lib"))
import vlib

FAMILIES = ["ws", "inl", "ctl", "attr", "call", "callh", "cf", "cfe", "deep"]


def enumerate_programs(ck, plan, seed, module="MCTemplLang", cfgprefix="TemplLang", tag="PROG"):
    """plan: list of (family, mode, arg): mode "bfs" (arg = MaxNodes override or None), "sim" (arg = num traces).
    Returns list of program dicts (id assigned), per-family counts."""
    progs = []
    seen = set()
    counts = {}

    def one(item):
        fam, mode, arg = item
        cfgname = "%s_%s.cfg" % (cfgprefix, fam)
        text = open(os.path.join(vlib.SPEC, cfgname)).read()
        files = None
        if mode == "bfs":
            if arg is not None:
                import re
                text = re.sub(r"MaxNodes = \d+", "MaxNodes = %d" % arg, text)
            files = {"run.cfg": text}
            res = vlib.tlc(module, "run.cfg", files=files, workers=1, timeout=3000, xmx="6g")
            if not res.ok:
                raise vlib.InfraError("%s %s: invariant %s violated in the model" % (cfgprefix, fam, res.violated))
        else:
            files = {"run.cfg": text}
            res = vlib.tlc(module, "run.cfg", files=files, workers=1, simulate="num=%d" % arg, depth=80,
                           tlc_seed=seed, timeout=1200, xmx="4g")
            if res.violated:
                raise vlib.InfraError("%s %s: invariant %s violated in the model" % (cfgprefix, fam, res.violated))
        return item, res

    with ThreadPoolExecutor(max_workers=6) as ex:
        results = list(ex.map(one, plan))
    for (fam, mode, arg), res in results:
        ck.add_tlc(res, "%s_%s %s %s" % (cfgprefix, fam, mode, arg))
        n = 0
        for p in res.tagged(tag):
            key = json.dumps(p["prog"], sort_keys=True)
            if key in seen:
                continue
            seen.add(key)
            p["id"] = len(progs) + 1
            p["family"] = fam
            p["mode"] = mode
            progs.append(p)
            n += 1
        counts["%s/%s" % (fam, mode)] = counts.get("%s/%s" % (fam, mode), 0) + n
    return progs, counts


def sample(progs, limit, seed):
    """Seeded sample: exhaustively enumerated (bfs) groups are kept whole up to 2500 programs each, simulated groups
    share what is left of the limit; None = everything."""
    if limit is None or len(progs) <= limit:
        return progs
    rng = random.Random(seed)
    by = {}
    for p in progs:
        by.setdefault(p["family"] + "/" + p.get("mode", ""), []).append(p)
    out = []
    rest = []
    for g in sorted(by):
        ps = by[g]
        if g.endswith("/bfs"):
            out += ps if len(ps) <= 2500 else rng.sample(ps, 2500)
        else:
            rest.append(ps)
    left = max(0, limit - len(out))
    per = max(50, left // max(1, len(rest)))
    for ps in rest:
        out += ps if len(ps) <= per else rng.sample(ps, per)
    return out


def corpus_files():
    out = subprocess.run(["find", vlib.REPO, "-name", "*.templ", "-not", "-path", "*/node_modules/*"],
                         stdout=subprocess.PIPE).stdout.decode().split()
    return sorted(out)


# families explored by seeded simulation only (their exhaustive graphs are too large for the compile/format harnesses)
SIM_ONLY = ["cfe3"]


def default_plan(tier):
    if tier == "thorough":
        return [(f, "bfs", None) for f in FAMILIES] + [(f, "sim", 3000) for f in SIM_ONLY] + [("sim", "sim", 6000)]
    # quick: small exhaustive families + seeded simulation of every family
    return [("ws", "bfs", 2), ("attr", "bfs", 1), ("inl", "bfs", 2), ("cf", "bfs", None), ("cfe", "bfs", None), ("call", "bfs", 3), ("callh", "bfs", None), ("deep", "bfs", None)] + \
           [(f, "sim", 700) for f in FAMILIES if f not in ("cf", "cfe", "callh", "deep")] + [(f, "sim", 700) for f in SIM_ONLY] + [("sim", "sim", 1500)]
