\* C01 wiring audit of generated code.
INIT Init
NEXT Next
CHECK_DEADLOCK FALSE
POSTCONDITION AllConsumed
