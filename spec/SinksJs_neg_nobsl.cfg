\* C03 negative: backslash entry deleted must violate StaysInLiteral/DecodesToInput
CONSTANTS
  StrVariant = "nobsl"
  JsonVariant = "std"
  HtmlVariant = "std"
  Positions <- PositionsDef
  EmitEdges = FALSE
INIT Init
NEXT Next
VIEW View

INVARIANTS TypeOK StaysInScript NoHtmlComment StaysInLiteral NoInterpolation DecodesToInput
CHECK_DEADLOCK FALSE
