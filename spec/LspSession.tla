----------------------------- MODULE LspSession -----------------------------
(* The life cycle of templ documents in the LSP proxy (cmd/templ/lspcmd/proxy/server.go: Initialize / Initialized
   with the workspace preload, DidOpen, DidChange, DidClose), above the edit arithmetic of LspDoc.tla.

   C17 starts with "after any sequence of OPEN, full-replace and incremental range edits ...": what the server holds
   after an open must be what the editor sent, whatever the server held before -- in particular the copy the
   workspace preload read from disk, which differs from the editor's text when the buffer is unsaved or the file
   changed after the scan.  LspDoc.tla decides what one edit does to the line table; this module decides which
   text the line table is built from, along every order of preload, open, change, close and re-open, for several
   documents side by side (a step on one document leaves the copies of the others alone).

   Texts are opaque here; a Change replaces the editor's text by another text, the harness sends it either as a
   full replacement or as the incremental edit that turns the old text into the new one.

   Bound to the code by replaying simulated behaviours on a real proxy.Server (stub gopls, stub client) and comparing
   the server's copy (TemplSource) of EVERY document with the editor's text after every step.                     *)
EXTENDS Naturals, Sequences

CONSTANTS
    \* @type: Set(Str);
    Docs,       \* document names
    \* @type: Set(Str);
    Texts,      \* document texts (strings)
    \* @type: Str;
    OpenRule,   \* "replace": as coded.  "keepPreloaded": a defective design in which DidOpen keeps the copy the
                      \* preload made (negative configuration: must be rejected by ServerTracksEditor)
    \* @type: Int;
    HistLen

None == "none"

VARIABLES
    \* @type: Bool;
    started,  \* Initialize + Initialized done
    \* @type: Str -> Bool;
    open,     \* [Docs -> BOOLEAN]
    \* @type: Str -> Str;
    editor,   \* [Docs -> text the editor shows (None while the document is not open)]
    \* @type: Str -> Str;
    server,   \* [Docs -> text the server's copy holds (None: no copy; "diverged": a copy that tracks nothing)]
    \* @type: Str -> Str;
    disk,     \* [Docs -> text of the file on disk when the workspace was scanned (None: no such file)]
    \* @type: Seq({op: Str, preload: Bool, doc: Str, text: Str, full: Bool});
    hist
vars == <<started, open, editor, server, disk, hist>>

Init == /\ started = FALSE
        /\ open = [d \in Docs |-> FALSE]
        /\ editor = [d \in Docs |-> None]
        /\ server = [d \in Docs |-> None]
        /\ disk \in [Docs -> Texts \cup {None}]
        /\ hist = <<>>

\* one record shape for every step (fields a step does not use hold a neutral value)
Ev(op, preload, d, t, full) == [op |-> op, preload |-> preload, doc |-> d, text |-> t, full |-> full]
Log(e) == hist' = Append(hist, e)

\* Initialize + Initialized: with preload the server opens every templ file of the workspace from disk
Start(preload) ==
    /\ ~started
    /\ started' = TRUE
    /\ server' = [d \in Docs |-> IF preload THEN disk[d] ELSE None]
    /\ UNCHANGED <<open, editor, disk>>
    /\ Log(Ev("start", preload, None, None, FALSE))

Open(d, t) ==
    /\ started /\ ~open[d]
    /\ open' = [open EXCEPT ![d] = TRUE]
    /\ editor' = [editor EXCEPT ![d] = t]
    /\ server' = [server EXCEPT ![d] = IF OpenRule = "keepPreloaded" /\ server[d] # None THEN server[d] ELSE t]
    /\ UNCHANGED <<started, disk>>
    /\ Log(Ev("open", FALSE, d, t, TRUE))

\* full: the change carries the whole text; otherwise it is the edit that turns the old text into the new one,
\* which only gives the new text when it is applied to the old one
Change(d, t, full) ==
    /\ open[d]
    /\ editor' = [editor EXCEPT ![d] = t]
    /\ server' = [server EXCEPT ![d] = IF full \/ server[d] = editor[d] THEN t ELSE "diverged"]
    /\ UNCHANGED <<started, open, disk>>
    /\ Log(Ev("change", FALSE, d, t, full))

Close(d) ==
    /\ open[d]
    /\ open' = [open EXCEPT ![d] = FALSE]
    /\ editor' = [editor EXCEPT ![d] = None]
    /\ server' = [server EXCEPT ![d] = None]                \* DidClose deletes the copy
    /\ UNCHANGED <<started, disk>>
    /\ Log(Ev("close", FALSE, d, None, FALSE))

Next == /\ Len(hist) < HistLen
        /\ \/ \E p \in BOOLEAN : Start(p)
           \/ \E d \in Docs, t \in Texts : Open(d, t)
           \/ \E d \in Docs, t \in Texts, f \in BOOLEAN : Change(d, t, f)
           \/ \E d \in Docs : Close(d)
Spec == Init /\ [][Next]_vars

-----------------------------------------------------------------------------
ServerTracksEditor == \A d \in Docs : open[d] => server[d] = editor[d]          \* C17, at the level of the session
\* a step on one document leaves the other documents' copies alone
Independent == [][\A d \in Docs : (hist' # hist /\ hist'[Len(hist')].op \in {"open", "change", "close"} /\ hist'[Len(hist')].doc # d)
                                    => server'[d] = server[d]]_vars

View == <<started, open, editor, server, disk>>

(* Unbounded argument (Apalache, any number of steps): IndInv holds initially, is preserved by every step of the
   relation without the bound on the history, and implies ServerTracksEditor.
     apalache-mc check --config=LspSession_apalache.cfg --init=Init    --inv=IndInv --length=0
     apalache-mc check --config=LspSession_apalache.cfg --init=IndInit --inv=IndInv --length=1
     apalache-mc check --config=LspSession_apalache.cfg --init=IndInit --inv=ServerTracksEditor --length=0     *)
IndInv == /\ started \in BOOLEAN
          /\ open \in [Docs -> BOOLEAN]
          /\ editor \in [Docs -> Texts \cup {None}]
          /\ server \in [Docs -> Texts \cup {None, "diverged"}]
          /\ disk \in [Docs -> Texts \cup {None}]
          /\ ~started => \A d \in Docs : ~open[d]
          /\ \A d \in Docs : open[d] => (server[d] = editor[d] /\ editor[d] \in Texts)
IndInit == IndInv /\ hist = <<>>
NextUnbounded == \/ \E p \in BOOLEAN : Start(p)
                 \/ \E d \in Docs, t \in Texts : Open(d, t)
                 \/ \E d \in Docs, t \in Texts, f \in BOOLEAN : Change(d, t, f)
                 \/ \E d \in Docs : Close(d)
=============================================================================
