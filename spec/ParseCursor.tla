----------------------------- MODULE ParseCursor -----------------------------
(* C06 (totality) -- the cursor discipline of templ's recursive-descent parser.

   The parser reads a byte string of length N through one cursor idx (github.com/a-h/parse Input:
   Take advances, Seek restores).  Every unbounded loop of parser/v2 has the shape

       for {                                  <- loop top
           try sub-parsers in order; a sub-parser that matches has consumed input,
           one that does not match has restored the cursor (Seek(start));
           nothing matched -> leave the loop (until-parser matched, break, or error)
       }

   (templateNodeParser.Parse, the <script> loop, expressionParser.Parse, the three loops of
   TemplateFileParser.Parse, cssParser, the case loop, attributesParser).  Sub-parsers may enter
   nested loops.  The contract that makes parsing total is local to a loop invocation (a frame):

       LoopTop: whenever control is back at the top of the loop, idx is larger than it was at the
                previous top of the same invocation.

   Under the contract a frame sees at most N+1 tops (TopBound) and every parse ends (Termination,
   with a bounded number of sub-parser attempts per iteration and bounded nesting).  With
   Faulty = TRUE a sub-parser may report a match without consuming, so a loop top may repeat its
   index: TopBound is violated -- that is the non-termination the checks look for in the real code
   (verif hook: one event per loop top; spec/TraceParseCursor.tla).                               *)
EXTENDS Integers, Sequences, TLC

CONSTANTS N,          \* input length
          Loops,      \* names of loops
          MaxDepth,   \* nesting bound (Go recursion depth is not the subject)
          MaxTries,   \* sub-parser attempts per iteration (the parser lists are finite)
          Faulty      \* TRUE: a sub-parser may match without consuming (negative config)

VARIABLES idx,        \* the cursor
          stack,      \* active loop invocations, innermost last: [loop, last, tops, tries]
          started,    \* the outermost loop (TemplateFileParser.Parse) has been entered
          done
vars == <<idx, stack, started, done>>

Frame(l) == [loop |-> l, last |-> -1, tops |-> 0, tries |-> 0]
Depth == Len(stack)
TopF == stack[Depth]
SetTop(f) == [stack EXCEPT ![Depth] = f]

\* the contract at a loop top
TopOK(f, i) == f.last = -1 \/ i > f.last
\* bookkeeping at a loop top
AtTop(f, i) == [f EXCEPT !.last = i, !.tops = @ + 1, !.tries = 0]

Init == idx = 0 /\ stack = <<>> /\ started = FALSE /\ done = FALSE

\* a parser function with a loop is called (from the file parser or from a sub-parser of a loop)
Enter(l) == /\ ~done /\ Depth < MaxDepth
            /\ (Depth = 0 => ~started)
            /\ (Depth > 0 => TopF.tops > 0 /\ TopF.tries < MaxTries)
            /\ stack' = (IF Depth > 0 THEN SetTop([TopF EXCEPT !.tries = @ + 1]) ELSE stack) \o <<Frame(l)>>
            /\ started' = TRUE
            /\ UNCHANGED <<idx, done>>

\* control reaches the top of the innermost loop
LoopTop == /\ ~done /\ Depth > 0
           /\ (Faulty \/ TopOK(TopF, idx))
           /\ stack' = SetTop(AtTop(TopF, idx))
           /\ UNCHANGED <<idx, started, done>>

\* a sub-parser of the current iteration matches and consumes k >= 1 bytes
Consume(k) == /\ ~done /\ Depth > 0 /\ TopF.tops > 0 /\ TopF.tries < MaxTries
              /\ idx + k <= N
              /\ idx' = idx + k
              /\ stack' = SetTop([TopF EXCEPT !.tries = @ + 1])
              /\ UNCHANGED <<started, done>>

\* Faulty only: a sub-parser reports a match but leaves the cursor where it was
MatchWithoutConsuming == /\ Faulty /\ ~done /\ Depth > 0 /\ TopF.tops > 0 /\ TopF.tries < MaxTries
                         /\ stack' = SetTop([TopF EXCEPT !.tries = @ + 1])
                         /\ UNCHANGED <<idx, started, done>>

\* a sub-parser fails after reading ahead and restores the cursor to a position of this iteration
Restore(j) == /\ ~done /\ Depth > 0 /\ TopF.tops > 0 /\ TopF.tries < MaxTries
              /\ j >= TopF.last /\ j < idx
              /\ idx' = j
              /\ stack' = SetTop([TopF EXCEPT !.tries = @ + 1])
              /\ UNCHANGED <<started, done>>

\* the innermost loop ends (until-parser matched, nothing matched, or an error is returned)
Exit == /\ ~done /\ Depth > 0 /\ TopF.tops > 0
        /\ stack' = SubSeq(stack, 1, Depth - 1)
        /\ UNCHANGED <<idx, started, done>>

Finish == /\ ~done /\ Depth = 0 /\ started
          /\ done' = TRUE
          /\ UNCHANGED <<idx, stack, started>>

Next == \/ \E l \in Loops : Enter(l)
        \/ LoopTop
        \/ \E k \in 1..N : Consume(k)
        \/ MatchWithoutConsuming
        \/ \E j \in 0..N : Restore(j)
        \/ Exit
        \/ Finish
Spec == Init /\ [][Next]_vars /\ WF_vars(Next)

-----------------------------------------------------------------------------
CursorInBounds == 0 <= idx /\ idx <= N
\* a loop invocation sees at most N+1 tops: its indices at the tops are strictly increasing in 0..N
TopBound == \A d \in 1..Depth : stack[d].tops <= N + 1
LastInBounds == \A d \in 1..Depth : stack[d].last <= N
\* every parse ends
Termination == <>done
\* exploration bound for the faulty configuration (tops grows without bound there)
Bounded == \A d \in 1..Depth : stack[d].tops <= N + 2
=============================================================================
