\* C19 edge emission for schedule replay: race-free transitions of the design detected in the tree.
CONSTANTS
  Clients = {"c1", "c2"}
  NB = 2
  Design = "done"
  MaxPings = 1
  PingFirst = TRUE
  NoRaces = TRUE
  ServerCuts = FALSE
  Slow = {}
  EmitEdges = TRUE
INIT Init
NEXT Next
VIEW View
ACTION_CONSTRAINT Emit
INVARIANTS TypeOK RegistryExact SpawnedAreTargets
CHECK_DEADLOCK FALSE
