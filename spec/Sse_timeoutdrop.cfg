\* C19 negative config: a delivery gives up while its client is still connected: TLC must reject DeliveredAtQuiescence (and, run with PROPERTIES only, Delivered).
CONSTANTS
  Clients = {"c1", "c2"}
  NB = 2
  Design = "timeoutdrop"
  MaxPings = 1
  PingFirst = FALSE
  NoRaces = FALSE
  ServerCuts = FALSE
  Slow = {"c1"}
  EmitEdges = FALSE
SPECIFICATION Spec
VIEW View
INVARIANTS TypeOK RegistryExact NoPanic BroadcasterNeverBlocks OthersUnaffected NoLeak SpawnedAreTargets DeliveredAtQuiescence
CHECK_DEADLOCK FALSE
