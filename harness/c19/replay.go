package main

import (
	"bufio"
	"context"
	"encoding/json"
	"errors"
	"fmt"
	"io"
	"log/slog"
	"net/http"
	"net/http/httptest"
	"net/url"
	"os"
	"runtime"
	"sort"
	"strconv"
	"strings"
	"sync/atomic"
	"time"

	"github.com/a-h/templ/cmd/templ/generatecmd/proxy"
	"github.com/a-h/templ/cmd/templ/generatecmd/sse"
)

// label is the lbl record of spec/Sse.tla.
type label struct {
	A       string   `json:"a"`
	C       string   `json:"c,omitempty"`
	B       int      `json:"b,omitempty"`
	W       int      `json:"w,omitempty"`
	Targets []string `json:"targets,omitempty"`
	Panic   bool     `json:"panic,omitempty"`
	Branch  string   `json:"branch,omitempty"`
}

// finalState is the projection of the spec's terminal state the real outcome is compared with.
type finalState struct {
	Pc       map[string]string   `json:"pc"`
	Got      map[string][]int    `json:"got"`
	Dl       map[string][]string `json:"dl"`
	Panicked bool                `json:"panicked"`
}

type schedule struct {
	ID    int        `json:"id"`
	Steps []label    `json:"steps"`
	Final finalState `json:"final"`
	// long-stall concretisation: before step StallAt (a WriteDone) the driver lets StallMs of real time pass,
	// i.e. the browser of that client does not drain its socket for that long while a delivery is pending
	StallAt int `json:"stall_at"`
	StallMs int `json:"stall_ms"`
}

var (
	expectTimeout = 20 * time.Second // only ever elapses when the real code does not do what the spec says
	quietLogger   = slog.New(slog.NewTextHandler(io.Discard, nil))
)

// hev is one event of the real code: a verif hook event or a write of a handler to its (controlled) client.
type hev struct {
	ev    string // register exit unregister spawn gate dend write
	id    int64
	key   any
	data  string
	name  string        // write events: the client
	gate  chan struct{} // exit / gate events: closed by the driver to let the goroutine continue
	reply chan error    // write events: the driver's answer (nil = written, error = connection gone)
}

type client struct {
	name      string
	id        int64
	key       any
	cancel    context.CancelFunc
	returned  chan struct{}
	pending   *hev // the write the handler is blocked in
	exitGate  chan struct{}
	got       map[int]bool
	cancelled bool
}

type world struct {
	p        *proxy.Handler
	evq      chan hev
	stash    []hev
	clients  map[string]*client
	byKey    map[any]*client
	baseline int
	spawned  int
	ended    int
}

func newWorld() *world {
	w := &world{
		evq:     make(chan hev, 4096),
		clients: map[string]*client{},
		byKey:   map[any]*client{},
	}
	runtime.Gosched()
	w.baseline = runtime.NumGoroutine()
	w.p = proxy.New(quietLogger, "127.0.0.1", 0, &url.URL{Scheme: "http", Host: "127.0.0.1:1"})
	setHook(w.hook)
	return w
}

// The hook variable of the sse package is written once; the current consumer sits behind an atomic.
var currentHook atomic.Pointer[func(ev string, id int64, key any, data string)]

func setHook(f func(ev string, id int64, key any, data string)) {
	currentHook.Store(&f)
}

func init() {
	sse.VerifHook = func(ev string, id int64, key any, data string) {
		if f := currentHook.Load(); f != nil {
			(*f)(ev, id, key, data)
		}
	}
}

// hook runs inside templ's goroutines (register/unregister/spawn: while sse.Handler.m is held).
func (w *world) hook(ev string, id int64, key any, data string) {
	switch ev {
	case "send":
		// the position of Send's critical section; only the trace validation uses it
	case "exit", "gate":
		g := make(chan struct{})
		w.evq <- hev{ev: ev, id: id, key: key, data: data, gate: g}
		<-g
	default:
		w.evq <- hev{ev: ev, id: id, key: key, data: data}
	}
}

var errGone = errors.New("verif: connection gone")

// ctlWriter is the browser side of one SSE connection: every write of the handler blocks until the
// driver answers it (a slow reader), and fails once the driver says the connection is gone.
type ctlWriter struct {
	w      *world
	name   string
	hdr    http.Header
	failed bool
}

func (cw *ctlWriter) Header() http.Header { return cw.hdr }
func (cw *ctlWriter) WriteHeader(int)     {}
func (cw *ctlWriter) Flush()              {}
func (cw *ctlWriter) Write(p []byte) (int, error) {
	if cw.failed {
		return 0, errGone
	}
	reply := make(chan error)
	cw.w.evq <- hev{ev: "write", name: cw.name, data: sseData(p), reply: reply}
	if err := <-reply; err != nil {
		cw.failed = true
		return 0, err
	}
	return len(p), nil
}

// sseData extracts the data field of one server-sent event.
func sseData(p []byte) string {
	for _, l := range strings.Split(string(p), "\n") {
		if strings.HasPrefix(l, "data: ") {
			return strings.TrimPrefix(l, "data: ")
		}
	}
	return "?" + string(p)
}

type mismatch struct {
	sig  string // "" = drift (real code differs from the model, property holds so far)
	what string
}

func (m *mismatch) Error() string { return m.sig + ": " + m.what }

// expect returns the first event (stashed or new) that satisfies match.
func (w *world) expect(match func(e *hev) bool, timeout time.Duration) (hev, bool) {
	for i := range w.stash {
		if match(&w.stash[i]) {
			e := w.stash[i]
			w.stash = append(w.stash[:i], w.stash[i+1:]...)
			return e, true
		}
	}
	deadline := time.NewTimer(timeout)
	defer deadline.Stop()
	for {
		select {
		case e := <-w.evq:
			w.note(&e)
			if match(&e) {
				return e, true
			}
			w.stash = append(w.stash, e)
		case <-deadline.C:
			return hev{}, false
		}
	}
}

func (w *world) note(e *hev) {
	switch e.ev {
	case "spawn":
		w.spawned++
	case "dend":
		w.ended++
	}
}

func (w *world) drain() {
	for {
		select {
		case e := <-w.evq:
			w.note(&e)
			w.stash = append(w.stash, e)
		default:
			return
		}
	}
}

func bdata(b int) string { return "b" + strconv.Itoa(b) }

// step performs one action of the schedule on the real code and waits for what the spec says happens.
func (w *world) step(l label) *mismatch {
	c := w.clients[l.C]
	switch l.A {
	case "reg":
		ctx, cancel := context.WithCancel(context.Background())
		c = &client{name: l.C, cancel: cancel, returned: make(chan struct{}), got: map[int]bool{}}
		w.clients[l.C] = c
		req := httptest.NewRequest(http.MethodGet, "/_templ/reload/events", nil).WithContext(ctx)
		cw := &ctlWriter{w: w, name: l.C, hdr: http.Header{}}
		go func() {
			defer close(c.returned)
			w.p.ServeHTTP(cw, req)
		}()
		e, ok := w.expect(func(e *hev) bool { return e.ev == "register" }, expectTimeout)
		if !ok {
			return &mismatch{"HOOK", "no register event: the verif hook did not fire"}
		}
		c.id, c.key = e.id, e.key
		w.byKey[e.key] = c
		// the handler's timer fires at time 0: its first action is the ping write (PingFirst in the replay model)
		pw, ok := w.expect(func(e *hev) bool { return e.ev == "write" && e.name == l.C }, expectTimeout)
		if !ok {
			return &mismatch{"", "handler did not write its initial ping"}
		}
		if pw.data != "ping" {
			return &mismatch{"", "first write of the handler is not the ping: " + pw.data}
		}
		c.pending = &pw
	case "wdone":
		if c == nil || c.pending == nil {
			return &mismatch{"", "wdone: handler is not in a write"}
		}
		if strings.HasPrefix(c.pending.data, "b") {
			b, _ := strconv.Atoi(c.pending.data[1:])
			c.got[b] = true
		}
		c.pending.reply <- nil
		c.pending = nil
	case "wfail":
		if c == nil || c.pending == nil {
			return &mismatch{"", "wfail: handler is not in a write"}
		}
		c.pending.reply <- errGone
		c.pending = nil
		return w.expectExit(c, "after a failed write")
	case "cancel":
		c.cancelled = true
		c.cancel()
	case "exitctx":
		return w.expectExit(c, "after its context was cancelled")
	case "unreg":
		if c.exitGate == nil {
			return &mismatch{"", "unreg: handler is not at its exit gate"}
		}
		close(c.exitGate)
		c.exitGate = nil
		if l.Panic {
			return w.awaitDeath("closing the events channel under a blocked delivery goroutine")
		}
		if _, ok := w.expect(func(e *hev) bool { return e.ev == "unregister" && e.id == c.id }, expectTimeout); !ok {
			return &mismatch{"Unregister.NotReached", "handler of " + c.name + " did not unregister (blocked on the mutex?)"}
		}
		select {
		case <-c.returned:
		case <-time.After(expectTimeout):
			return &mismatch{"Unregister.NotReached", "handler of " + c.name + " did not return"}
		}
	case "block":
		// Send takes m and spawns in one go; BLock only exists so that the model can hold m across a step
	case "bspawn":
		ret := make(chan struct{})
		go func() {
			defer close(ret)
			w.p.SendSSE("message", bdata(l.B))
		}()
		select {
		case <-ret:
		case <-time.After(expectTimeout):
			return &mismatch{"Send.Blocks", fmt.Sprintf("Send(%s) did not return while clients were stalled / deliveries pending", bdata(l.B))}
		}
		w.drain()
		var real []string
		rest := w.stash[:0]
		for _, e := range w.stash {
			if e.ev == "spawn" && e.data == bdata(l.B) {
				if cl := w.byKey[e.key]; cl != nil {
					real = append(real, cl.name)
				} else {
					real = append(real, "?")
				}
				continue
			}
			rest = append(rest, e)
		}
		w.stash = rest
		sort.Strings(real)
		want := append([]string(nil), l.Targets...)
		sort.Strings(want)
		if strings.Join(real, ",") != strings.Join(want, ",") {
			return &mismatch{"", fmt.Sprintf("Send(%s) started deliveries for [%s], the registry holds [%s]", bdata(l.B), strings.Join(real, ","), strings.Join(want, ","))}
		}
	case "run":
		// a delivery goroutine reaches its send within microseconds of Send; the spec says Run(c,b) is enabled
		// whatever the other clients do
		e, ok := w.expect(func(e *hev) bool { return e.ev == "gate" && e.data == bdata(l.B) && w.byKey[e.key] == c }, expectTimeout/3)
		if !ok {
			// is it waiting behind the delivery of the same broadcast to another client?
			for i := range w.stash {
				o := w.byKey[w.stash[i].key]
				if w.stash[i].ev != "gate" || w.stash[i].data != bdata(l.B) || o == nil || o == c {
					continue
				}
				state := "ready in its select loop"
				switch {
				case o.pending != nil && !o.cancelled:
					state = "stalled in a write (connected, context not cancelled)"
				case o.pending != nil:
					state = "stalled in a write after its browser went away"
				case o.exitGate != nil:
					state = "on its way out (not yet unregistered)"
				}
				what := fmt.Sprintf("the delivery of %s to %s has not started: it waits behind the delivery of the same broadcast to %s, which is %s; the spec's Run(%s,%s) is enabled independently of other clients",
					bdata(l.B), l.C, o.name, state, l.C, bdata(l.B))
				if o.pending != nil || o.exitGate != nil {
					return &mismatch{"Delivery.BlockedByAnotherClient", what}
				}
				return &mismatch{"", what}
			}
			return &mismatch{"", fmt.Sprintf("delivery goroutine (%s,%s) never reached its send", l.C, bdata(l.B))}
		}
		close(e.gate)
		if l.Panic {
			return w.awaitDeath("send on the closed events channel")
		}
	case "deliver":
		e, ok := w.expect(func(e *hev) bool { return e.ev == "write" && e.name == l.C }, expectTimeout)
		if !ok {
			return &mismatch{"Deliver.NotReceived", fmt.Sprintf("client %s is connected and ready, delivery (%s,%s) was released, but the handler never wrote the event", l.C, l.C, bdata(l.B))}
		}
		if e.data == "ping" {
			return &mismatch{"Deliver.NotReceived", fmt.Sprintf("client %s is connected and ready, delivery (%s,%s) was released, but the event never arrived (the handler wrote its 5 s ping instead)", l.C, l.C, bdata(l.B))}
		}
		if e.data != bdata(l.B) {
			return &mismatch{"Deliver.WrongEvent", fmt.Sprintf("client %s: handler wrote %q, expected %s", l.C, e.data, bdata(l.B))}
		}
		c.pending = &e
	case "abandon":
		if _, ok := w.expect(func(e *hev) bool { return e.ev == "dend" && e.data == bdata(l.B) && w.byKey[e.key] == c }, expectTimeout); !ok {
			return &mismatch{"Abandon.Leak", fmt.Sprintf("delivery goroutine (%s,%s) still blocked after its client unregistered", l.C, bdata(l.B))}
		}
	default:
		vhlibFatal("unknown action %q", l.A)
	}
	return nil
}

func (w *world) expectExit(c *client, when string) *mismatch {
	e, ok := w.expect(func(e *hev) bool { return e.ev == "exit" && e.id == c.id }, expectTimeout)
	if !ok {
		return &mismatch{"Exit.NotTaken", "handler of " + c.name + " did not leave its loop " + when}
	}
	c.exitGate = e.gate
	return nil
}

// awaitDeath: the spec says the step just taken panics; templ's goroutine kills the process any moment.
func (w *world) awaitDeath(what string) *mismatch {
	time.Sleep(expectTimeout / 2)
	return &mismatch{"", "spec predicts a panic (" + what + ") but the process is still alive"}
}

// quiesce checks the terminal state: all handlers returned, all deliveries ended (or leaked exactly as
// the spec predicts), goroutine count back to the baseline, events received per client as predicted.
func (w *world) quiesce(f finalState) *mismatch {
	leakWant := 0
	for c, row := range f.Dl {
		for _, v := range row {
			if (v == "sending" || v == "spawned") && f.Pc[c] == "gone" {
				leakWant++
			}
		}
	}
	for name, c := range w.clients {
		if f.Pc[name] != "gone" {
			continue
		}
		select {
		case <-c.returned:
		case <-time.After(expectTimeout):
			return &mismatch{"Unregister.NotReached", "handler of " + name + " never returned"}
		}
	}
	deadline := time.Now().Add(expectTimeout)
	for {
		w.drain()
		extra := runtime.NumGoroutine() - w.baseline
		if extra <= leakWant && w.spawned-w.ended <= leakWant {
			break
		}
		if time.Now().After(deadline) {
			return &mismatch{"NoLeak.BlockedDelivery", fmt.Sprintf("%d goroutines above the baseline after quiescence (%d deliveries started, %d ended; the spec allows %d leaked)",
				extra, w.spawned, w.ended, leakWant)}
		}
		time.Sleep(200 * time.Microsecond)
	}
	for name, want := range f.Got {
		c := w.clients[name]
		var real []int
		if c != nil {
			for b := range c.got {
				real = append(real, b)
			}
		}
		sort.Ints(real)
		sort.Ints(want)
		if fmt.Sprint(real) != fmt.Sprint(want) {
			return &mismatch{"Deliver.NotReceived", fmt.Sprintf("client %s received broadcasts %v, the spec says %v", name, real, want)}
		}
	}
	return nil
}

func vhlibFatal(format string, a ...any) {
	fmt.Fprintf(os.Stderr, "HARNESS-ERROR: "+format+"\n", a...)
	os.Exit(4)
}

func replayMain(args []string) {
	if len(args) < 2 {
		vhlibFatal("usage: c19 replay <schedules.ndjson> <start> [timeout-seconds]")
	}
	start, _ := strconv.Atoi(args[1])
	if len(args) > 2 {
		s, _ := strconv.Atoi(args[2])
		expectTimeout = time.Duration(s) * time.Second
	}
	f, err := os.Open(args[0])
	if err != nil {
		vhlibFatal("%v", err)
	}
	defer f.Close()
	sc := bufio.NewScanner(f)
	sc.Buffer(make([]byte, 1<<20), 1<<26)
	i := -1
	for sc.Scan() {
		i++
		if i < start || len(sc.Bytes()) == 0 {
			continue
		}
		var s schedule
		if err := json.Unmarshal(sc.Bytes(), &s); err != nil {
			vhlibFatal("schedule %d: %v", i, err)
		}
		emit(map[string]any{"kind": "begin", "i": i})
		w := newWorld()
		var mm *mismatch
		at := -1
		for k, l := range s.Steps {
			emit(map[string]any{"kind": "step", "i": i, "k": k})
			if s.StallMs > 0 && k == s.StallAt {
				time.Sleep(time.Duration(s.StallMs) * time.Millisecond)
			}
			if mm = w.step(l); mm != nil {
				at = k
				break
			}
		}
		if mm == nil {
			if s.Final.Panicked {
				mm = &mismatch{"", "spec ends in the Panic state but no step was marked as panicking"}
			} else {
				mm = w.quiesce(s.Final)
			}
		}
		if mm != nil {
			if mm.sig == "HOOK" {
				vhlibFatal("%s", mm.what)
			}
			kind := "fail"
			if mm.sig == "" {
				kind = "drift"
			}
			emit(map[string]any{"kind": "result", "i": i, "outcome": kind, "sig": mm.sig, "what": mm.what, "step": at})
			// the world is in an unknown state (blocked goroutines, gates): leave it to a fresh process
			os.Exit(3)
		}
		emit(map[string]any{"kind": "result", "i": i, "outcome": "ok", "steps": len(s.Steps)})
	}
	if err := sc.Err(); err != nil {
		vhlibFatal("%v", err)
	}
	emit(map[string]any{"kind": "summary", "last": i})
}
