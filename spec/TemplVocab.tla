----------------------------- MODULE TemplVocab -----------------------------
(* Concrete vocabularies shared by the model-checking instances of TemplLang and FmtLayout. *)
NoAttrs == << >>
AttrChoicesNone == { NoAttrs }
AttrChoicesSmall == {
    NoAttrs,
    << [a |-> "const", n |-> "title", v |-> "k1"] >>,
    << [a |-> "expr", n |-> "data-x", e |-> "E1"] >>,
    << [a |-> "cssclass"] >>,
    << [a |-> "classmix"] >>,
    << [a |-> "url", u |-> "U2"] >>,
    << [a |-> "cond", c |-> "C1", then |-> << [a |-> "const", n |-> "title", v |-> "k1"] >>, else |-> << >>] >> }
AttrChoicesFull == {
    NoAttrs,
    << [a |-> "const", n |-> "title", v |-> "k1"] >>,
    << [a |-> "const", n |-> "title", v |-> "k2"], [a |-> "boolc", n |-> "hidden"] >>,
    << [a |-> "expr", n |-> "data-x", e |-> "E1"] >>,
    << [a |-> "boole", n |-> "disabled", c |-> "C1"], [a |-> "expr", n |-> "data-y", e |-> "E2"] >>,
    << [a |-> "spread", m |-> "M1"] >>,
    << [a |-> "const", n |-> "id", v |-> "k1"], [a |-> "spread", m |-> "M2"] >>,
    << [a |-> "class2"] >>,
    << [a |-> "classkv", c |-> "C1"], [a |-> "boolc", n |-> "hidden"] >>,
    << [a |-> "cssclass"] >>,
    << [a |-> "cssclassx"], [a |-> "const", n |-> "title", v |-> "k1"] >>,
    << [a |-> "classmix"] >>,
    << [a |-> "scriptcall2", n |-> "onclick"], [a |-> "boolc", n |-> "hidden"] >>,
    << [a |-> "scriptcall", n |-> "onclick"], [a |-> "const", n |-> "title", v |-> "k1"] >>,
    << [a |-> "scriptcall", n |-> "onclick"], [a |-> "scriptcall", n |-> "onfocus"] >>,
    << [a |-> "cond", c |-> "C1", then |-> << [a |-> "const", n |-> "title", v |-> "k1"] >>, else |-> << [a |-> "scriptcall", n |-> "onclick"] >>] >>,
    << [a |-> "cond", c |-> "C2", then |-> << [a |-> "scriptcall", n |-> "onfocus"] >>, else |-> << >>] >>,
    << [a |-> "url", u |-> "U1"] >>,
    << [a |-> "const", n |-> "title", v |-> "k1"], [a |-> "url", u |-> "U2"] >>,
    << [a |-> "style", e |-> "T1"] >>,
    << [a |-> "style", e |-> "T2"], [a |-> "boolc", n |-> "hidden"] >>,
    << [a |-> "cond", c |-> "C1", then |-> << [a |-> "url", u |-> "U1"] >>, else |-> << [a |-> "style", e |-> "T1"] >>] >>,
    << [a |-> "const", n |-> "href", v |-> "k5"] >>,
    << [a |-> "const", n |-> "placeholder", v |-> "k6"], [a |-> "boolc", n |-> "hidden"] >>,
    << [a |-> "cond", c |-> "C2", then |-> << [a |-> "boolc", n |-> "hidden"] >>, else |-> << [a |-> "class2"] >>] >>,
    << [a |-> "class", e |-> "K1"], [a |-> "const", n |-> "title", v |-> "k1"] >>,
    << [a |-> "cond", c |-> "C1", then |-> << [a |-> "class", e |-> "K1"] >>, else |-> << >>] >>,
    << [a |-> "const", n |-> "title", v |-> "k4"], [a |-> "const", n |-> "lang", v |-> "k3"] >>,
    << [a |-> "cond", c |-> "C1", then |-> << [a |-> "const", n |-> "title", v |-> "k1"] >>, else |-> << >>] >>,
    << [a |-> "cond", c |-> "C2", then |-> << [a |-> "expr", n |-> "data-x", e |-> "E1"] >>,
                                  else |-> << [a |-> "boolc", n |-> "hidden"] >>],
       [a |-> "const", n |-> "lang", v |-> "k3"] >> }

EnvSeqDef == <<
    [c |-> [C1 |-> TRUE,  C2 |-> FALSE], l |-> [L1 |-> 2], s |-> "a"],
    [c |-> [C1 |-> FALSE, C2 |-> TRUE],  l |-> [L1 |-> 1], s |-> "b"],
    [c |-> [C1 |-> FALSE, C2 |-> FALSE], l |-> [L1 |-> 0], s |-> "z"] >>
\* three conditions: EnvSeqDef extended by C3 (the harness renders every program of a run with ONE list of
\* environments, so the lists of all families are prefixes of this one), plus one in which only the third arm runs
EnvSeq3 == <<
    [c |-> [C1 |-> TRUE,  C2 |-> FALSE, C3 |-> FALSE], l |-> [L1 |-> 2], s |-> "a"],
    [c |-> [C1 |-> FALSE, C2 |-> TRUE,  C3 |-> FALSE], l |-> [L1 |-> 1], s |-> "b"],
    [c |-> [C1 |-> FALSE, C2 |-> FALSE, C3 |-> FALSE], l |-> [L1 |-> 0], s |-> "z"],
    [c |-> [C1 |-> FALSE, C2 |-> FALSE, C3 |-> TRUE],  l |-> [L1 |-> 1], s |-> "b"] >>
EnvSeqOne == << [c |-> [C1 |-> TRUE, C2 |-> FALSE], l |-> [L1 |-> 2], s |-> "a"] >>
=============================================================================
