------------------------------ MODULE MCDevMode ------------------------------
(* Model-checking instances of DevMode: the items templates are built from. An item pairs an
   expression with a position it type-checks in (x, y: string; u: templ.SafeURL; h: templ.ComponentScript;
   b: bool; at: templ.Attributes; c: templ.Component; xs: []string); "lit" items are static text.      *)
EXTENDS DevMode
It(k, e) == [k |-> k, e |-> e]
\* every sink kind of the generator
ChoicesFull == { It("lit", "a"), It("lit", "b"),
                 It("text", "x"), It("text", "y"), It("attr", "x"), It("style", "x"), It("class", "x"),
                 It("sbare", "x"), It("slit", "x"), It("comment", "x"),
                 It("url", "u"), It("sbare", "u"),
                 It("onattr", "h"), It("call", "h"),
                 It("bool", "b"), It("if", "b"),
                 It("spread", "at"), It("call", "c"), It("for", "xs"),
                 It("children", "-"),
                 It("cssconst", "red"), It("cssconst", "blue") }
\* a smaller universe with one representative per phenomenon (quick tier, 3 items)
ChoicesCore == { It("lit", "a"), It("lit", "b"),
                 It("text", "x"), It("text", "y"), It("attr", "x"), It("style", "x"), It("class", "x"),
                 It("sbare", "x"), It("comment", "x"),
                 It("onattr", "h"), It("call", "h"),
                 It("if", "b"),
                 It("children", "-"),
                 It("cssconst", "red"), It("cssconst", "blue") }
\* the smallest universe that still shows every blind spot (quick tier, 3 items)
ChoicesMini == { It("lit", "a"), It("lit", "b"), It("text", "x"), It("attr", "x"), It("style", "x"),
                 It("onattr", "h"), It("if", "b"), It("children", "-") }
\* static text around expressions that carry no literal of their own: edits that move text across Go code (4 items)
ChoicesText == { It("lit", "a"), It("lit", "b"), It("text", "x"), It("children", "-") }
=============================================================================
