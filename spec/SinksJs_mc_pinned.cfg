\* C03 escapers as coded at the pin: TLC is EXPECTED to report NoInterpolation (finding JsStr.NoDollarEntry.InTemplate)
CONSTANTS
  StrVariant = "pinned"
  JsonVariant = "std"
  HtmlVariant = "std"
  Positions <- PositionsDef
  EmitEdges = FALSE
INIT Init
NEXT Next
VIEW View

INVARIANTS TypeOK StaysInScript NoHtmlComment StaysInLiteral NoInterpolation DecodesToInput NeutralAfterFeed SuffixTerminates
CHECK_DEADLOCK FALSE
