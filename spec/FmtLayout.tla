------------------------------ MODULE FmtLayout ------------------------------
(* The layout decisions of templ's formatter (parser/v2/types.go: writeNodes, Element.Write and friends)
   as a function Fmt on the abstract programs of TemplLang: Fmt(p) is the program whose concrete spelling
   (canonical variant of the concretiser) is, byte for byte, what `templ fmt` prints for any spelling of p.

   The formatter works on the PARSE of the source, so the model first reads off what the parser records:
     * a trailer (text, string expression, element, void element, Go code) records the class of the
       whitespace after it (TrailingSpace); a text's horizontal trailing space stays inside its value
       when something follows on the same line (`sp`), and TrailingSpace is then "none";
     * any other node is followed by a Whitespace node iff whitespace follows it in the source;
     * an element has IndentChildren iff its children are not all on the line of its start tag.
   Then writeNodes decides, per node, what to write after it.

   Checked by TLC on every program the builder produces (C09 stage 2, C08 model level):
     Idempotent          Fmt(Fmt(p)) = Fmt(p)
     NoInventedSeparation  where p has NO whitespace between two adjacent sibling nodes, Fmt(p) has none
                           (violated by the forced line breaks of the code as it is: the known C08 finding;
                            holds for ForcedBreaks = "onlyWhereSeparated")
   Bound to the code by conformance: the harness prints Fmt(p) with the canonical spelling and compares it
   with the real formatter's output for every spelling of p.                                             *)
EXTENDS TemplLang

CONSTANTS
    NonTrailerRule,   \* "source" = as repaired (ef21d83): reproduce whether whitespace followed the node;
                      \* "newline" = the original default (line break after every node without trailing-space info)
    ForcedBreaks      \* "asCoded" = break before block nodes / after br, hr / after the last node, always;
                      \* "onlyWhereSeparated" = hypothetical repair: not where the source had no whitespace

-----------------------------------------------------------------------------
(* What the parser records *)
IsTrailer(nd) == nd.k \in {"text", "expr", "void", "el", "gocode", "gocodei", "gocodeml"}

\* a text whose horizontal trailing space is kept inside its value
HasSp(nd) == nd.k = "text" /\ (IF "sp" \in DOMAIN nd THEN nd.sp ELSE nd.tr = "h")

\* TrailingSpace as recorded by the parser
Trailing(nd) == CASE nd.k = "text"   -> IF nd.tr = "h" THEN "" ELSE nd.tr
                  [] nd.k \in {"gocode", "gocodeml"} -> "v"
                  [] OTHER           -> nd.tr

\* a Whitespace node follows nd in its sibling list
WsNodeAfter(nd) == ~IsTrailer(nd) /\ WsAfter(nd) # ""

HasCondAttr(nd) == nd.k \in {"el", "void"} /\ \E i \in 1..Len(nd.attrs) : nd.attrs[i].a = "cond"
\* the start tag of nd spans lines: a conditional attribute always does; in the "loose" spelling every attribute
\* is written on its own line (the parser records that as IndentAttrs and keeps it)
OpenTagSpansLines(nd, loose) == HasCondAttr(nd) \/ (loose /\ nd.k \in {"el", "void"} /\ nd.attrs # <<>>)

RECURSIVE SpansLines(_, _)
\* children not all on the start tag's line  (Element.IndentChildren)
SpansLines(el, loose) ==
    /\ el.kids # <<>>
    /\ \/ el.lead = "v"
       \/ \E i \in 1..Len(el.kids) :
            LET kd == el.kids[i] IN
            \/ WsAfter(kd) = "v"
            \/ kd.k \in {"if", "for", "switch", "callb", "gcomment", "gocodeml"}
            \/ OpenTagSpansLines(kd, loose)
            \/ (kd.k = "el" /\ SpansLines(kd, loose))

TemplBlockNames == BlockNames \cup {"br", "hr"}
IsBlockNode(nd, loose) ==
                   \/ nd.k \in {"if", "for", "switch"}
                   \/ (nd.k = "el" /\ (nd.name \in TemplBlockNames \/ SpansLines(nd, loose)))
                   \/ (nd.k = "void" /\ nd.name \in TemplBlockNames)
AlwaysBreakAfter(nd) == nd.k = "void" /\ nd.name \in {"br", "hr"}

-----------------------------------------------------------------------------
(* writeNodes *)
SetWs(nd, d) ==
    CASE nd.k = "text" -> [k |-> "text", w |-> nd.w, tr |-> d, sp |-> HasSp(nd)]
      [] nd.k \in {"expr", "void", "el", "gocodei"} -> [nd EXCEPT !.tr = d]
      [] nd.k \in {"slot", "hcomment", "mcomment", "raw", "call", "callb"} -> [nd EXCEPT !.after = d]
      [] OTHER -> nd      \* line-start nodes always end their line

Decision(nodes, i, indent, loose) ==
    LET nd == nodes[i]
        base == IF IsTrailer(nd) THEN Trailing(nd)
                ELSE IF nd.k = "gcomment" THEN "v"
                ELSE IF NonTrailerRule = "newline" THEN "v"
                \* a call without a block keeps one space inside a single-line element (repair 1cc2d8c: its Go
                \* expression ends where the next token of the line begins)
                ELSE IF nd.k = "call" /\ ~indent /\ WsNodeAfter(nd) THEN "h"
                ELSE IF ~indent \/ ~WsNodeAfter(nd) THEN "" ELSE "v"
        last == i = Len(nodes) /\ ~WsNodeAfter(nd)
        nextBlock == i < Len(nodes) /\ ~WsNodeAfter(nd) /\ IsBlockNode(nodes[i + 1], loose)
        separated == WsAfter(nd) # "" \/ HasSp(nd)
        forced == indent /\ (last \/ nextBlock \/ AlwaysBreakAfter(nd))
                         /\ (ForcedBreaks = "asCoded" \/ last \/ separated)
    IN IF forced THEN "v" ELSE base

RECURSIVE FmtList(_, _, _), FmtNode(_, _), FmtBranches(_, _), FmtCases(_, _)

FmtList(nodes, indent, loose) ==
    [i \in 1..Len(nodes) |-> SetWs(FmtNode(nodes[i], loose), Decision(nodes, i, indent, loose))]

FmtBranches(brs, loose) == [i \in 1..Len(brs) |-> [c |-> brs[i].c, body |-> FmtList(brs[i].body, TRUE, loose)]]
FmtCases(cs, loose) == [i \in 1..Len(cs) |-> [key |-> cs[i].key, body |-> FmtList(cs[i].body, TRUE, loose)]]

FmtNode(nd, loose) ==
    CASE nd.k = "el" -> IF nd.kids = <<>> THEN nd
                        ELSE LET ind == SpansLines(nd, loose) IN
                             [nd EXCEPT !.lead = IF ind THEN "v" ELSE "", !.kids = FmtList(nd.kids, ind, loose)]
      [] nd.k = "if" -> [nd EXCEPT !.brs = FmtBranches(nd.brs, loose), !.els = FmtList(nd.els, TRUE, loose)]
      [] nd.k = "for" -> [nd EXCEPT !.body = FmtList(nd.body, TRUE, loose)]
      [] nd.k = "switch" -> [nd EXCEPT !.cases = FmtCases(nd.cases, loose)]
      [] nd.k = "callb" -> [nd EXCEPT !.body = FmtList(nd.body, TRUE, loose)]
      [] OTHER -> nd

\* loose = the source is written in the spelling that puts every attribute on its own line
FmtS(p, loose) == FmtList(p, TRUE, loose)
Fmt(p) == FmtS(p, FALSE)

-----------------------------------------------------------------------------
(* Properties of the layout model *)
Idempotent == done => \A loose \in BOOLEAN : FmtS(FmtS(prog, loose), loose) = FmtS(prog, loose)

\* whitespace (of any class) after node nd in its sibling list, as the generator will see it
Separated(nd) == WsAfter(nd) # "" \/ HasSp(nd)

RECURSIVE KeepsAdjacency(_, _)
\* formatting wrote whitespace between two sibling nodes only where the source had some
KeepsAdjacency(a, b) ==
    /\ Len(a) = Len(b)
    /\ \A i \in 1..Len(a) :
         /\ (i < Len(a) /\ ~Separated(a[i])) => ~Separated(b[i])
         /\ CASE a[i].k = "el" -> KeepsAdjacency(a[i].kids, b[i].kids)
              [] a[i].k = "for" -> KeepsAdjacency(a[i].body, b[i].body)
              [] a[i].k = "callb" -> KeepsAdjacency(a[i].body, b[i].body)
              [] a[i].k = "if" -> /\ KeepsAdjacency(a[i].els, b[i].els)
                                  /\ \A j \in 1..Len(a[i].brs) : KeepsAdjacency(a[i].brs[j].body, b[i].brs[j].body)
              [] a[i].k = "switch" -> \A j \in 1..Len(a[i].cases) : KeepsAdjacency(a[i].cases[j].body, b[i].cases[j].body)
              [] OTHER -> TRUE
NoInventedSeparation == done => KeepsAdjacency(prog, Fmt(prog))

\* formatting never changes what is denoted, token for token (separator requirements may only relax from
\* "may" to "may"; a "mustnot" that becomes "must"/"may" is exactly NoInventedSeparation failing)
SameTokens(x, y) == /\ Len(x) = Len(y)
                    /\ \A i \in 1..Len(x) : x[i].t = y[i].t /\ x[i].n = y[i].n /\ x[i].attrs = y[i].attrs
FmtKeepsTokens == done => \A env \in Envs : SameTokens(Denote(prog, env).toks, Denote(Fmt(prog), env).toks)
FmtKeepsMust == done => \A env \in Envs :
    LET x == Denote(prog, env).toks
        y == Denote(Fmt(prog), env).toks
    IN \A i \in 1..Len(x) : (i <= Len(y) /\ x[i].g = "must") => y[i].g = "must"

EmitFmt == done => PrintT(<<"FMT", ToJson([prog |-> prog, fmt |-> Fmt(prog), fmtl |-> FmtS(prog, TRUE)])>>)
=============================================================================
