\* C03 script parser quote tracking as coded agrees with a JavaScript lexer on every static prefix
CONSTANTS
  EscMode = "any"
  MaxPre = 1
  EmitCases = FALSE
INIT Init
NEXT Next
VIEW View
INVARIANTS QuoteStateAgrees SameState
CHECK_DEADLOCK FALSE
