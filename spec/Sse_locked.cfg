\* C19 negative config: m held across the send: TLC must reject BroadcasterNeverBlocks.
CONSTANTS
  Clients = {"c1", "c2"}
  NB = 2
  Design = "lockedsend"
  MaxPings = 1
  PingFirst = FALSE
  NoRaces = FALSE
  ServerCuts = FALSE
  Slow = {"c1"}
  EmitEdges = FALSE
SPECIFICATION Spec
VIEW View
INVARIANTS TypeOK RegistryExact NoPanic BroadcasterNeverBlocks OthersUnaffected NoLeak SpawnedAreTargets DeliveredAtQuiescence
CHECK_DEADLOCK FALSE
