\* C06 (ii): PositionAt = Advance* on every text up to MaxLen symbols.
CONSTANTS
  MaxLen = 5
  Widths = {1, 2, 3, 4}
  NewlineRule = "le"
  ColMode = "bytes"
  EolEntry = TRUE
INIT Init
NEXT Next
INVARIANTS PositionIsAdvance RangeOrdered RangeInBounds RangeCovers
CHECK_DEADLOCK FALSE
