\* C12 design check C: one context, the once-handle universe: two NewOnceHandle handles, two zero-value handles, one fixed-component handle.
CONSTANTS
  Ctxs <- Ctx1
  Modes = {"plain", "mw", "fresh"}
  Scripts = {"s1"}
  Classes = {"k1"}
  BlockHandles = {"h1", "h2"}
  ZeroHandles = {"z1", "z2"}
  FixedHandles = {"g1"}
  RegSeq <- RegK1
  OnSeqs <- OnSeqsCore
  ClassExprs <- ClassExprsCore
  Repaired = {"KvCompName", "SliceKVRules"}
  Variant = "asCoded"
  NonceCtxs = {}
  MaxNonces = 0
  MaxSteps = 99
  EmitEdges = FALSE
INIT Init
NEXT Next
VIEW View
INVARIANTS TypeOK RegistryMatchesDocument
PROPERTIES AtMostOnce DefBeforeFirstUse EveryUseHasCallOrName MiddlewareNeverInlined StylesheetServesRegistered ContextsIndependent NonceKeepsRegistry
CHECK_DEADLOCK FALSE
