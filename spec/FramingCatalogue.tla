-------------------------- MODULE FramingCatalogue --------------------------
(* Byte and rune lengths and typed ids of the JSON bodies of the harness's message catalogue (harness/c18:
   catalogue()).  This file holds the values measured at the pinned commit; the check regenerates it
   in its scratch directory from `c18 catalogue` on every run, so that wire position i of the model is
   byte i of the real frame.  Id texts are in the harness's tlaSafe spelling (%XX for other bytes).   *)
LOCAL INSTANCE Integers
LOCAL NoNum == 0 - 1000
CatalogueMsgs == <<
  [kind |-> "call", idk |-> "num", id |-> [t |-> "num", v |-> "1", n |-> 1], pay |-> "string", blen |-> 50, rlen |-> 50],
  [kind |-> "notify", idk |-> "none", id |-> [t |-> "none", v |-> "", n |-> NoNum], pay |-> "string", blen |-> 44, rlen |-> 43],
  [kind |-> "call", idk |-> "str", id |-> [t |-> "str", v |-> "x%E2%82%ACy", n |-> NoNum], pay |-> "string", blen |-> 74, rlen |-> 68],
  [kind |-> "response", idk |-> "num", id |-> [t |-> "num", v |-> "7", n |-> 7], pay |-> "string", blen |-> 40, rlen |-> 37],
  [kind |-> "response", idk |-> "str", id |-> [t |-> "str", v |-> "id-%C3%BC", n |-> NoNum], pay |-> "object", blen |-> 52, rlen |-> 49],
  [kind |-> "response", idk |-> "num", id |-> [t |-> "num", v |-> "2147483647", n |-> 2147483647], pay |-> "error", blen |-> 76, rlen |-> 75],
  [kind |-> "notify", idk |-> "none", id |-> [t |-> "none", v |-> "", n |-> NoNum], pay |-> "string", blen |-> 178, rlen |-> 178],
  [kind |-> "call", idk |-> "num", id |-> [t |-> "num", v |-> "0", n |-> 0], pay |-> "null", blen |-> 58, rlen |-> 58],
  [kind |-> "call", idk |-> "str", id |-> [t |-> "str", v |-> "7", n |-> 7], pay |-> "string", blen |-> 53, rlen |-> 52],
  [kind |-> "response", idk |-> "str", id |-> [t |-> "str", v |-> "42", n |-> 42], pay |-> "string", blen |-> 41, rlen |-> 41],
  [kind |-> "response", idk |-> "str", id |-> [t |-> "str", v |-> "007", n |-> 7], pay |-> "error", blen |-> 69, rlen |-> 69],
  [kind |-> "call", idk |-> "str", id |-> [t |-> "str", v |-> "-1", n |-> 0 - 1], pay |-> "null", blen |-> 54, rlen |-> 54],
  [kind |-> "response", idk |-> "num", id |-> [t |-> "num", v |-> "-12", n |-> 0 - 12], pay |-> "string", blen |-> 41, rlen |-> 41],
  [kind |-> "response", idk |-> "num", id |-> [t |-> "num", v |-> "8", n |-> 8], pay |-> "null", blen |-> 38, rlen |-> 38],
  [kind |-> "response", idk |-> "str", id |-> [t |-> "str", v |-> "s%C3%A9v", n |-> NoNum], pay |-> "null", blen |-> 43, rlen |-> 42],
  [kind |-> "response", idk |-> "num", id |-> [t |-> "num", v |-> "9", n |-> 9], pay |-> "array", blen |-> 47, rlen |-> 46],
  [kind |-> "response", idk |-> "num", id |-> [t |-> "num", v |-> "10", n |-> 10], pay |-> "number", blen |-> 39, rlen |-> 39],
  [kind |-> "response", idk |-> "str", id |-> [t |-> "str", v |-> "t", n |-> NoNum], pay |-> "true", blen |-> 40, rlen |-> 40],
  [kind |-> "response", idk |-> "num", id |-> [t |-> "num", v |-> "11", n |-> 11], pay |-> "false", blen |-> 40, rlen |-> 40],
  [kind |-> "response", idk |-> "num", id |-> [t |-> "num", v |-> "12", n |-> 12], pay |-> "errdata", blen |-> 109, rlen |-> 109],
  [kind |-> "call", idk |-> "num", id |-> [t |-> "num", v |-> "13", n |-> 13], pay |-> "object", blen |-> 59, rlen |-> 59],
  [kind |-> "call", idk |-> "str", id |-> [t |-> "str", v |-> "", n |-> NoNum], pay |-> "string", blen |-> 50, rlen |-> 50],
  [kind |-> "response", idk |-> "str", id |-> [t |-> "str", v |-> "", n |-> NoNum], pay |-> "string", blen |-> 37, rlen |-> 37]
>>
=============================================================================
