\* C13 negative config: a block closure that does not flush the Buffer it created over a foreign writer must be rejected.
CONSTANTS
  Kinds = {"c1", "c0", "fn", "fo", "fh"}
  FirstKinds = {"c1", "c0", "fn", "fo", "fh"}
  MaxNodes = 3
  MaxDepth = 3
  MaxOut = 120
  Repaired = {"OnceAgain", "OnceFirst", "Flush", "Join", "Raw", "Nop", "Script", "Json"}
  BlockFlushes = FALSE
  GenClears = TRUE
  EmitEdges = FALSE
INIT Init
NEXT Next
VIEW View
INVARIANTS TypeOK ImplEqualsIdeal
CHECK_DEADLOCK FALSE
