----------------------------- MODULE MCSinksCss -----------------------------
(* Model-checking instance of SinksCss (C05). *)
EXTENDS SinksCss
ClassesDef == AllClasses
SafeClassesDef == {"Regular", "Enum", "Name"}
FontOnly == {"FontFamily"}
BgOnly == {"BackgroundImage"}
ContextsDef == AllContexts
FullAlphabet == CssSym
\* reduced alphabet for the attribution run on the pinned model (its permissive branches accept everything)
SmallAlphabet == {CDQ, "'", ";", "}", "{", "(", ")", ",", CBSL, "/", "*", "<", ":", "&", "u", "r", "l", "s", "t", "y", "e", "a", "SP", "LF"}
NoExtra == {}
SemicolonExtra == {";"}
=============================================================================
