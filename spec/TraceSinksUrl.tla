---------------------------- MODULE TraceSinksUrl ----------------------------
(* C04 -- trace validation of REAL sanitiser verdicts and REAL rendered href/action attributes.

   Per case the harness logs  [id, sink, in, out]:  in = the symbols of the string s given to templ.URL,
   out = the symbols of the complete real output of a generated gallery component that renders
   href={ templ.URL(s) } / action={ templ.URL(s) }.  sinks.json holds the author's token pattern with an
   "A" placeholder at the attribute value.  This spec
     1. runs HtmlTok over `out` (HtmlMatch.tla): Structure must hold and the decoded attribute value is captured;
     2. derives the REAL verdict from the real output: the decoded value is the input (pass) or it is not;
     3. PassImpliesSafe: a passed value, read by UrlScheme, has no scheme (relative reference) or an
        allow-listed one;   FailIsFixed: a value that is not the input is exactly the fixed failure URL;
     4. compares the real verdict with the acceptor model of UrlAccept.tla (differences are model drift
        unless 3. fails).
   Verdicts: "ok", "structure", "unsafe-pass" (PassImpliesSafe), "not-fixed" (FailIsFixed);
   drift ids are listed separately.                                                                    *)
EXTENDS HtmlMatch, UrlScheme, UrlAccept, Json

Trace == ndJsonDeserialize("trace.ndjson")
Sinks == JsonDeserialize("sinks.json")

VARIABLES i, fails, drift
vars == <<i, fails, drift>>

\* the decoded value equals the input modulo the tokenizer's input preprocessing
RECURSIVE SameVal(_, _, _, _, _)
SameVal(val, e, in, j, pcr) ==
    IF j > Len(in) THEN e = Len(val) + 1
    ELSE LET x == in[j] IN
         IF x = cLF /\ pcr THEN SameVal(val, e, in, j + 1, FALSE)
         ELSE IF e > Len(val) THEN FALSE
         ELSE LET got == val[e]
                  ok  == IF x = cCR THEN got = cLF
                         ELSE IF x = cNUL THEN got \in {cNUL, kFFFD}
                         ELSE IF x = kBADBYTE THEN got = kFFFD
                         ELSE got = x
              IN  ok /\ SameVal(val, e + 1, in, j + 1, x = cCR)

Verdict(t) ==
    LET f      == FoldCap(Sinks[t.sink].pat, t.in, t.out)
        val    == f.m.val
        pass   == SameVal(val, 1, t.in, 1, FALSE)
        sch    == SchemeOf(UrlRun(UrlInit, val, 1))
        model  == ARun(A0, t.in, 1).ph # "fail"
        \* an input that IS the failure URL is returned unchanged either way
        isFail == val = FailUrl
    IN  IF ~(f.m.sok /\ AtRest(f.q)) THEN [v |-> "structure", d |-> FALSE]
        ELSE IF pass /\ ~isFail /\ ~(sch = <<>> \/ sch \in Allowed) THEN [v |-> "unsafe-pass", d |-> FALSE]
        ELSE IF ~pass /\ ~isFail THEN [v |-> "not-fixed", d |-> FALSE]
        ELSE [v |-> "ok", d |-> t.in # FailUrl /\ (pass # model)]

Init == i = 1 /\ fails = <<>> /\ drift = <<>>
Next == /\ i <= Len(Trace)
        /\ LET r == Verdict(Trace[i]) IN
           /\ fails' = IF r.v = "ok" THEN fails ELSE Append(fails, [id |-> Trace[i].id, why |-> r.v])
           /\ drift' = IF r.d THEN Append(drift, Trace[i].id) ELSE drift
        /\ i' = i + 1
        /\ (i = Len(Trace) => PrintT(<<"DONE", ToJson([consumed |-> i, fails |-> fails', drift |-> drift'])>>))
Spec == Init /\ [][Next]_vars
AllConsumed == TLCGet("stats").distinct = Len(Trace) + 1
=============================================================================
