#!/usr/bin/env python3
"""C02 -- generated Go code compiles and renders exactly what the template denotes.

spec/TemplLang.tla: builder state machine + Denote(ast, env). TLC enumerates programs and prints each with its
denotation (token sequence with must/mustnot/may separators + evaluation list) per environment. The harness prints
each program as templ source (rotating three spellings), the repository's `templ generate` (built from the working
tree) generates Go, `go build` compiles ~500 templates per package, the binaries render every template under every
environment, and the rendered HTML (tokenised by x/net/html) is matched against the denotation."""
import json, os, re, subprocess, sys, time
from concurrent.futures import ThreadPoolExecutor
sys.path.insert(0, os.path.dirname(os.path.abspath(__file__)))
sys.path.insert(0, os.path.join(os.path.dirname(os.path.abspath(__file__)), "..", "lib"))
import vlib, langcommon


def main():
    ck = vlib.Check("C02", "translation_validation")
    thorough = ck.tier == "thorough"
    progs, counts = langcommon.enumerate_programs(ck, langcommon.default_plan(ck.tier), ck.seed)
    chosen = langcommon.sample(progs, 24000 if thorough else 4800, ck.seed)
    if len(chosen) < 500:
        raise vlib.InfraError("TLC produced only %d programs" % len(chosen))
    sc = vlib.scratch()
    ppath = vlib.write_ndjson(os.path.join(sc, "progs.ndjson"), chosen)
    hd = vlib.harness_dir()
    binp = vlib.go_build("./c02", "c02")
    gen = os.path.join(hd, "gen")
    variants = 4 if thorough else 1
    p = vlib.run([binp, "emit", ppath, gen, "500", str(variants)])
    s = json.loads(p.stdout.decode().splitlines()[-1])
    dirs = sorted(os.listdir(gen))
    vlib.templ_bin()
    byname = {}
    for pr in chosen:
        for v in range(4):
            byname["p%07d_%d" % (pr["id"], v)] = (pr, v)
    envs = json.dumps([d["env"] for d in chosen[0]["den"]])
    # all programs of one run must share the environment list length used by their family; pass the longest
    maxenv = max(chosen, key=lambda pr: len(pr["den"]))
    envlist = [d["env"] for d in maxenv["den"]]
    envs = json.dumps(envlist)

    def same_env(a, b):
        # the longest list may know more conditions than a family uses
        return a["s"] == b["s"] and a["l"] == b["l"] and all(b["c"].get(k) == v for k, v in a["c"].items())
    for pr in chosen:
        for i, d in enumerate(pr["den"]):
            if not same_env(d["env"], envlist[i]):
                raise vlib.InfraError("environment lists of the families are not prefixes of one list (program %s, environment %d)" % (pr["id"], i))
    compile_failures = []

    def build(d):
        path = os.path.join(gen, d)
        for attempt in range(3):
            try:
                vlib.templ_generate(path)
                break
            except vlib.InfraError as e:
                # the generator produced Go that its own gofmt step rejects: "the generated Go code compiles" is violated
                bad = sorted(set(re.findall(r'/(p\d{7}_\d)\.templ source formatting error ([^\n\]]*)', str(e))))
                if not bad:
                    raise vlib.InfraError("templ generate rejected a concretised template in %s: %s" % (d, str(e)[-1500:]))
                for name, msg in bad:
                    compile_failures.append((name, "templ generate: generated code is not gofmt-valid: " + msg.strip()))
                    for ext in (".templ", "_templ.go"):
                        try:
                            os.remove(os.path.join(path, name + ext))
                        except OSError:
                            pass
                reg = os.path.join(path, "registry.go")
                names = {n for n, _ in bad}
                lines = [l for l in open(reg).read().splitlines(True) if not any(("return P" + n[1:] + "(") in l for n in names)]
                open(reg, "w").write("".join(lines))
        else:
            raise vlib.InfraError("templ generate still failing after removing rejected templates in %s" % d)
        exe = os.path.join(sc, "gen-" + d)
        for attempt in range(8):
            r = vlib.run(["go", "build", "-gcflags=-e", "-o", exe, "./gen/" + d], cwd=hd, check=False, timeout=1800)
            if r.returncode == 0:
                break
            err = r.stderr.decode(errors="replace")
            bad = sorted(set(re.findall(r"(p\d{7}_\d)_templ\.go:\d+:\d+: ([^\n]*)", err)))
            if not bad:
                raise vlib.InfraError("go build failed without a template position: %s" % err[-2000:])
            names = set()
            for name, msg in bad:
                if name not in names:
                    names.add(name)
                    compile_failures.append((name, msg))
            for name in names:
                for ext in (".templ", "_templ.go"):
                    try:
                        os.remove(os.path.join(path, name + ext))
                    except OSError:
                        pass
            reg = os.path.join(path, "registry.go")
            lines = [l for l in open(reg).read().splitlines(True) if not any(("return P" + n[1:] + "(") in l for n in names)]
            open(reg, "w").write("".join(lines))
        else:
            raise vlib.InfraError("go build still failing after removing non-compiling templates in %s" % d)
        out = os.path.join(sc, d + ".out")
        with open(out, "wb") as fh:
            rr = subprocess.run([exe, envs], stdout=fh, stderr=subprocess.PIPE, timeout=600)
        if rr.returncode != 0:
            raise vlib.InfraError("render binary %s failed: %s" % (d, rr.stderr.decode(errors="replace")[-2000:]))
        return out

    with ThreadPoolExecutor(max_workers=4) as ex:
        outs = list(ex.map(build, dirs))
    for name, msg in compile_failures:
        pr, v = byname[name]
        ck.violation("Compile.GeneratedCodeDoesNotCompile", "generated Go code does not compile: " + msg,
                     {"id": pr["id"], "variant": v, "prog": pr["prog"], "error": msg})
    p = vlib.run([binp, "compare", ppath] + outs, check=False, timeout=1800)
    summ = vlib.harness_results(ck, p)
    expected = sum(len(pr["den"]) for pr in chosen) * variants
    if summ["renders"] < expected - len(compile_failures) * 3:
        raise vlib.InfraError("only %d of %d expected renders were compared" % (summ["renders"], expected))
    ck.set("programs", len(chosen))
    ck.set("templates_compiled", s["templates"])
    ck.set("renders_compared", summ["renders"])
    ck.set("programs_by_family", counts)
    ck.set("programs_enumerated", len(progs))
    ck.set("disagreements_checked", summ["fails"] + summ["evalfails"] + len(compile_failures))
    ck.set("traces_validated_against_impl", summ["renders"])
    ck.assume("Denote's whitespace clause is a relation: must (adjacent inline siblings separated in the source), mustnot (adjacent nodes with no whitespace in the source), may (everything else, incl. across control-flow/component boundaries)")
    ck.assume("comparison at HTML token level via golang.org/x/net/html (byte-level escaping is C01's business); evaluation lists compared as multisets")
    ck.assume("language subset of TemplLang.tla: elements, void elements, all attribute kinds, text, string expressions, if/else-if/else, for, switch, calls with/without blocks, children slot, raw Go, comments, doctype, style/script raw elements; not css/script templates")
    ck.finish()


vlib.main(main)
