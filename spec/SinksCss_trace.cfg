\* C05 VAL: recorded real verdicts and outputs validated against the spec.
CONSTANTS
  Classes <- ClassesDef
  Contexts <- ContextsDef
  Alphabet <- FullAlphabet
  RegularExtra <- NoExtra
  AngleGuard = TRUE
  FontFix = FALSE
  BgFix = FALSE
  TrackAttribution = TRUE
  AttrEscapes = 2
  KvSafeProp = "unsupported"
  EmitEdges = FALSE
  CssTokens <- CssTokensDef
  MaxTok = 0
INIT TInit
NEXT TNext
VIEW TView
INVARIANTS TDone
CHECK_DEADLOCK FALSE
