\* templ fmt <dir>: defective design (in-place run does not write), must be rejected
CONSTANTS
  Files = {"a", "b", "c"}
  MaxRuns = 2
  RunRewrites = FALSE
INIT Init
NEXT Next
VIEW View
INVARIANTS TypeOK AfterOneRunFailAgrees RewrittenAtMostOnce OkMeansClean
PROPERTIES OnlyLooseFilesAreReplaced StdoutRunsWriteNothing
CHECK_DEADLOCK FALSE
