\* C05 case generation (GEN): values of up to MaxTok tokens per class, with the model's verdict in both contexts.
CONSTANTS
  Classes <- ClassesDef
  Contexts <- ContextsDef
  Alphabet <- FullAlphabet
  RegularExtra <- NoExtra
  AngleGuard = TRUE
  FontFix = FALSE
  BgFix = FALSE
  TrackAttribution = TRUE
  AttrEscapes = 2
  KvSafeProp = "unsupported"
  EmitEdges = FALSE
  CssTokens <- CssTokensDef
  MaxTok = 2
INIT CInit
NEXT CNext
VIEW CView
ACTION_CONSTRAINT CEmit
INVARIANTS PredictionsKnown
CHECK_DEADLOCK FALSE
