\* Attribute family: every attribute kind (constant incl. character references and both quote kinds, boolean, ?=, expression, spread, conditional with else).
CONSTANTS
  MaxNodes = 2
  MaxDepth = 3
  Kinds = {"text", "el", "void"}
  InlineNames = {"span"}
  BlockNames = {"div"}
  VoidNames = {"input"}
  AttrChoices <- AttrChoicesFull
  WsChoices = {"", "v"}
  Words = {"w1", "w3"}
  Exprs = {"E1"}
  Conds = {"C1", "C2"}
  Lists = {"L1"}
  EnvSeq <- EnvSeqDef
INIT Init
NEXT Next
VIEW View
INVARIANTS TypeOK MustOnlyBetweenInline DenotedDocumentsBalanced EmitProgram
CHECK_DEADLOCK FALSE
