\* Formatter layout model (FmtLayout.tla) over this family; code as it is (after the repairs).
\* Single-line / mixed elements containing comments, calls, slots, raw elements, Go code (C09 quantifier).
CONSTANTS
  NonTrailerRule = "source"
  ForcedBreaks = "asCoded"
  MaxNodes = 3
  MaxDepth = 3
  Kinds = {"text", "el", "slot", "hcomment", "gcomment", "mcomment", "gocodeml", "raw", "call", "gocode", "gocodei", "doctype"}
  InlineNames = {"span"}
  BlockNames = {"div"}
  VoidNames = {"br"}
  AttrChoices <- AttrChoicesNone
  WsChoices = {"", "h", "v"}
  Words = {"w1"}
  Exprs = {"E1"}
  Conds = {"C1", "C2"}
  Lists = {"L1"}
  EnvSeq <- EnvSeqOne
INIT Init
NEXT Next
VIEW View
INVARIANTS TypeOK Idempotent FmtKeepsTokens FmtKeepsMust EmitFmt
CHECK_DEADLOCK FALSE
