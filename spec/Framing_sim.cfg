\* C18 framing GEN: simulated behaviours (message sequence, variant, chunking, predicted outcome) for replay.
CONSTANTS
  Cap = 400
  Msgs <- CatalogueMsgs
  MaxMsgs = 2
  LenMode = "bytes"
  IdDecode = "strict"
  NullResult = "ok"
  Variants <- VariantsDef
  ChunkMax = 1
  AllCuts = FALSE
INIT Init
NEXT SimNext
INVARIANTS ReadIsPrefixOfSent Lossless MalformedGivesError NeverWaitsAfterEOF ChunkingIrrelevant IdsPreserved PayloadsPreserved PrintBehaviour
CHECK_DEADLOCK FALSE
