\* C03 negative: json without HTML escaping must be rejected
CONSTANTS
  StrVariant = "dollar"
  JsonVariant = "nohtml"
  HtmlVariant = "std"
  Positions <- PositionsDef
  EmitEdges = FALSE
INIT Init
NEXT Next
VIEW View

INVARIANTS TypeOK StaysInScript NoHtmlComment StaysInLiteral NoInterpolation DecodesToInput
CHECK_DEADLOCK FALSE
