\* C04 design check: templ.URL acceptor x EscapeString x HtmlTok(AttrDQ) x UrlScheme, all input lengths.
CONSTANTS
  AcceptMode = "coded"
  Pipeline = "html"
  EmitEdges = FALSE
INIT Init
NEXT Next
VIEW View
INVARIANTS TypeOK PassImpliesSafe ValueIntact
PROPERTIES FailIsFixed
CHECK_DEADLOCK FALSE
