\* C05 sanitisers as coded at the pin: TLC is EXPECTED to report OneDeclaration (known findings)
CONSTANTS
  Classes <- BgOnly
  Contexts <- ContextsDef
  Alphabet <- SmallAlphabet
  RegularExtra <- NoExtra
  AngleGuard = TRUE
  FontFix = FALSE
  BgFix = FALSE
  TrackAttribution = TRUE
  AttrEscapes = 2
  KvSafeProp = "unsupported"
  EmitEdges = FALSE
INIT Init
NEXT Next
VIEW View

INVARIANTS TypeOK OneDeclaration InnocuousOnReject
CHECK_DEADLOCK FALSE
