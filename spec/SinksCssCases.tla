---------------------------- MODULE SinksCssCases ----------------------------
(* C05 -- concrete cases (GEN) and validation of real outputs (VAL), in function form over STORED values.
   The acceptor is run as an NFA over the stored symbols (set of states), the consumer exactly as in Feed.  *)
EXTENDS SinksCss

CONSTANTS CssTokens,    \* class -> sequence of tokens (each a sequence of symbols): the class's CSS-adversarial alphabet
          MaxTok

VARIABLES inp, ckind

RECURSIVE AccRun(_, _, _)
AccRun(k, S, syms) == IF syms = <<>> THEN S
                      ELSE AccRun(k, UNION {AccNext(k, a, Head(syms)) : a \in S}, Tail(syms))
\* the (unique) accepting computation, if any
Accepting(k, syms) == LET S == {a \in AccRun(k, {AccInit(k)}, syms) : AccAccept(k, a) # ""} IN
                      IF S = {} THEN [found |-> FALSE] ELSE [found |-> TRUE, a |-> CHOOSE a \in S : TRUE]

RECURSIVE FlatSeq(_)
FlatSeq(ss) == IF ss = <<>> THEN <<>> ELSE Head(ss) \o FlatSeq(Tail(ss))
EscapeOnce(syms) == FlatSeq([i \in 1..Len(syms) |-> CssHtmlEsc(syms[i])])

\* consumer verdict on the text `css` the CSS parser receives (the REAL text in VAL, the predicted one in GEN)
RECURSIVE RawRun(_, _)
RawRun(q, cs) == IF cs = <<>> THEN q ELSE RawRun(CssRawStep(q, Head(cs)), Tail(cs))
\* rawattr: the raw text of the attribute value as written into the document (VAL: recorded; GEN: predicted from the
\* number of escaping levels); an unescaped '"' in it ends the attribute
ConsumerEvent(k, x, css) ==
    LET c == ConRun(k, CssInit, css)
        r == IF x = "style" THEN RawRun(<<>>, css) ELSE <<>>
    IN  IF c.ev # "" THEN c.ev
        ELSE IF r = <<"END">> THEN "EndStyle" ELSE CssEndEvent(c)
HasQuote(syms) == \E i \in 1..Len(syms) : syms[i] = CDQ
ContextEvent(k, x, css, rawattr) == IF x = "attr" /\ HasQuote(rawattr) THEN "EndAttr" ELSE ConsumerEvent(k, x, css)

\* model judgement of a value: accepted?, event on the text CSS would see, signature
JudgeValue(k, x, syms) ==
    LET ac == Accepting(k, syms)
        css == IF x = "attr" /\ AttrEscapes = 2 THEN EscapeOnce(syms) ELSE syms
        rawattr == IF x = "attr" /\ AttrEscapes = 0 THEN syms ELSE <<>>
        ev == IF ~ac.found THEN CssEndEvent(ConRun(k, CssInit, Innocuous)) ELSE ContextEvent(k, x, css, rawattr)
        ev1 == ConsumerEvent(k, "attr", syms)
        b == IF ac.found THEN AccAccept(k, ac.a) ELSE ""
        sig == IF ev = "" THEN "" ELSE IF b = "" THEN "InnocuousValueNotClean"
               ELSE IF ev = "EndAttr" THEN "StyleAttr.NotEscaped"
               ELSE IF x = "attr" /\ ev1 = "" THEN "StyleAttr.DoubleEscape"
               ELSE Attribute(k, ac.a, b)
    IN  [br |-> b, ev |-> ev, sig |-> sig]

-----------------------------------------------------------------------------
RECURSIVE FlatTok(_, _)
FlatTok(k, ts) == IF ts = <<>> THEN <<>> ELSE CssTokens[k][Head(ts)] \o FlatTok(k, Tail(ts))

CInit == /\ inp = <<>> /\ ckind \in Classes
         /\ cls = "Regular" /\ ctx = "style" /\ phase = "in" /\ acc = AccInit("Regular") /\ con = CssInit /\ con1 = CssInit
         /\ raw = <<>> /\ res = [br |-> "", ev |-> "", sig |-> ""] /\ lbl = [op |-> "init"]
CFeed(t) == /\ Len(inp) < MaxTok
            /\ inp' = Append(inp, t) /\ ckind' = ckind
            /\ LET syms == FlatTok(ckind, inp') IN
               lbl' = [op |-> "value", cls |-> ckind, syms |-> syms,
                       style |-> JudgeValue(ckind, "style", syms), attr |-> JudgeValue(ckind, "attr", syms)]
            /\ UNCHANGED vars
(* url() shapes for background-image: form x leading text x scheme x separator x tail. What a BROWSER makes of the
   url's text decides the scheme (CssTok!SchStep: leading C0-or-space stripped, TAB/LF/CR removed, letters up to ':'),
   independently of what net/url makes of it.                                                                    *)
UrlForms == << [open |-> <<"u","r","l","(">>, close |-> <<")">>], [open |-> <<"u","r","l","(",CDQ>>, close |-> <<CDQ,")">>],
               [open |-> <<"u","r","l","(","'">>, close |-> <<"'",")">>] >>
UrlLeads == << <<>>, <<"SP">>, <<"SP","SP">>, <<"TAB">>, <<"CTL">>, <<"LF">>, <<"/">>, <<"UWS">> >>
UrlSchemes == << <<>>, <<"h","t","t","p">>, <<"h","t","t","p","s">>, <<"m","a","i","l","t","o">>, <<"h","t","S","p">>,
                 <<"z","a","z","a">>, <<"Z","a","Z","a">>, <<"z","TAB","a">>, <<"h","t","t","p","z">> >>
UrlSeps == << <<":">>, <<":","/","/">>, <<":","/">> >>
UrlTails == << <<"a">>, <<"PCT">>, <<"a","PCT","0","0">>, <<"a","SP">>, <<"a","CTL">>, <<"a","(","0",")">>, <<"a","?","z",":">> >>
CUrlShape(f, l, sc, sp, t) ==
    /\ ckind = "BackgroundImage" /\ inp = <<>>
    /\ inp' = <<f, l, sc, sp, t>> /\ ckind' = "UrlShape"
    /\ LET body == UrlLeads[l] \o UrlSchemes[sc] \o (IF UrlSchemes[sc] = <<>> THEN <<>> ELSE UrlSeps[sp]) \o UrlTails[t]
           syms == UrlForms[f].open \o body \o UrlForms[f].close
       IN lbl' = [op |-> "value", cls |-> "BackgroundImage", syms |-> syms,
                  style |-> JudgeValue("BackgroundImage", "style", syms), attr |-> JudgeValue("BackgroundImage", "attr", syms)]
    /\ UNCHANGED vars
(* argument forms x wrappers x hostile property names: the name travels with a typed (trusted) or plain value "red" *)
CArgForm(f, w, t) ==
    /\ ckind \in {"Name", "ArgForm"} /\ (ckind = "Name" => inp = <<>>)
    /\ Len(inp) < MaxTok + 2
    /\ inp' = IF ckind = "Name" THEN <<f, w, t>> ELSE Append(inp, t)
    /\ (ckind = "ArgForm" => inp[1] = f /\ inp[2] = w)
    /\ ckind' = "ArgForm"
    /\ LET syms == FlatTok("Name", SubSeq(inp', 3, Len(inp')))
           ac == Accepting("Name", syms)
           treat == StyleArgForms[f].name
       IN lbl' = [op |-> "argform", form |-> StyleArgForms[f].form, wrap |-> StyleArgWrappers[w], syms |-> syms,
                  treat |-> treat,
                  out |-> IF treat = "unsupported" THEN "unsupported" ELSE IF treat = "raw" \/ ac.found THEN "name" ELSE "innocuous",
                  ev |-> IF treat = "raw" \/ (treat = "sanitised" /\ ac.found) THEN ConsumerEvent("Name", "attr", syms) ELSE ""]
    /\ UNCHANGED vars
CNext == \/ \E f \in 1..Len(StyleArgForms), w \in 1..Len(StyleArgWrappers), t \in 1..Len(CssTokens["Name"]) : CArgForm(f, w, t)
         \/ (ckind \in AllClasses /\ \E t \in 1..Len(CssTokens[ckind]) : CFeed(t))
         \/ \E f \in 1..Len(UrlForms), l \in 1..Len(UrlLeads), sc \in 1..Len(UrlSchemes), sp \in 1..Len(UrlSeps), t \in 1..Len(UrlTails) :
                CUrlShape(f, l, sc, sp, t)
CView == <<inp, ckind>>
CEmit == PrintT(<<"CASE", ToJson(lbl')>>)
PredictionsKnown == (lbl.op = "argform" => lbl.ev = "") /\ (lbl.op = "value") => lbl.style.sig \in KnownSigs \cup {"", "StyleAttr.NotEscaped"} /\ lbl.attr.sig \in KnownSigs \cup {"", "StyleAttr.NotEscaped"}
=============================================================================
