------------------------------ MODULE MCFmtCmd ------------------------------
(* FmtCmd for TLC: emission of every transition for the replay harness (harness/fmtcmd). Kept apart from FmtCmd.tla
   so that the latter stays in the fragment Apalache types (no Json, no TLC). *)
EXTENDS FmtCmd, TLC, Json

EmitEdge == PrintT(<<"EDGE", ToJson(last')>>)      \* ACTION_CONSTRAINT: evaluated on every transition TLC generates
=============================================================================
