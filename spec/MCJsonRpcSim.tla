---------------------------- MODULE MCJsonRpcSim ----------------------------
(* Simulation instance of JsonRpc: whole behaviours (the labels of the actions taken) are printed when the
   system is settled, and replayed against the real conn -- the harness is the environment (callers'
   contexts, the peer) and steers the real goroutines through the hook points.  The id vocabularies of the
   peer (StrayIdSeq, PeerCallIdSeq: typed ids) are printed with every behaviour: a "stray" / "pcall" label
   names its id by index, and the harness puts exactly that id, with that JSON type, on the wire.        *)
EXTENDS JsonRpc
VARIABLES hist, cbudget, sbudget
\* Cancel is enabled almost everywhere, so a uniform random walk would cancel every call early; each
\* behaviour draws the number of cancellations (0..NC) and stray responses (0..MaxStray) it may use with its
\* initial state.
SimInit == Init /\ hist = <<>> /\ cbudget \in 0..NC /\ sbudget \in 0..MaxStray
SimNext == \E l \in Labels : /\ Do(l)
                             /\ hist' = Append(hist, l)
                             /\ IF l.a = "cancel" THEN cbudget > 0 /\ cbudget' = cbudget - 1 ELSE cbudget' = cbudget
                             /\ IF l.a = "stray" THEN sbudget > 0 /\ sbudget' = sbudget - 1 ELSE sbudget' = sbudget
\* nothing is in progress: every call has returned or waits for a response the peer has not sent
Settled == /\ \A c \in Callers : pc[c] = "done" \/ (pc[c] = "wait" /\ c \notin replied /\ ~cancelled[c])
           /\ \A n \in Notifiers : pc[n] = "done"
           /\ rd.pc = "read" /\ inq = <<>> /\ mu = None
ResultSeq == [c \in Callers |-> result[c]]
PrintHist == Settled => PrintT(<<"HIST", ToJson([hist |-> hist, result |-> ResultSeq, nc |-> NC, nn |-> NN,
                                                  strayIds |-> StrayIdSeq, pcallIds |-> PeerCallIdSeq])>>)
=============================================================================
