// c01 binds spec/SinksHtml.tla (C01: interpolated strings never change HTML structure) to the real code.
//
//	c01 table   <chars.json> <esc.json>
//	    per-symbol table conformance of the real templ.EscapeString over ALL Unicode scalar values and
//	    all invalid bytes (alone and between neighbours) against the table TLC exported from the spec.
//	c01 gallery <chars.json> <esc.json> <edges.ndjson> <seed> <quick|thorough> <outdir> <shards>
//	    builds the test strings from the TLC edge dump (transition cover of the product automaton +
//	    exhaustive short strings + class members + seeded random long strings), renders every sink of
//	    the generated gallery with each, checks the real output with the second key (x/net/html) and
//	    writes trace shards (sink, input symbols, output symbols) for TraceSinksHtml.tla (first key).
package main

import (
	"bufio"
	"bytes"
	"encoding/json"
	"fmt"
	"math/rand"
	"os"
	"path/filepath"
	"strconv"
	"strings"
	"sync"
	"unicode/utf8"

	"github.com/a-h/templ"

	. "verifharness/c01/sinklib"
	"verifharness/vhlib"
)

func main() {
	if len(os.Args) < 2 {
		vhlib.Fatal("usage: c01 table|gallery ...")
	}
	switch os.Args[1] {
	case "table":
		table(os.Args[2:])
	case "gallery":
		gallery(os.Args[2:])
	case "tokconf":
		tokconf(os.Args[2:])
	case "wiring":
		wiring(os.Args[2:])
	default:
		vhlib.Fatal("unknown mode %s", os.Args[1])
	}
}

func mustTables(chars, esc string) (*Table, EscTable) {
	t, err := LoadTable(chars)
	if err != nil {
		vhlib.Fatal("char table: %v", err)
	}
	e, err := LoadEsc(esc)
	if err != nil {
		vhlib.Fatal("esc table: %v", err)
	}
	if len(e) != len(t.Classes)+128 {
		vhlib.Fatal("escaper table has %d rows, the partition %d symbols", len(e), len(t.Classes)+128)
	}
	return t, e
}

// ---------------------------------------------------------------------------------------------------
// table conformance

type tableDiff struct {
	Sym  int    `json:"sym"`
	Name string `json:"name"`
	In   string `json:"in"`   // quoted
	Got  string `json:"got"`  // quoted
	Want string `json:"want"` // quoted
	Out  []int  `json:"out"`  // observed replacement as symbols (for the model re-check)
	Ctx  string `json:"ctx"`  // "alone" or the neighbours
}

func table(args []string) {
	t, e := mustTables(args[0], args[1])
	n, diffs := 0, 0
	perSym := map[int]int{}
	neighbours := [][2]string{{"", ""}, {"a", "b"}, {"<", "&"}, {"\"", "'"}, {"\xff", "\xe2"}}
	check := func(sym int, s string) {
		for _, nb := range neighbours {
			n++
			in := nb[0] + s + nb[1]
			got := templ.EscapeString(in)
			want := e.Predict(t, nb[0]) + e.Predict(t, s) + e.Predict(t, nb[1])
			if got != want {
				diffs++
				perSym[sym]++
				if perSym[sym] <= 3 {
					// the observed replacement of s alone, as symbols
					obs := t.Syms(templ.EscapeString(s))
					vhlib.Emit(map[string]any{"kind": "tablediff", "diff": tableDiff{Sym: sym, Name: t.Name(sym), In: strconv.Quote(in),
						Got: strconv.Quote(got), Want: strconv.Quote(want), Out: obs, Ctx: strconv.Quote(nb[0] + "_" + nb[1])}})
				}
			}
		}
	}
	classCount := map[int]int{}
	for r := rune(0); r <= 0x10FFFF; r++ {
		if r >= 0xD800 && r <= 0xDFFF {
			continue
		}
		sym := t.SymOfRune(r)
		if sym < 0 {
			vhlib.Fatal("scalar %U is in no class of the exported partition", r)
		}
		classCount[sym]++
		check(sym, string(r))
	}
	// invalid bytes: every byte that cannot stand alone, truncated sequences, encoded surrogates, overlongs
	bad := []string{}
	for b := 0x80; b <= 0xFF; b++ {
		bad = append(bad, string([]byte{byte(b)}))
	}
	bad = append(bad, "\xe2\x82", "\xf0\x9f\x98", "\xed\xa0\x80", "\xed\xbf\xbf", "\xc0\xaf", "\xe0\x80\xaf", "\xf4\x90\x80\x80", "\xc2", "\xc2<", "\xe2\x82<")
	for _, s := range bad {
		classCount[t.BadByte]++
		check(t.BadByte, s)
	}
	vhlib.Summary(map[string]any{"evaluations": n, "scalars": 0x110000 - 0x800, "invalid_sequences": len(bad), "diffs": diffs,
		"symbols_with_diffs": len(perSym), "members_per_class": classCount})
}

// ---------------------------------------------------------------------------------------------------
// test strings from the TLC edge dump

type edge struct {
	Ctx   string `json:"ctx"`
	P     bool   `json:"p"`
	Phase string `json:"phase"`
	Lbl   struct {
		Op  string `json:"op"`
		Sym int    `json:"sym"`
		Esc []int  `json:"esc"`
		Obs string `json:"obs"`
	} `json:"lbl"`
	ToP     bool   `json:"top"`
	ToPhase string `json:"tophase"`
	OK      bool   `json:"ok"`
}

type tstr struct {
	s string
	// lvl decides which cases are ALSO validated by TLC (every case is checked by the second key):
	// 0 every sink; 1 representative sinks; 2 representative sinks in the thorough tier only
	lvl int
	src string
}

type node struct {
	p     bool
	phase string
}

// cover builds, per context, witness + symbol + suffix strings (the W-method shape) from the edge dump.
func cover(edges []edge, t *Table, suffixAlphabet []int) (full, one, core map[string][][]int, states int) {
	adj := map[string]map[node][]edge{}
	for _, e := range edges {
		if adj[e.Ctx] == nil {
			adj[e.Ctx] = map[node][]edge{}
		}
		n := node{e.P, e.Phase}
		adj[e.Ctx][n] = append(adj[e.Ctx][n], e)
	}
	var suffixes [][]int
	suffixes = append(suffixes, nil)
	for _, a := range suffixAlphabet {
		suffixes = append(suffixes, []int{a})
	}
	for _, a := range suffixAlphabet {
		for _, b := range suffixAlphabet {
			suffixes = append(suffixes, []int{a, b})
		}
	}
	full, one, core = map[string][][]int{}, map[string][][]int{}, map[string][][]int{}
	for ctx, g := range adj {
		start := node{false, "feed"}
		wit := map[node][]int{start: {}}
		queue := []node{start}
		for len(queue) > 0 {
			n := queue[0]
			queue = queue[1:]
			for _, e := range g[n] {
				m := node{e.ToP, e.ToPhase}
				if _, seen := wit[m]; !seen && e.Lbl.Op == "feed" {
					wit[m] = append(append([]int{}, wit[n]...), e.Lbl.Sym)
					queue = append(queue, m)
				}
			}
		}
		for n, w := range wit {
			if n.phase != "feed" {
				continue
			}
			states++
			for _, e := range g[n] {
				if e.Lbl.Op != "feed" {
					continue
				}
				base := append(append([]int{}, w...), e.Lbl.Sym)
				core[ctx] = append(core[ctx], base)
				for _, sf := range suffixes[1:] {
					w := append(append([]int{}, base...), sf...)
					if len(sf) == 1 {
						one[ctx] = append(one[ctx], w)
					} else {
						full[ctx] = append(full[ctx], w)
					}
				}
			}
		}
	}
	return full, one, core, states
}

func exhaustive(alpha []string, maxLen int, fn func(string, int)) {
	var rec func(prefix string, l int)
	rec = func(prefix string, l int) {
		fn(prefix, l)
		if l == maxLen {
			return
		}
		for _, a := range alpha {
			rec(prefix+a, l+1)
		}
	}
	rec("", 0)
}

var htmlAdversarial = []string{"<", ">", "&", "\"", "'", "/", ";", "#", "a", " "}

func randomLong(rng *rand.Rand, t *Table) string {
	n := 20 + rng.Intn(180)
	var b []byte
	adv := []string{"<", ">", "&", "\"", "'", "/", "=", ";", "#", "x", "3", "9", "-", "!", "\r", "\n", "\x00", "\t", "`", " ", "</p>", "</textarea>", "</xmp>",
		"&amp;", "&lt", "&#", "&#x", "<!--", "-->", "<script>", "</script>", "\" onmouseover=\"", "' x='", "\\", "\f", "]]>", "<![CDATA[", "&quot", "&apos;"}
	for i := 0; i < n; i++ {
		switch k := rng.Intn(10); {
		case k < 5:
			b = append(b, adv[rng.Intn(len(adv))]...)
		case k < 7:
			b = append(b, byte(rng.Intn(128)))
		case k < 8:
			c := t.Classes[rng.Intn(len(t.Classes))]
			ms := t.Members(c.Sym, rng, 1)
			b = append(b, ms[rng.Intn(len(ms))]...)
		case k < 9:
			b = utf8.AppendRune(b, rune(0x80+rng.Intn(0x2000)))
		default:
			b = append(b, byte(0x80+rng.Intn(0x80)))
		}
	}
	return string(b)
}

// ---------------------------------------------------------------------------------------------------
// tokconf: seeded random adversarial documents tokenised by x/net/html, for TraceHtmlTok.tla
//
//	c01 tokconf <chars.json> <seed> <n> <outdir> <shards>

var docPieces = []string{
	"a", " ", "x y", "&amp;", "&lt", "&lt;", "&#39;", "&#x41;", "&#65", "&notit;", "&notin;", "&copy=", "&copy", "&", "&#", "&#x", "&#;", "&#xZ", "&unknown;", "&ampx",
	"x<3", "<", ">", "\"", "'", "=", "/", "\r\n", "\r", "\n", "\t", "\f", "\u00e9", "\u2028", "\u017f", "&#128;", "&#x80;", "&#0;", "&#xD800;", "&#x110000;", "&#1114112;",
	"<p>", "</p>", "<a href=\"x&amp;y\">", "<a href='q\"q'>", "<a href=u&lt=1 b>", "<a href=u&lt;=1 b>", "<br/>", "<div a b=c d = 'e'>", "<P CLASS=X>", "</a >", "<a/b>",
	"<a b=c/>", "< p>", "</>", "</ p>", "<?php x?>", "<!x>", "<!-->", "<!--x-->", "<!-- a -- b -->", "<!--<!--x-->", "<!--x--!>", "<!---->", "<!--->", "<!--x--", "<!-",
	"<!DOCTYPE html>", "<!doctype html \"a>b\">", "<![CDATA[x]]>", "<a b='c' b=\"d\">", "<a =b>", "<a b==c>", "<a \"b\"=c>", "<a b=&quot;c&quot;>", "<a b=\"&notit=\" c=&notit; d=&not>",
	"<a b=\"&#39;&#34;\">", "<input value=\"a\"\"b\">", "<a b=c'd>", "<a b=`c`>", "<a\tb\n=\r\nc>", "<a//b>", "<a b= >", "<a b=>x",
	"<textarea>a&lt;</p><b></textarea>", "<title>x</titlex></title >", "<title>&amp</TITLE>", "<xmp>&amp;<b></xmp>", "<style>p{}</styl></style>", "<script>a<b</script>",
	"<script><!--<script></script>--></script>", "<script><!--x--></script>", "<script>'</scr'+'ipt>'</script>", "<script><!--<script>x</script>y</script>--></script>",
	"<script><!-- </script>", "<script>--></script>", "<script><!---></script>", "<script><!--<scriptx></script>", "<noscript><p></noscript>", "<iframe>&lt;</iframe>",
	"<noembed><</noembed>", "<noframes></noframe></noframes>", "<textarea></textarea/>", "<textarea></textarea x=y>", "<xmp></xmp\t>", "<style></style/x>", "<TEXTAREA>x</TeXtArEa>",
	"<script/>x</script>", "<svg><title>x</title></svg>", "<a-b c-d=e>", "<a1>", "<1a>", "<a.b>",
}

func tokconf(args []string) {
	t, err := LoadTable(args[0])
	if err != nil {
		vhlib.Fatal("%v", err)
	}
	seed, _ := strconv.ParseInt(args[1], 10, 64)
	n, _ := strconv.Atoi(args[2])
	outdir := args[3]
	nshards, _ := strconv.Atoi(args[4])
	rng := rand.New(rand.NewSource(seed))
	ws := make([]*bufio.Writer, nshards)
	for i := range ws {
		f, err := os.Create(filepath.Join(outdir, fmt.Sprintf("tok-%d.ndjson", i)))
		if err != nil {
			vhlib.Fatal("%v", err)
		}
		defer f.Close()
		ws[i] = bufio.NewWriterSize(f, 1<<20)
	}
	adv := "<>&\"'/=;#!-? \tax"
	// closes whatever the random part left open, so that both tokenizers end in the data state
	const closer = "-->\"'></script></textarea></title></xmp></style></noscript></iframe></noembed></noframes><z>"
	type line struct {
		ID  int         `json:"id"`
		Doc []int       `json:"doc"`
		Evs []SpecEvent `json:"evs"`
	}
	idx, _ := os.Create(filepath.Join(outdir, "tok-docs.ndjson"))
	defer idx.Close()
	iw := bufio.NewWriter(idx)
	for i := 0; i < n; i++ {
		var sb strings.Builder
		for k := 1 + rng.Intn(8); k > 0; k-- {
			if rng.Intn(4) == 0 {
				sb.WriteByte(adv[rng.Intn(len(adv))])
			} else {
				sb.WriteString(docPieces[rng.Intn(len(docPieces))])
			}
		}
		sb.WriteString(closer)
		doc := sb.String()
		if strings.Contains(doc, "&#x;") || strings.Contains(doc, "&#X;") {
			// known x/net/html deviation: "&#x;" (no digits) is decoded to U+FFFD there, the standard flushes it as text
			i--
			continue
		}
		evs := t.Events(doc)
		if evs == nil {
			evs = []SpecEvent{}
		}
		b, _ := json.Marshal(line{i, t.Syms(doc), evs})
		ws[i%nshards].Write(b)
		ws[i%nshards].WriteByte('\n')
		fmt.Fprintf(iw, "%d\t%s\n", i, strconv.Quote(doc))
	}
	for _, w := range ws {
		w.Flush()
	}
	iw.Flush()
	vhlib.Summary(map[string]any{"docs": n, "pieces": len(docPieces)})
}

// ---------------------------------------------------------------------------------------------------
// gallery

type traceLine struct {
	ID   int   `json:"id"`
	Sink int   `json:"sink"`
	In   []int `json:"in"`
	Out  []int `json:"out"`
}

type goFail struct {
	ID   int    `json:"id"`
	Sink string `json:"sink"`
	Ctx  string `json:"ctx"`
	Kind string `json:"sinkkind"`
	Why  string `json:"why"`
	Desc string `json:"desc"`
	In   string `json:"in"`
	Eff  string `json:"interpolated"`
	Out  string `json:"out"`
	Sent bool   `json:"sent"` // also written to the trace for confirmation by the first key
}

const idStride = 10_000_000
const confirmCap = 40

func render(sk *Sink, s string) (string, error) {
	c, ctx := sk.Render(s)
	var buf bytes.Buffer
	err := c.Render(ctx, &buf)
	return buf.String(), err
}

func gallery(args []string) {
	t, e := mustTables(args[0], args[1])
	var edges []edge
	if err := vhlib.Each(args[2], func(line []byte) error {
		var x edge
		if err := json.Unmarshal(line, &x); err != nil {
			return err
		}
		edges = append(edges, x)
		return nil
	}); err != nil {
		vhlib.Fatal("%v", err)
	}
	seed, _ := strconv.ParseInt(args[3], 10, 64)
	thorough := args[4] == "thorough"
	outdir := args[5]
	nshards, _ := strconv.Atoi(args[6])
	rng := rand.New(rand.NewSource(seed))

	// suffix alphabet of the transition cover
	sa := "<>&\"';#a/=\r\x00"
	exLen, nRandom := 4, 300
	if thorough {
		sa = "<>&\"';#a/=\r\x00\n x39-!`\t\\"
		exLen, nRandom = 5, 3000
	}
	var suffixAlphabet []int
	for i := 0; i < len(sa); i++ {
		suffixAlphabet = append(suffixAlphabet, int(sa[i]))
	}
	suffixAlphabet = append(suffixAlphabet, t.BadByte)
	full, one, core, states := cover(edges, t, suffixAlphabet)

	// per context: the strings
	sets := map[string][]tstr{}
	var common []tstr
	exhaustive(htmlAdversarial, exLen, func(s string, l int) {
		lvl := 2
		if l <= 2 {
			lvl = 0
		} else if l <= 3 {
			lvl = 1
		}
		common = append(common, tstr{s, lvl, "exhaustive"})
	})
	for _, c := range t.Classes {
		for _, m := range t.Members(c.Sym, rng, 4) {
			common = append(common, tstr{m, 0, "member"}, tstr{"<" + m + ">", 0, "member"}, tstr{m + "\"" + m + "&", 0, "member"})
		}
	}
	for i := 0; i < nRandom; i++ {
		lvl := 1
		if i < 20 {
			lvl = 0
		}
		common = append(common, tstr{randomLong(rng, t), lvl, "random"})
	}
	for ctx := range full {
		var l []tstr
		for _, w := range core[ctx] {
			l = append(l, tstr{t.Concrete(w), 0, "cover"})
		}
		for _, w := range one[ctx] {
			l = append(l, tstr{t.Concrete(w), 1, "cover"})
		}
		for _, w := range full[ctx] {
			l = append(l, tstr{t.Concrete(w), 2, "cover"})
		}
		l = append(l, common...)
		// de-duplicate, keeping the lowest level (the widest validation) of a string
		idx := map[string]int{}
		var u []tstr
		for _, x := range l {
			if k, ok := idx[x.s]; ok {
				if x.lvl < u[k].lvl {
					u[k].lvl = x.lvl
				}
				continue
			}
			idx[x.s] = len(u)
			u = append(u, x)
		}
		sets[ctx] = u
	}

	// sinks and their patterns
	ss := sinks()
	type patReg struct {
		ID  string      `json:"id"`
		Pat []SpecEvent `json:"pat"`
	}
	var pats []patReg
	patIdx := map[string]int{}
	regPat := func(sk *Sink, v string) int {
		p := sk.Pat(v)
		sp := SpecPattern(p)
		kb, _ := json.Marshal(sp)
		k := string(kb)
		if i, ok := patIdx[k]; ok {
			return i
		}
		pats = append(pats, patReg{sk.ID, sp})
		patIdx[k] = len(pats)
		return len(pats)
	}
	type sinkPats struct{ empty, nonEmpty int }
	sp := make([]sinkPats, len(ss))
	for i := range ss {
		if _, ok := sets[ss[i].Ctx]; !ok {
			vhlib.Fatal("sink %s uses context %s which the model did not explore", ss[i].ID, ss[i].Ctx)
		}
		sp[i] = sinkPats{regPat(&ss[i], ""), regPat(&ss[i], "x")}
	}
	pb, _ := json.Marshal(pats)
	if err := os.WriteFile(filepath.Join(outdir, "sinks.json"), pb, 0o644); err != nil {
		vhlib.Fatal("%v", err)
	}

	// writers
	shardW := make([]*bufio.Writer, nshards)
	shardN := make([]int, nshards)
	for i := range shardW {
		f, err := os.Create(filepath.Join(outdir, fmt.Sprintf("trace-%d.ndjson", i)))
		if err != nil {
			vhlib.Fatal("%v", err)
		}
		defer f.Close()
		shardW[i] = bufio.NewWriterSize(f, 1<<20)
	}
	var wmu sync.Mutex
	next := 0
	writeTrace := func(tl traceLine) {
		b, _ := json.Marshal(tl)
		wmu.Lock()
		k := next % nshards
		next++
		shardW[k].Write(b)
		shardW[k].WriteByte('\n')
		shardN[k]++
		wmu.Unlock()
	}

	var (
		mu                                                sync.Mutex
		renders, goFails, goListed, drift, tlcCases, errs int
		perSink                                           = map[string]int{}
		perSrc                                            = map[string]int{}
		samples                                           int
	)
	var wg sync.WaitGroup
	sem := make(chan struct{}, 16)
	for si := range ss {
		wg.Add(1)
		sem <- struct{}{}
		go func(si int) {
			defer wg.Done()
			defer func() { <-sem }()
			sk := &ss[si]
			// static prefix/suffix of this sink, for the model's byte prediction (drift detection only)
			var pre, suf string
			havePS := false
			if mo, err := render(sk, "Q7Q"); err == nil {
				m := sk.Eff("Q7Q")
				if strings.Count(mo, m) == 1 && m != "" && strings.Contains(fmt.Sprint(sk.Pat("Q7Q")), "$V") {
					k := strings.Index(mo, m)
					pre, suf, havePS = mo[:k], mo[k+len(m):], true
				}
			}
			lr, lf, ld, lt, le, ll := 0, 0, 0, 0, 0, 0
			for xi, ts := range sets[sk.Ctx] {
				if sk.Fixed {
					if xi > 0 {
						break
					}
					ts.lvl = 0
				}
				if sk.Thin && ts.lvl == 2 && !thorough {
					continue // the many key-class sinks see the two-symbol suffixes in the thorough tier only
				}
				out, err := render(sk, ts.s)
				lr++
				if err != nil {
					le++
					continue
				}
				v := sk.Eff(ts.s)
				p := sk.Pat(v)
				why, desc := MatchGo(out, p, v)
				idn := (si+1)*idStride + xi
				send := ts.lvl == 0 || (sk.Rep && (ts.lvl == 1 || thorough))
				if sk.Thin && send && xi%4 != 0 {
					send = false
				}
				if why != "" {
					lf++
					// every rejected case that is in the trace set anyway, plus the first confirmCap others per sink,
					// goes to TLC for confirmation by the first key
					if !send && lf <= confirmCap {
						send = true
					}
					if send || lf <= 4*confirmCap {
						vhlib.Emit(map[string]any{"kind": "gofail", "f": goFail{ID: idn, Sink: sk.ID, Ctx: sk.Ctx, Kind: sk.Kind, Why: why, Desc: desc,
							In: strconv.Quote(ts.s), Eff: strconv.Quote(v), Out: strconv.Quote(out), Sent: send}})
						ll++
					}
				} else if havePS && v != "" && out != pre+e.Predict(t, v)+suf {
					ld++
					if ld <= 2 {
						vhlib.Drift("real output differs from the model's byte prediction although the property holds on it",
							map[string]string{"sink": sk.ID, "in": strconv.Quote(ts.s), "out": strconv.Quote(out), "predicted": strconv.Quote(pre + e.Predict(t, v) + suf)})
					}
				}
				if send {
					pi := sp[si].nonEmpty
					if v == "" {
						pi = sp[si].empty
					}
					writeTrace(traceLine{ID: idn, Sink: pi, In: t.Syms(v), Out: t.Syms(out)})
					lt++
				}
				if ts.src == "exhaustive" && len(ts.s) >= 3 && (xi+si*131)%1777 == 3 {
					mu.Lock()
					if samples < 5 {
						samples++
						vhlib.Sample(map[string]string{"sink": sk.ID, "in": strconv.Quote(ts.s), "out": strconv.Quote(out)})
					}
					mu.Unlock()
				}
			}
			mu.Lock()
			renders += lr
			goFails += lf
			goListed += ll
			drift += ld
			tlcCases += lt
			errs += le
			perSink[sk.ID] = lr
			mu.Unlock()
		}(si)
	}
	wg.Wait()
	// literal-valued expression forms generated at check time: one component per (form, value)
	fcs := forms()
	formCount := map[string]int{}
	textPat := []PTok{Start("p"), Text("$V"), End("p")}
	attrPat := []PTok{Start("p", "title", "$V"), Text("x"), End("p")}
	regForm := func(p []PTok) int {
		kb, _ := json.Marshal(SpecPattern(p))
		i, ok := patIdx[string(kb)]
		if !ok {
			vhlib.Fatal("pattern of the expression forms is not registered")
		}
		return i
	}
	textIdx, attrIdx := regForm(textPat), regForm(attrPat)
	for fi, fc := range fcs {
		var buf bytes.Buffer
		if err := fc.C.Render(bg, &buf); err != nil {
			vhlib.Fatal("render error in expression form %s: %v", fc.Form, err)
		}
		out := buf.String()
		renders++
		formCount[fc.Form]++
		pat, pi, ctxName := textPat, textIdx, "TextInData"
		if fc.Attr {
			pat, pi, ctxName = attrPat, attrIdx, "AttrDQ"
		}
		idn := (len(ss)+1)*idStride + fi
		if why, desc := MatchGo(out, pat, fc.S); why != "" {
			goFails++
			goListed++
			vhlib.Emit(map[string]any{"kind": "gofail", "f": goFail{ID: idn, Sink: "form-" + fc.Form, Ctx: ctxName, Kind: "form-" + fc.Form, Why: why, Desc: desc,
				In: strconv.Quote(fc.S), Eff: strconv.Quote(fc.S), Out: strconv.Quote(out), Sent: true}})
		}
		writeTrace(traceLine{ID: idn, Sink: pi, In: t.Syms(fc.S), Out: t.Syms(out)})
		tlcCases++
	}
	for i := range shardW {
		shardW[i].Flush()
	}
	for _, l := range sets {
		for _, ts := range l {
			perSrc[ts.src]++
		}
		break
	}
	if errs > 0 {
		vhlib.Fatal("%d renders returned an error", errs)
	}
	ctxs := map[string]int{}
	for c, l := range sets {
		ctxs[c] = len(l)
	}
	vhlib.Summary(map[string]any{"sinks": len(ss), "renders": renders, "go_fails": goFails, "go_fails_listed": goListed, "drift": drift, "tlc_cases": tlcCases,
		"shard_lines": shardN, "strings_per_context": ctxs, "strings_by_source": perSrc, "product_states_covered": states,
		"patterns": len(pats), "edges": len(edges), "expression_forms": formCount})
}
