\* C03 case generation (GEN): strings of up to MaxTok tokens and structured values, with per-position predictions.
CONSTANTS
  StrVariant = "dollar"
  JsonVariant = "std"
  HtmlVariant = "std"
  Positions <- PositionsDef
  EmitEdges = FALSE
  GenTokens <- GenTokensDef
  LeafTokens <- LeafTokensDef
  KeyTokens <- KeyTokensDef
  UnencMode = "empty"
  MaxTok = 2
INIT CInit
NEXT CNext
VIEW CView
ACTION_CONSTRAINT CEmit
INVARIANTS PredictionsClean
CHECK_DEADLOCK FALSE
