\* C19 negative config, liveness twin of Sse_serial.cfg: with c1 stalled for ever c2 never gets the broadcast: TLC must reject DeliveredDespiteStalledClient.
CONSTANTS
  Clients = {"c1", "c2"}
  NB = 2
  Design = "serial"
  MaxPings = 0
  PingFirst = FALSE
  NoRaces = FALSE
  ServerCuts = FALSE
  Slow = {"c1"}
  EmitEdges = FALSE
SPECIFICATION Spec
VIEW View
INVARIANTS TypeOK
PROPERTIES DeliveredDespiteStalledClient
CHECK_DEADLOCK FALSE
