---------------------------- MODULE TraceJsonRpc ----------------------------
(* Trace validation for C18 (conn half): executions of the REAL lsp/jsonrpc2 conn, recorded by the
   verif hooks (reg / wbeg / wend / disp / del, ordered by the global sequence counter taken inside the
   protecting lock) and by the harness, which is the environment (start, cancel, reply, pnotify, pcall,
   ret), must be behaviours of JsonRpc.  One line of c18trace.ndjson = one case:

     {"id": n, "ev": [ {"e": kind, "w": who, "found": bool, "failed": bool, "pend": [ids], "res": r}, ... ]}

   who: caller 1..NC (real ids are mapped to the caller that registered them), notifier 11.., run loop 0.
   Every event is matched with the spec action of the same critical section and its logged fields are
   compared with the model's state; the steps without a hook (header/body bytes, take, send, the select)
   are interleaved as silent steps.  A case is accepted when some interleaving consumes all its events
   (ACCEPT line); a case without an ACCEPT line is behaviour of the real code that the spec forbids.  *)
EXTENDS JsonRpc

Trace == ndJsonDeserialize("c18trace.ndjson")

VARIABLES case, i
tvars == <<case, i>>

SetOf(s) == {s[k] : k \in 1..Len(s)}
Ev == Trace[case].ev

SilentActs == {"whdr", "wbody", "refuse", "recv", "cancelled", "take", "send"}
Silent == \E l \in {x \in Labels : x.a \in SilentActs} : Do(l)

EventStep(e) ==
    CASE e.e = "reg"    -> Do(Lab("reg", e.w)) /\ pending' = SetOf(e.pend)
      [] e.e = "wbeg"   -> Do(Lab("acq", e.w))
      [] e.e = "wend"   -> Do(Lab("rel", e.w)) /\ e.failed = (e.w \in Callers /\ werr[e.w])
      [] e.e = "disp"   -> Do(Lab("lookup", e.w)) /\ e.found = (e.w \in pending) /\ pending = SetOf(e.pend)
      [] e.e = "del"    -> Do(Lab("del", e.w)) /\ pending' = SetOf(e.pend)
      [] e.e = "cancel" -> IF pc[e.w] = "done" \/ cancelled[e.w] THEN UNCHANGED vars ELSE Do(Lab("cancel", e.w))
      [] e.e = "reply"  -> Do(Lab("reply", e.w))
      [] e.e = "pnotify" -> Do(Lab("pnotify", 0))
      [] e.e = "pcall"  -> Do(Lab("pcall", 0))
      [] e.e = "ret"    -> pc[e.w] = "done" /\ result[e.w] = e.res /\ UNCHANGED vars
      [] OTHER          -> FALSE

TraceInit == Init /\ case \in 1..Len(Trace) /\ i = 1
TraceNext == \/ i <= Len(Ev) /\ EventStep(Ev[i]) /\ i' = i + 1 /\ case' = case
             \/ i <= Len(Ev) /\ Silent /\ UNCHANGED tvars

Accept == (i = Len(Ev) + 1) => PrintT(<<"ACCEPT", ToJson([id |-> Trace[case].id])>>)
\* diagnostic run over rejected cases: how far does any interleaving get?
Progress == PrintT(<<"AT", ToJson([id |-> Trace[case].id, i |-> i])>>)
=============================================================================
