\* C20 nonce extraction as coded at the pinned commit (first Content-Security-Policy line only, policy lists not split): TLC must reject HtmlGetsExactlyOneScript.
CONSTANTS
  UnsupportedRule = "pass"
  HeadRule = "pass"
  StatusRule = "pass"
  CtRule = "caseinsensitive"
  ParseRule = "scripting"
  CspRule = "firstline"
  LengthRule = "set"
  EmitCases = FALSE
INIT Init
NEXT Next
INVARIANTS TypeOK PassThroughIsIdentity HtmlGetsExactlyOneScript DocumentOnlyAppendedTo LengthMatchesBody EncodingHeaderDescribesBody HeadIsUntouched
CHECK_DEADLOCK FALSE
