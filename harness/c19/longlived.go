package main

import (
	"bufio"
	"context"
	"fmt"
	"net"
	"net/http"
	"strconv"
	"strings"
	"sync"
	"sync/atomic"
	"time"

	"github.com/a-h/templ/cmd/templ/generatecmd"
)

// longlivedMain binds LiveClientStaysRegistered (spec/Sse.tla) to the REAL serving path: the proxy is started the
// way `templ generate --watch --proxy=...` starts it ((*Generate).StartProxy: its own listener, its own http.Server
// settings), browsers connect to /_templ/reload/events over TCP and just sit there reading pings for `idle`
// seconds -- longer than any sensible per-request deadline of the serving layer. During that time the server must
// not end their stream (no unregister event, no EOF); a broadcast issued afterwards must reach every one of them.
//
//	c19 longlived <idle-seconds> <clients>
func longlivedMain(args []string) {
	if len(args) < 2 {
		vhlibFatal("usage: c19 longlived <idle-seconds> <clients>")
	}
	idleSec, _ := strconv.Atoi(args[0])
	nc, _ := strconv.Atoi(args[1])
	var registered, unregistered atomic.Int64
	setHook(func(ev string, id int64, key any, data string) {
		switch ev {
		case "register":
			registered.Add(1)
		case "unregister":
			unregistered.Add(1)
		}
	})
	l, err := net.Listen("tcp", "127.0.0.1:0")
	if err != nil {
		vhlibFatal("%v", err)
	}
	port := l.Addr().(*net.TCPAddr).Port
	l.Close()
	cmd := &generatecmd.Generate{Log: quietLogger, Args: &generatecmd.Arguments{
		Proxy:     "http://127.0.0.1:1", // never contacted: only the event stream is used
		ProxyBind: "127.0.0.1",
		ProxyPort: port,
	}}
	ctx, cancel := context.WithCancel(context.Background())
	defer cancel()
	p, err := cmd.StartProxy(ctx)
	if err != nil || p == nil {
		vhlibFatal("StartProxy: %v %v", p, err)
	}
	eventsURL := fmt.Sprintf("http://127.0.0.1:%d/_templ/reload/events", port)
	emit(map[string]any{"kind": "begin", "i": 0})

	type client struct {
		lines chan string
		ended chan error
	}
	clients := make([]*client, nc)
	tr := &http.Transport{}
	hc := &http.Client{Transport: tr}
	for k := range clients {
		var resp *http.Response
		for i := 0; i < 100; i++ {
			req, _ := http.NewRequestWithContext(ctx, http.MethodGet, eventsURL, nil)
			if resp, err = hc.Do(req); err == nil {
				break
			}
			time.Sleep(50 * time.Millisecond)
		}
		if err != nil {
			vhlibFatal("could not connect to the event stream served by StartProxy: %v", err)
		}
		c := &client{lines: make(chan string, 1000), ended: make(chan error, 1)}
		clients[k] = c
		go func() {
			defer resp.Body.Close()
			sc := bufio.NewScanner(resp.Body)
			for sc.Scan() {
				c.lines <- sc.Text()
			}
			c.ended <- sc.Err()
		}()
	}
	if registered.Load() != int64(nc) {
		vhlibFatal("%d clients connected but %d register events: the verif hook did not fire", nc, registered.Load())
	}
	fails := 0
	fail := func(sig, what string, k int, waited time.Duration) {
		fails++
		emit(map[string]any{"kind": "fail", "sig": sig, "what": what, "case": map[string]any{
			"client": k, "connected_for": waited.String(), "served_by": "(*generatecmd.Generate).StartProxy", "clients": nc,
			"reproduce": fmt.Sprintf("c19 longlived %d %d", idleSec, nc)}})
	}
	// the tabs sit there, reading pings
	start := time.Now()
	ended := make([]bool, nc)
	deadline := time.After(time.Duration(idleSec) * time.Second)
idle:
	for {
		for k, c := range clients {
			select {
			case e := <-c.ended:
				if !ended[k] {
					ended[k] = true
					fail("LiveClientStaysRegistered.ServerEndedStream", fmt.Sprintf("the server ended the event stream of a healthy, connected client after %s (%v)", time.Since(start).Round(100*time.Millisecond), e), k, time.Since(start))
				}
			default:
			}
		}
		select {
		case <-deadline:
			break idle
		case <-time.After(100 * time.Millisecond):
		}
	}
	if u := unregistered.Load(); u != 0 && fails == 0 {
		fail("LiveClientStaysRegistered.ServerEndedStream", fmt.Sprintf("%d client(s) were unregistered while their browsers were still connected", u), -1, time.Since(start))
	}
	pings := 0
	for _, c := range clients {
	drain:
		for {
			select {
			case l := <-c.lines:
				if l == "data: ping" {
					pings++
				}
			default:
				break drain
			}
		}
	}
	// a file changes: reload
	p.SendSSE("message", "reload-longlived")
	var wg sync.WaitGroup
	var mu sync.Mutex
	got := 0
	for k, c := range clients {
		if ended[k] {
			continue
		}
		wg.Add(1)
		go func() {
			defer wg.Done()
			to := time.After(expectTimeout)
			for {
				select {
				case l := <-c.lines:
					if strings.TrimSpace(l) == "data: reload-longlived" {
						mu.Lock()
						got++
						mu.Unlock()
						return
					}
				case e := <-c.ended:
					mu.Lock()
					fail("LiveClientStaysRegistered.ServerEndedStream", fmt.Sprintf("the event stream ended instead of delivering the reload (%v)", e), k, time.Since(start))
					mu.Unlock()
					return
				case <-to:
					mu.Lock()
					fail("Deliver.NotReceived", "a client connected for a long time did not receive the broadcast (served by StartProxy)", k, time.Since(start))
					mu.Unlock()
					return
				}
			}
		}()
	}
	wg.Wait()
	emit(map[string]any{"kind": "result", "i": 0, "outcome": "ok"})
	emit(map[string]any{"kind": "summary", "clients": nc, "idle_s": idleSec, "pings": pings, "received": got, "fails": fails,
		"registered": registered.Load(), "unregistered_while_connected": unregistered.Load()})
}
