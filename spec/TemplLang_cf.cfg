\* Small control-flow family (exhaustive in the quick tier): text and expressions around and inside if/else-if/else, for, switch.
CONSTANTS
  MaxNodes = 3
  MaxDepth = 3
  Kinds = {"expr", "if", "else", "for", "switch"}
  InlineNames = {}
  BlockNames = {}
  VoidNames = {}
  AttrChoices <- AttrChoicesNone
  WsChoices = {"v"}
  Words = {"w1"}
  Exprs = {"E1", "E3"}
  Conds = {"C1"}
  Lists = {"L1"}
  EnvSeq <- EnvSeqDef
INIT Init
NEXT Next
VIEW View
INVARIANTS TypeOK MustOnlyBetweenInline DenotedDocumentsBalanced EmitProgram
CHECK_DEADLOCK FALSE
