\* C18 framing NEGATIVE config: the header counts runes -- must violate Lossless (a multi-byte body is cut short, decoding fails).
CONSTANTS
  Cap = 40
  Msgs <- SmallMsgs
  MaxMsgs = 2
  LenMode = "runes"
  IdDecode = "strict"
  Variants <- VariantsDef
  ChunkMax = 2
  AllCuts = TRUE
INIT Init
NEXT Next
VIEW View
INVARIANTS TypeOK ReadIsPrefixOfSent Lossless
CHECK_DEADLOCK FALSE
