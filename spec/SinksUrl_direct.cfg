\* C04 design check, the string handed to a URL parser without an HTML layer.
CONSTANTS
  AcceptMode = "coded"
  Pipeline = "direct"
  EmitEdges = FALSE
INIT Init
NEXT Next
VIEW View
INVARIANTS TypeOK PassImpliesSafe ValueIntact
PROPERTIES FailIsFixed
CHECK_DEADLOCK FALSE
