----------------------------- MODULE MCTemplLang -----------------------------
(* Model-checking / enumeration instance of TemplLang. *)
EXTENDS TemplLang, TemplVocab
=============================================================================
