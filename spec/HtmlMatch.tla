----------------------------- MODULE HtmlMatch -----------------------------
(* Pure operators shared by the trace specs of the sink properties: HtmlTok is run over a REAL output and
   every emitted event is fed to a matcher that compares the event stream with the token pattern the template
   author wrote (HtmlTok's event vocabulary) containing placeholders at the dynamic positions:
     [k |-> "V", c |-> 0|1]   the interpolated string, verbatim, as one run of "ch" (0) / "av" (1) events
     [k |-> "A", c |-> 0|1]   a run of "ch"/"av" events whose content is not claimed: structure only
   Fold(pat, in, out) returns [q |-> final tokenizer state, m |-> matcher state] with
     m.sok   Structure: the event stream is exactly the pattern with SOME run at each placeholder
     m.vok   Verbatim:  the run at every "V" placeholder is `in`, modulo the tokenizer's input preprocessing
             (CR->LF, LF after CR dropped, NUL as NUL or U+FFFD, undecodable byte -> U+FFFD)
     m.val   (FoldCap only) the symbols of all placeholder runs, concatenated (the decoded dynamic value)
   Tokenizer and matcher are folded together with SequencesExt!FoldLeft (Java override: no event list is
   built, no deep recursion).                                                                          *)
EXTENDS HtmlTok
LOCAL INSTANCE SequencesExt

Kind(n) == IF n = 1 THEN "av" ELSE "ch"
IsHole(pe) == pe.k = "A" \/ pe.k = "V"

(* matcher state: pi pattern index, j next input index inside a V run, pcr "previous input symbol was CR",
   sok structure holds so far, vok verbatim holds so far *)
M0 == [pi |-> 1, j |-> 1, pcr |-> FALSE, sok |-> TRUE, vok |-> TRUE, cap |-> FALSE, val |-> <<>>]
M0Cap == [M0 EXCEPT !.cap = TRUE]      \* also capture the placeholder runs in m.val

\* leaving the hole at pat[m.pi]: a V run must have consumed the whole input (a final LF after CR yields no event)
Leave(pat, in, m) ==
    LET pe   == pat[m.pi]
        done == m.j > Len(in) \/ (m.j = Len(in) /\ in[m.j] = cLF /\ m.pcr)
    IN  [m EXCEPT !.pi = m.pi + 1, !.j = 1, !.pcr = FALSE, !.vok = m.vok /\ (pe.k = "A" \/ done)]

\* one event of a V run against the input
RECURSIVE VEat(_, _, _)
VEat(in, m, got) ==
    IF m.j > Len(in) THEN [m EXCEPT !.vok = FALSE]
    ELSE LET x == in[m.j] IN
         IF x = cLF /\ m.pcr THEN VEat(in, [m EXCEPT !.j = m.j + 1, !.pcr = FALSE], got)
         ELSE LET ok == IF x = cCR THEN got = cLF
                        ELSE IF x = cNUL THEN got \in {cNUL, kFFFD}
                        ELSE IF x = kBADBYTE THEN got = kFFFD
                        ELSE got = x
              IN  [m EXCEPT !.j = m.j + 1, !.pcr = (x = cCR), !.vok = m.vok /\ ok]

RECURSIVE MStep(_, _, _, _)
MStep(pat, in, m, ev) ==
    IF ~m.sok THEN m
    ELSE IF m.pi > Len(pat) THEN [m EXCEPT !.sok = FALSE]
    ELSE LET pe == pat[m.pi] IN
         IF IsHole(pe)
         THEN IF ev.k = Kind(pe.c)
              THEN LET m2 == IF m.cap THEN [m EXCEPT !.val = Append(m.val, ev.c)] ELSE m IN
                   IF pe.k = "V" /\ m.vok THEN VEat(in, m2, ev.c) ELSE m2
              ELSE MStep(pat, in, Leave(pat, in, m), ev)
         ELSE IF ev.k = pe.k /\ ev.c = pe.c THEN [m EXCEPT !.pi = m.pi + 1]
         ELSE [m EXCEPT !.sok = FALSE]

RECURSIVE MSteps(_, _, _, _, _)
MSteps(pat, in, m, evs, n) == IF n > Len(evs) THEN m ELSE MSteps(pat, in, MStep(pat, in, m, evs[n]), evs, n + 1)

RECURSIVE MFinish(_, _, _)
MFinish(pat, in, m) ==
    IF ~m.sok \/ m.pi > Len(pat) THEN m
    ELSE IF IsHole(pat[m.pi]) THEN MFinish(pat, in, Leave(pat, in, m))
    ELSE [m EXCEPT !.sok = FALSE]

\* tokenizer + matcher over out, folded iteratively (SequencesExt!FoldLeft has a Java override: no deep recursion)
FoldOp(pat, in, acc, c) ==
    LET pr == PreStep(acc.p, c) IN
    IF pr.out = <<>> THEN [acc EXCEPT !.p = pr.p]
    ELSE LET r == Step(acc.q, pr.out[1]) IN
         [q |-> r.q, p |-> pr.p, m |-> MSteps(pat, in, acc.m, r.out, 1)]
FoldFrom(pat, in, out, m0) ==
    LET f == FoldLeft(LAMBDA acc, c : FoldOp(pat, in, acc, c), [q |-> InitTok, p |-> FALSE, m |-> m0], out)
    IN  [q |-> f.q, m |-> MFinish(pat, in, f.m)]
Fold(pat, in, out) == FoldFrom(pat, in, out, M0)
FoldCap(pat, in, out) == FoldFrom(pat, in, out, M0Cap)
=============================================================================
