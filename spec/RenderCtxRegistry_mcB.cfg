\* C12 design check B: two contexts in every mode combination, one id of each sort.
CONSTANTS
  Ctxs <- Ctx2
  Modes = {"plain", "mw", "fresh"}
  Scripts = {"s1"}
  Classes = {"k1"}
  BlockHandles = {"h1"}
  ZeroHandles = {}
  FixedHandles = {"g1"}
  RegSeq <- RegK1
  OnSeqs <- OnSeqsCore
  ClassExprs <- ClassExprsCore
  Repaired = {"KvCompName", "SliceKVRules"}
  Variant = "asCoded"
  NonceCtxs = {"c1", "c2"}
  MaxNonces = 1
  MaxSteps = 99
  EmitEdges = FALSE
INIT Init
NEXT Next
VIEW View
INVARIANTS TypeOK RegistryMatchesDocument
PROPERTIES AtMostOnce DefBeforeFirstUse EveryUseHasCallOrName MiddlewareNeverInlined StylesheetServesRegistered ContextsIndependent NonceKeepsRegistry
CHECK_DEADLOCK FALSE
