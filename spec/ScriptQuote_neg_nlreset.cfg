\* C03 negative: a parser that resets an open ' or " literal at a bare LF must be rejected (backslash CR LF line continuation in a CRLF file)
CONSTANTS
  EscMode = "any"
  CommentGuard = TRUE
  NlReset = TRUE
  MaxPre = 1
  EmitCases = FALSE
INIT Init
NEXT Next
VIEW View
INVARIANTS QuoteStateAgrees
CHECK_DEADLOCK FALSE
